#!/venv/bin/python
"""Run every check against the corpora of /verif: benign/ (behaviour-preserving refactorings, must
stay silent everywhere) and seeded/ (property-breaking changes, the target property must fire).

    tools/corpus.py [benign|seeded|all] [name filter ...] [--deep] [--props=C16,C18]

Scratch copies live in a temporary directory and are removed.  Nothing of the repository is run."""
import json
import os
import shutil
import subprocess
import sys
import tempfile
from concurrent.futures import ProcessPoolExecutor

VERIF = os.path.dirname(os.path.dirname(os.path.abspath(__file__)))
sys.path.insert(0, VERIF)
REPO = '/repo'
PROPS = ['C%02d' % i for i in range(1, 21)]
for _a in sys.argv[1:]:
    if _a.startswith('--props='):
        PROPS = _a[len('--props='):].split(',')


def job(args):
    kind, name, deep = args
    from sa.selftest import analyse
    from sa.model import AnalysisError
    import traceback
    os.environ['VERIF_BOUNDED_DEPTH'] = '3' if deep else '2'
    os.environ['VERIF_BOUNDED_COMBS'] = '' if deep else '0'
    os.environ['VERIF_INNER_JOBS'] = '4' if deep else '1'
    d = os.path.join(VERIF, kind, name)
    tmp = tempfile.mkdtemp(prefix='corpus_')
    res = dict(kind=kind, name=name, fired={}, errors={})
    try:
        shutil.copytree(os.path.join(REPO, 'src'), os.path.join(tmp, 'src'), ignore=shutil.ignore_patterns('__pycache__', '*.egg-info'))
        p = subprocess.run('patch -p1 --no-backup-if-mismatch < %s' % os.path.join(d, 'patch.diff'), shell=True, cwd=tmp,
                           stdout=subprocess.PIPE, stderr=subprocess.STDOUT, text=True)
        if p.returncode != 0:
            res['errors']['patch'] = p.stdout[-200:]
            return res
        for prop in ([name[:3]] if kind == 'seeded' and '--target-only' in sys.argv else PROPS):
            try:
                rep = analyse(prop, tmp)
                v = rep.new_violations()
                if v:
                    res['fired'][prop] = sorted({x['rule'] for x in v})
                    res.setdefault('detail', {})[prop] = ['%s %s: %s' % (x['rule'], x['construct'], x['detail'][:140]) for x in v][:3]
                elif rep.deferred:
                    res['errors'][prop] = '; '.join(rep.deferred)[:200]
            except AnalysisError as e:
                res['errors'][prop] = str(e)[:200]
            except Exception:
                res['errors'][prop] = 'internal: ' + traceback.format_exc().strip().splitlines()[-1][:200]
        return res
    finally:
        shutil.rmtree(tmp, ignore_errors=True)


def main():
    args = [a for a in sys.argv[1:] if not a.startswith('--')]
    deep = '--deep' in sys.argv
    verbose = '--verbose' in sys.argv or '-v' in sys.argv
    which = args[0] if args else 'all'
    filters = args[1:]
    jobs = []
    for kind in ('benign', 'seeded'):
        if which not in ('all', kind):
            continue
        for name in sorted(os.listdir(os.path.join(VERIF, kind))):
            if os.path.exists(os.path.join(VERIF, kind, name, 'patch.diff')) and (not filters or any(f in name for f in filters)):
                jobs.append((kind, name, deep))
    with ProcessPoolExecutor(max_workers=16) as pool:
        results = list(pool.map(job, jobs))
    bad = 0
    for r in results:
        if r['kind'] == 'benign':
            ok = not r['fired'] and not r['errors']
            status = 'ok' if ok else 'FALSE-ALARM' if r['fired'] else 'ANALYSIS-ERROR'
        else:
            target = r['name'][:3]
            ok = target in r['fired']
            status = 'ok' if ok else 'MISSED'
        if not ok:
            bad += 1
        if not ok or verbose:
            print('%-8s %-14s %-9s fired=%s errors=%s' % (r['kind'], status, r['name'], json.dumps(r['fired']), json.dumps(r['errors'])[:300]))
            if verbose or r['kind'] == 'benign':
                for p, ds in r.get('detail', {}).items():
                    for dd in ds:
                        print('           %s' % dd[:230])
    print('corpus: %d entries, %d not as expected' % (len(results), bad))
    return 1 if bad else 0


if __name__ == '__main__':
    sys.exit(main())
