#!/venv/bin/python
"""Collect the results of sub-agents from their scratch worktrees into /verif/seeded or /verif/benign and remove the
worktrees.   tools/harvest.py seed <prefix> <ids...>    |    tools/harvest.py benign <prefix> <round-tag> <ids...>"""
import os
import shutil
import subprocess
import sys

VERIF = os.path.dirname(os.path.dirname(os.path.abspath(__file__)))


def main():
    kind, prefix = sys.argv[1], sys.argv[2]
    if kind == 'seed':
        for pid in sys.argv[3:]:
            wt = '%s%s' % (prefix, pid)
            for x in sorted(os.listdir(os.path.join(wt, 'SEED'))) if os.path.isdir(os.path.join(wt, 'SEED')) else []:
                src = os.path.join(wt, 'SEED', x)
                if os.path.isdir(src) and os.path.isfile(os.path.join(src, 'patch.diff')):
                    dst = os.path.join(VERIF, 'seeded', pid + x)
                    os.makedirs(dst, exist_ok=True)
                    for f in ('patch.diff', 'demo.py', 'notes.md'):
                        if os.path.isfile(os.path.join(src, f)):
                            shutil.copy(os.path.join(src, f), dst)
                    print('seeded/%s%s' % (pid, x))
            subprocess.run(['git', '-C', '/repo', 'worktree', 'remove', '--force', wt])
    else:
        tag = sys.argv[3]
        for n in sys.argv[4:]:
            wt = '%s%s' % (prefix, n)
            base = os.path.join(wt, 'BENIGN')
            for x in sorted(os.listdir(base)) if os.path.isdir(base) else []:
                src = os.path.join(base, x)
                if os.path.isdir(src) and os.path.isfile(os.path.join(src, 'patch.diff')):
                    dst = os.path.join(VERIF, 'benign', 'B%s%s%s' % (n, tag, x))
                    os.makedirs(dst, exist_ok=True)
                    for f in ('patch.diff', 'notes.md'):
                        if os.path.isfile(os.path.join(src, f)):
                            shutil.copy(os.path.join(src, f), dst)
                    print('benign/B%s%s%s' % (n, tag, x))
            subprocess.run(['git', '-C', '/repo', 'worktree', 'remove', '--force', wt])
    subprocess.run(['git', '-C', '/repo', 'worktree', 'prune'])


if __name__ == '__main__':
    main()
