#!/venv/bin/python
"""Confirm seeded changes and record what detects them: writes seeded/<id>/meta.json.

For every seed: scratch copy of /repo (src, tests), patch applied; the pinned test suite must pass with the
change; demo.py must fail with the change and pass without it; then every check is run on the copy (quick
settings, bounded depth 3).  Scratch copies live in a temporary directory and are removed.

    tools/mk_seed_meta.py [name filter ...] [--force]
"""
import json
import os
import shutil
import subprocess
import sys
import tempfile
from concurrent.futures import ProcessPoolExecutor

VERIF = os.path.dirname(os.path.dirname(os.path.abspath(__file__)))
sys.path.insert(0, VERIF)
REPO = '/repo'
PY = '/venv/bin/python'
PROPS = ['C%02d' % i for i in range(1, 21)]


def sh(cmd, cwd=None, env=None, timeout=900):
    e = dict(os.environ)
    e.update(env or {})
    p = subprocess.run(cmd, shell=True, cwd=cwd, env=e, stdout=subprocess.PIPE, stderr=subprocess.STDOUT, text=True, timeout=timeout)
    return p.returncode, p.stdout


def job(name):
    from sa.selftest import analyse
    from sa.model import AnalysisError
    deep = name in ('C05a', 'C05j', 'C06b', 'C06e', 'C06f', 'C06i', 'C06j') or os.environ.get('VERIF_META_DEEP')
    os.environ['VERIF_BOUNDED_DEPTH'] = '3' if deep else '2'
    os.environ['VERIF_BOUNDED_COMBS'] = '' if deep else '0'
    os.environ['VERIF_INNER_JOBS'] = '2'
    d = os.path.join(VERIF, 'seeded', name)
    tmp = tempfile.mkdtemp(prefix='seedmeta_')
    head = sh('git -C %s rev-parse --short HEAD' % REPO)[1].strip()
    notes = open(os.path.join(d, 'notes.md')).read() if os.path.exists(os.path.join(d, 'notes.md')) else ''
    needs = ''
    for line in notes.splitlines():
        l = line.strip().lstrip('-* ').strip()
        if l.lower().startswith(('needed to manifest', 'needs', 'what it needs', 'needs a specific', 'need')):
            needs = l
            break
    meta = dict(seed=name, property=name[:3],
                origin='independent sub-agent given only the property text and a scratch worktree of /repo (HEAD %s), nothing from /verif' % head,
                needs_to_manifest=needs or (notes.splitlines()[0] if notes else ''))
    try:
        for sub in ('src', 'tests'):
            shutil.copytree(os.path.join(REPO, sub), os.path.join(tmp, sub), ignore=shutil.ignore_patterns('__pycache__', '*.egg-info'))
        for f in ('setup.py', 'setup.cfg', 'pyproject.toml'):
            if os.path.exists(os.path.join(REPO, f)):
                shutil.copy(os.path.join(REPO, f), tmp)
        rc, out = sh('patch -p1 --no-backup-if-mismatch -s < %s' % os.path.join(d, 'patch.diff'), cwd=tmp)
        conf = dict(patch_applies=rc == 0)
        if rc == 0:
            rc, out = sh('%s -m pytest -q -p no:cacheprovider tests 2>&1 | tail -1' % PY, cwd=tmp, env={'PYTHONPATH': os.path.join(tmp, 'src')})
            conf['suite_with_change'] = out.strip()
            demo = os.path.join(d, 'demo.py')
            if os.path.exists(demo):
                conf['demo_exit_with_change'] = sh('%s %s' % (PY, demo), cwd=d, env={'PYTHONPATH': os.path.join(tmp, 'src')}, timeout=600)[0]
                conf['demo_exit_clean'] = sh('%s %s' % (PY, demo), cwd=d, env={'PYTHONPATH': os.path.join(REPO, 'src')}, timeout=600)[0]
            conf['how'] = ('tools/mk_seed_meta.py: scratch copy of /repo (src, tests), patch -p1, pytest tests, demo.py with PYTHONPATH=<copy>/src '
                           'and =/repo/src, then every check on the copy (bounded compiler check at depth %s)' % os.environ['VERIF_BOUNDED_DEPTH'])
            detected, errors = {}, {}
            for prop in PROPS:
                try:
                    rep = analyse(prop, tmp)
                    v = rep.new_violations()
                    if v:
                        detected[prop] = sorted({x['rule'] for x in v})
                    elif rep.deferred:
                        errors[prop] = '; '.join(rep.deferred)[:160]
                except AnalysisError as e:
                    errors[prop] = str(e)[:160]
                except Exception as e:
                    errors[prop] = 'internal: %r' % (e,)
            meta['detected_by'] = detected
            meta['analysis_errors'] = errors
            meta['target_property_detects'] = name[:3] in detected
        meta['confirmed'] = conf
        for junk in ('__pycache__',):
            shutil.rmtree(os.path.join(d, junk), ignore_errors=True)
        with open(os.path.join(d, 'meta.json'), 'w') as fh:
            json.dump(meta, fh, indent=1)
            fh.write('\n')
        return name, conf, meta.get('target_property_detects'), sorted(meta.get('detected_by', {}))
    finally:
        shutil.rmtree(tmp, ignore_errors=True)


def main():
    args = [a for a in sys.argv[1:] if not a.startswith('--')]
    force = '--force' in sys.argv
    names = []
    for name in sorted(os.listdir(os.path.join(VERIF, 'seeded'))):
        d = os.path.join(VERIF, 'seeded', name)
        if not os.path.exists(os.path.join(d, 'patch.diff')):
            continue
        if args and not any(a in name for a in args):
            continue
        if os.path.exists(os.path.join(d, 'meta.json')) and not force:
            continue
        names.append(name)
    with ProcessPoolExecutor(max_workers=8) as pool:
        for name, conf, det, by in pool.map(job, names):
            ok = conf.get('patch_applies') and conf.get('suite_with_change', '').startswith('61 passed') and \
                conf.get('demo_exit_with_change') not in (0, None) and conf.get('demo_exit_clean') == 0
            print('%-6s confirmed=%s target-detects=%s by=%s  %s' % (name, bool(ok), det, ','.join(by), '' if ok else json.dumps(conf)))
    return 0


if __name__ == '__main__':
    sys.exit(main())
