#!/venv/bin/python
"""Evaluate seeded changes: confirm each (suite green, demo fails with / passes without the change)
and run every check against it.  Usage: try_seeds.py <dir with */patch.diff> ...   (scratch copies
are made under a temporary directory and removed)."""
import json
import os
import shutil
import subprocess
import sys
import tempfile

VERIF = os.path.dirname(os.path.dirname(os.path.abspath(__file__)))
REPO = '/repo'
PY = '/venv/bin/python'


def sh(cmd, cwd=None, env=None, timeout=600):
    e = dict(os.environ)
    e.update(env or {})
    p = subprocess.run(cmd, shell=True, cwd=cwd, env=e, stdout=subprocess.PIPE, stderr=subprocess.STDOUT, text=True, timeout=timeout)
    return p.returncode, p.stdout


def evaluate(seed_dir, confirm=True):
    patch = os.path.join(seed_dir, 'patch.diff')
    demo = os.path.join(seed_dir, 'demo.py')
    tmp = tempfile.mkdtemp(prefix='seedcopy_')
    res = dict(seed=seed_dir)
    try:
        for d in ('src', 'tests', 'compiler'):
            shutil.copytree(os.path.join(REPO, d), os.path.join(tmp, d), ignore=shutil.ignore_patterns('__pycache__', '*.egg-info'))
        for f in ('setup.py', 'setup.cfg', 'pyproject.toml'):
            if os.path.exists(os.path.join(REPO, f)):
                shutil.copy(os.path.join(REPO, f), tmp)
        rc, out = sh('patch -p1 --no-backup-if-mismatch < %s' % patch, cwd=tmp)
        res['applies'] = rc == 0
        if rc != 0:
            res['apply_output'] = out[-400:]
            return res
        if confirm:
            rc, out = sh('%s -m pytest -q -p no:cacheprovider tests 2>&1 | tail -1' % PY, cwd=tmp, env={'PYTHONPATH': os.path.join(tmp, 'src')})
            res['suite'] = out.strip()
            if os.path.exists(demo):
                rc1, _ = sh('%s %s' % (PY, demo), cwd=seed_dir, env={'PYTHONPATH': os.path.join(tmp, 'src')}, timeout=300)
                rc0, _ = sh('%s %s' % (PY, demo), cwd=seed_dir, env={'PYTHONPATH': os.path.join(REPO, 'src')}, timeout=300)
                res['demo_with_change'] = rc1
                res['demo_clean'] = rc0
        fired = {}
        procs = []
        for i in range(1, 21):
            p = 'C%02d' % i
            procs.append((p, subprocess.Popen([os.path.join(VERIF, 'check'), p, '--repo', tmp, '--no-evidence'],
                                              stdout=subprocess.PIPE, stderr=subprocess.STDOUT, text=True)))
        for p, pr in procs:
            out, _ = pr.communicate()
            if pr.returncode != 0:
                rules = sorted({l.split('rule ')[1].split(' violated')[0] for l in out.splitlines() if ': rule ' in l and ' violated at ' in l})
                fired[p] = dict(exit=pr.returncode, rules=rules, first=[l for l in out.splitlines() if 'violated at' in l or 'ANALYSIS-ERROR' in l][:2])
        res['fired'] = fired
        return res
    finally:
        shutil.rmtree(tmp, ignore_errors=True)


def main():
    dirs = []
    for a in sys.argv[1:]:
        if os.path.exists(os.path.join(a, 'patch.diff')):
            dirs.append(a)
        else:
            for s in sorted(os.listdir(a)):
                if os.path.exists(os.path.join(a, s, 'patch.diff')):
                    dirs.append(os.path.join(a, s))
    for d in dirs:
        r = evaluate(d)
        conf = 'suite=%s demo(with)=%s demo(clean)=%s' % (r.get('suite', '?')[:12], r.get('demo_with_change'), r.get('demo_clean'))
        fired = r.get('fired', {})
        print('%-28s applies=%s %s' % (d[-28:], r.get('applies'), conf))
        for p, f in fired.items():
            print('      %s exit=%d %s' % (p, f['exit'], ', '.join(f['rules']) or (f['first'][0][:160] if f['first'] else '')))
        if not fired:
            print('      -- no check fires')
        sys.stdout.flush()
        with open(os.path.join(d, 'evaluation.json'), 'w') as fh:
            json.dump(r, fh, indent=1)


if __name__ == '__main__':
    main()
