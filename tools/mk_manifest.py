#!/venv/bin/python
"""Writes /verif/MANIFEST.json from the table below (run by hand after editing the table)."""
import json
import os

ROOT = os.path.dirname(os.path.dirname(os.path.abspath(__file__)))

TRUST = ('CPython\'s ast parser; prolog.g4 / the generated parser are what ANTLR 4.9.1 recognises (cross-checked as far as '
         'their readable tables go); the analysers in /verif/sa (self-tested both ways by ./check selftest); nothing of the '
         'repository is imported or executed')

P = {
 'C01': dict(tech='symbolic rule extraction from compile_body + reference-semantics soundness per rule; emitter template extraction (abstract interpretation) + skeleton parse; variable-coverage and declaration-order rules; bounded partial evaluation of the compiler source by the checker\'s own AST evaluator (compile_program / visitProgram on sample clauses and programs: scope, head, per-clause statelessness, grouping; all bodies to depth 3 + spine bodies to depth 4 against the reference semantics); engine-side necessary conditions (binder ownership, undo on all exits, one yield, arity guard, \\= by unification)',
     text='Static, in part. Decides: fresh variables per activation and distinct "_" (counter discipline on the CFG, DFA disjointness of generated and source names, variables-property coverage, declarations before the body); every one of the rewrite/base rules extracted from compile_body is sound against a reference semantics for all behaviours of its sub-bodies (so A,B nests left-to-right, depth-first, by induction over the recursion tree); head unification is folded around the body with complementary alias/unify tests; the emitter is total on every code tree the compiler can build (incl. empty bodies). Does NOT decide that the answer sequence equals SLD resolution for all programs and queries - that is value-level over unbounded inputs; this is the largest undecided part of the property.',
     ref='4 C01'),
 'C02': dict(tech='CFG path rules (at most one yield, dominance of the length guard), ownership of the binding cell, typestate of held sub-generators; no-cached-binding-state rule (no predicate of the binding cell stored in a field); atoms compared by name',
     text='Static, in part. Decides on every path of every unifier: at most one yield; the argument-list unifier compares both lengths with !=/== before any element access and cannot yield on the unequal side; only the variable class writes the binding cell, only when unbound, only a dereferenced value, never the variable itself; sub-unifications stay open until the yield. Most-generality of the bindings for all term pairs and binding stacks is value-level and NOT decided.',
     ref='4 C02'),
 'C03': dict(tech='must-pass-through on CFGs with throw/close edges out of every yield; escape analysis of binder generators; no-cached-binding-state rule; finalisation of the query in evaluate_bounded',
     text='Static. Every store that binds a variable is followed, on every CFG path to every exit of the generator frame (return, fall-through, exception, and the throw and close edges out of each yield), by the store that unbinds it; only the variable class writes the cell; no generator that may hold bindings is stored where it outlives its frame, closed before the yield that reports its answer, or exhausted before a yield. These are the mechanisms the property rests on; CPython\'s immediate finalisation of unreferenced suspended generators is trusted, as the repository itself does.',
     ref='4 C03'),
 'C04': dict(tech='write-effect and ownership analysis over all non-generated modules; definition-time state rule (decorator closures); engine methods store only on self or on objects created on the spot',
     text='Static ownership argument. There is no location that two engine instances, or two suspended queries over disjoint variables, can both reach and one can write: no function writes or mutates module-level or class-level state, every mutated engine field is bound fresh per instance, mutable defaults are only read, scripts run on a copy of this instance\'s context built from its own members, and the transitive write effects of the query path are confined to binding cells and atom interning. Schedules cannot falsify this by sampling; thread atomicity inside CPython and ANTLR\'s caches are trusted.',
     ref='4 C04'),
 'C05': dict(tech='symbolic rule extraction + soundness of every cut-handling/sub-body-moving rule; bounded semantic check of the emitter templates; call-protocol rules; bounded partial evaluation of compile_program on t :- Body for all bodies to depth 3 (thorough: spine bodies to depth 4); emitter evaluated on sample trees when templates cannot be extracted; the visitor\'s operator mapping',
     text='Static. Every compiler rule that handles ! or moves a sub-body that may cut across ; or -> is extracted from compile_body and decided against the reference semantics (including how the clause ended) for all behaviours of the surrounding goals; the emitter templates are shown to turn the cut into an exit from the single function that holds all clauses of the predicate (mini-language trees to depth 3 with a sentinel next clause, emitted Python interpreted by a small interpreter); the engine never reads a yielded value; combined definitions are separate generators. Cuts in opaque positions are excluded by the statement.',
     ref='4 C05'),
 'C06': dict(tech='symbolic rule extraction + soundness per rule; exhaustiveness; template extraction + bounded semantic check + protocol invariants; grammar/parser-table reading; symbolic extraction of the visitor\'s operator mapping; bounded partial evaluation of compile_program on t :- Body for all bodies to depth 3 and spine bodies to depth 4 (39 661); goals with activation-dependent behaviour in the emitter check; emitted text compiled (never executed)',
     text='Static. Every rewrite and base rule for ; -> \\+ true fail is sound for all behaviours of its sub-bodies and all continuations; compile_body and compile_expression are exhaustive over the classes the flow analysis finds; the emitted block/flag protocol implements "leave block L" (bounded semantic check to depth 3 plus the invariants P1-P6 that carry it to unbounded nesting); precedence and associativity are read from prolog.g4 and from the generated parser\'s precedence predicates; the visitor maps each operator to the right node with operands in order.',
     ref='4 C06'),
 'C07': dict(tech='kind inference at store-API call sites, dereference-discipline dataflow, definite assignment, escaping-exception fix-point, branch-shape rules; sibling agreement of store-changing builtins on fields that shadow the store; stored facts immutable and renaming copies (C13 rules); queries write no engine state',
     text='Static. Decides the shape clauses: zero-argument facts use the same key kind as everything else; goals arriving in a bound variable are inspected through get_value on every path; every dispatch on the kind of a goal is total; no exception raised by the engine can leave a database builtin; asserta/assertz select front/back in every branch; retractall returns a single-success iterator on every publishing path; clear() resets what __init__ creates. The contents after an arbitrary history are values and NOT decided (list discipline under suspension is C14).',
     ref='4 C07'),
 'C08': dict(tech='dominance on the CFG of query(), key-template normalisation, guard-shape rules, exception fix-point; helper-inlined views of query/register_function; derived-table rule (memo/combined-definition fields follow every write of eval_context); lookup confinement; sibling agreement of exact/variadic lookups; load-filter rule decided on DFAs; layer D: goals compile to query(name, args)',
     text='Static. Facts are enumerated before definitions (dominance); one key format name_<arity>/name_n shared by register_function, query() and the emitted def line; the variadic key is only the default of the exact one; an unknown predicate cannot raise; combining passes (old, new) and the helper runs them in order as separate generators; a load writes engine state only after exec on a copy succeeded; API names are not addressable as predicates. Answers of arbitrary histories as values are NOT decided.',
     ref='4 C08'),
 'C09': dict(tech='dereference-discipline dataflow, definite assignment, handler-enclosure rule for next(), flag-product CFG for \\=, shape rules for findall/call; derived-table rule; sibling agreement of lookups; dereference closure of get_value',
     text='Static. The meta-call builtins look at goals through their values, handle atom and compound goals through one resolver, append extra arguments after the goal\'s own, cannot turn "no answer" into an exception (no unguarded next() in a generator, every local definitely assigned, no engine exception escapes), findall exhausts the goal collecting get_value(template) and unifies once afterwards, \\= yields only on the no-solution path (flag-product CFG). That findall\'s list holds the right instances is value-level (C15 covers the dereferencing).',
     ref='4 C09'),
 'C10': dict(tech='typestate by dominance on the CFG of the pipeline function, all-paths-raise check of the listener, grammar and generated-parser reading on the helper-inlined view of the pipeline (helpers, helper methods and helper objects pasted in); no handler swallows a rejection without rewinding the token stream',
     text='Static. Between constructing lexer/parser and using the parse tree (1) both get a listener whose syntaxError raises on every path, on every path before the parse call, and (2) an end-of-input test whose other side always raises dominates the use of the tree (the start rule has no EOF and the ANTLR tool is not available to regenerate the parser). With ANTLR trusted to recognise exactly the grammar, (1)+(2) are necessary and sufficient for "complete sentence or exception".',
     ref='4 C10'),
 'C11': dict(tech='template extraction + skeleton parse over all code trees; value-flow analysis + DFA inclusion for lexical classes; nesting-chain rendering; emitter evaluated on sample trees by the checker\'s evaluator when it does not decompose into templates; emitted text compiled (never executed); visitProgram grouping evaluated on a sample program; load-filter rule',
     text='Static. For every code tree the compiler can build (bounded depth, empty lists where the flow analysis allows) the instantiated templates parse, hold exactly one generator def per (name, arity) key and nothing else; every raw hole receiving source text has a lexical class (token regexes read from prolog.g4) included in the class its position needs (decimal integers, ASCII identifiers minus reserved words - decided on DFAs); loop nesting is bounded by an emitter check that raises. What the loaded functions compute is C01.',
     ref='4 C11'),
 'C12': dict(tech='taint analysis: inclusion-based value flow from ANTLR tokens into the raw holes of the extracted templates, DFA inclusion/disjointness; template-independent identifier rule on the value flow of emitter results; lookup confinement in query()',
     text='Static and complete for the compile pipeline: every flow from token text (or any non-constant string) into a raw hole of an emitter template is enumerated; each must be repr()-quoted or of a lexical class that can only be a harmless identifier or integer, disjoint (DFA intersection) from the context keys and from every name the templates bind or generate; callee names are constants of the engine context; the internal commit marker cannot be forged from source; loaded code runs on a copy of the context with empty __builtins__; debug output cannot leave its comment. What user-registered Python predicates do is out of scope.',
     ref='4 C12'),
 'C13': dict(tech='allocation-freshness analysis (greatest fix-point of renaming-copy functions) + dereference discipline; facts immutable after construction',
     text='Static. What assert stores, and what each use of a fact hands to unification, comes out of a function proved to be a renaming copy: every return is an immutable value (parameter narrowed to neither Variable nor Functor), a freshly allocated Variable (directly or through a memo whose entries are all fresh), or a Functor rebuilt from recursive copies; one memo per fact; the copy inspects the dereferenced term. So no Variable or Functor object is shared between caller, store and users. Equality of the copy with the dereferenced original is C15 + values.',
     ref='4 C13'),
 'C14': dict(tech='store-alias analysis + CFG reachability (in-place mutation vs suspendable walks; publish-after-yield derivation); facts immutable after construction; equality-based removal; sibling agreement on fields that shadow the store',
     text='Static. Decides the two shapes that make a logical update view possible: no suspendable loop walks a store-aliased list while any in-place mutation of a store alias (or of an already published list) exists; every list a generator publishes is re-derived from a store read made after its most recent yield; removals are by identity under a presence test on the fresh list. Termination of particular update loops follows from these rules but is not itself decided.',
     ref='4 C14'),
 'C15': dict(tech='dereference-closure rule on the return expressions of every get_value implementation, with dominating-test narrowing; field reads through any receiver in to_python; binder ownership; the renaming copy dereferences',
     text='Static. Every get_value implementation returns self only when atomic or on the unbound path, the result of get_value, or a constructor applied to such values - so by structural induction the value of a ground answer shares no Variable with the live terms; to_python reads components only through get_value/to_python; findall exports get_value results. Equality with the mathematical instance is value-level.',
     ref='4 C15'),
 'C16': dict(tech='constant propagation / agreement rules across compiler, engine context and to_python; interface completeness; exhaustiveness; layer D head/literal rule on clauses with look-alike terms; source text reaches the lexer unchanged; anonymous-variable numbering',
     text='Static, in part. Decides the agreements the statement depends on: same constructor names in compiler output and engine context; string contents travel only through repr(); literal kinds built by the visitor = kinds compile_expression handles; list constants agree between listpair/makelist/ATOM_NIL and to_python; every term class implements the interface; atoms unify by name, are interned per instance and re-interned on clear(). NOT decided: that unquoteString inverts the lexer\'s quoting, numeric values, to_python results as values.',
     ref='4 C16'),
 'C17': dict(tech='must-pass-through on the CFG of evaluate_bounded with every call treated as may-raise; no handler in the query machinery (incl. wrappers stored in the context) catches the depth error; queries write no engine state',
     text='Static. The recursion limit is restored on every path from the acquire to every exit; the depth error is handled around the whole enumeration without re-raise; the result is only appended to, once per iteration, and returned on every non-raising path; the query is closed on every exit (so its bindings are undone, given C03.U1 which is re-checked). Where the limit strikes and maximality of the prefix are run-time matters.',
     ref='4 C17'),
 'C18': dict(tech='value-flow analysis (order-sensitive uses of sets, ambient values reaching the returned text), write-effect analysis, per-call construction rule; points-to rule: no container allocated at import time is mutated; stage objects constructed only under the pipeline call (call-graph dominance)',
     text='Static. No order-sensitive use of a set-typed value and no identity/time/environment-dependent value can reach the text the pipeline function returns; compiler modules write no module/class-level state; lexer, parser, visitor, compiler, emitter and their counters are created per call. CPython and ANTLR are trusted to be deterministic.',
     ref='4 C18'),
 'C19': dict(tech='call-graph rule for the shared pipeline, value-flow + DFA inclusion for comment-safe writes, control-dependence rule for debug flags, constructor-argument agreement on helper-inlined views; stage objects constructed only under the pipeline call; text-mode input rule; debug-only regions by data flow and comment-class inclusion',
     text='Static. CLI and library reach the emitter only through one pipeline function and main() writes its result unmodified per source in order; every other write to the output stream has a lexical class made of whole comment lines; debug flags control only debug writes and comment/blank header lines; all byte-decoding streams use one encoding; the tracing wrapper is transparent; a syntax error is a CompilerError with file, line, column that main() turns into a non-zero exit. click and the OS are trusted.',
     ref='4 C19'),
 'C20': dict(tech='key-template agreement, loop-target use analysis, handler-enclosure rule on the query path; derived-table rule; sibling agreement of lookups; atoms compared by name; arity from inspect.signature',
     text='Static. One table and one call protocol: register_function, the load merge, query() and the emitted def line agree on the key templates; query() calls what it finds as f(*args) with args untouched and delegates; no consumer in the engine reads the value a predicate yields (loop targets unused or yielded on unchanged) and the bounded template check (C05/C06) shows emitted loops ignore it too; no handler sits between a predicate and the consumer of the query. That a particular Python predicate has the same solutions as a Prolog one is not decidable statically.',
     ref='4 C20'),
}

checks = []
for pid in sorted(P):
    d = P[pid]
    checks.append(dict(
        property_id=pid,
        quick_cmd='./check %s' % pid,
        thorough_cmd='./check %s --tier thorough' % pid,
        evidence_file='evidence/%s.json' % pid,
        replay_cmd_template='./check %s --replay {path}' % pid,
        engine='sa',
        level_claimed=dict(category='other', text=d['text'], design_ref='DESIGN.md section ' + d['ref']),
        level_note=TRUST,
        technique='static analysis: ' + d['tech'],
    ))

manifest = dict(
    version=1,
    setup_cmd='true',
    hooks=dict(guard='YLDPROLOG_VERIF', enable='no hooks: every check is static and reads the source of /repo only; nothing is observed at run time',
               baseline_off_cmd='cd /repo && /venv/bin/python -m pytest -ra -q -p no:cacheprovider --timeout=900',
               source_commits=[], add_only=True),
    engines=[dict(name='sa', path='sa/', serves_properties=sorted(P),
                  kind_free_text='repository-specific static analysers on Python ast: program model and call graph, CFGs with generator '
                                 'throw/close edges and flag-product graphs, effect/alias/freshness analyses, inclusion-based value-flow with '
                                 'lexical classes decided on DFAs, template extraction from the emitter by abstract interpretation, symbolic '
                                 'extraction of rewrite rules decided against a reference semantics, bounded partial evaluation of compiler and emitter source by '
                                 'the checker\'s own AST evaluator on sample inputs, helper-inlined views, ANTLR grammar / generated-parser reader')],
    checks=checks,
    notes='All 20 properties are claimed with level "other": each check decides named structural clauses that are necessary '
          'conditions of the property (DESIGN.md section 4 lists, per property, what is decided and what is not). Exit 0 = all rule '
          'instances discharged; exit 1 + VIOLATION line = a rule instance positively violated (file, function, construct, rule, '
          'witness); exit 2 + ANALYSIS-ERROR = the analysis itself could not be carried out (never a silent pass). The pinned tree '
          'violated 15 of the 20 properties; every defect was repaired by a "fix:" commit in /repo and is listed as fixed in '
          'known_findings.json. ./check selftest runs the seeded-defect / benign-rewrite variants; ./check corpus replays 120 independently written property-breaking '
          'changes (seeded/) and 80 behaviour-preserving refactorings (benign/); thorough tier = wider scopes, ANTLR runtime facts '
          're-derived from the installed package, plus the variants and corpus entries of the property.',
    not_applicable=[],
)
json.dump(manifest, open(os.path.join(ROOT, 'MANIFEST.json'), 'w'), indent=1)
print('MANIFEST.json written with %d checks' % len(checks))
