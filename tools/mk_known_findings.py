#!/venv/bin/python
"""One-off helper (not run by any check): lists the violations the checks report on a copy of the
pinned tree and records them, with the commit that repaired each, as 'fixed' entries of
known_findings.json.  A fixed entry suppresses nothing."""
import json, sys, os
sys.path.insert(0, os.path.dirname(os.path.dirname(os.path.abspath(__file__))))
from sa.selftest import analyse
from sa.model import AnalysisError

PINNED = sys.argv[1] if len(sys.argv) > 1 else '/tmp/yp_pinned'
# rule prefix -> commit of the repair in /repo
COMMITS = [
    ('C17.P4', '8b2d0f8'), ('C07.K1', '1987fc8'), ('C07.D1', '1987fc8'), ('C07.D2', '1987fc8'), ('C07.D3', '1987fc8'),
    ('C07.O3', '65350a0'), ('C16.A4', '65350a0'),
    ('C09.D1', '98ce8a3'), ('C09.D2', '98ce8a3'), ('C09.S1', '98ce8a3'), ('C09.M1', '98ce8a3'),
    ('C14.', '12ebd99'), ('C15.V1', 'aaadb12'), ('C13.', 'f0404c3'),
    ('C10.', '751c792'), ('C19.B6', '751c792'),
    ('C18.N1', '055de1f'),
    ('C01.T1', '243341a'), ('C01.B1', '243341a'), ('C05.B1', '243341a'), ('C06.B1', '243341a'), ('C11.T1', '243341a'),
    ('C11.L1', 'be88ee9'), ('C11.N1', '2d47ed1'),
    ('C12.T4', 'a7302cb'), ('C12.T6', '6e10832'), ('C19.B2', '6e10832'), ('C19.B4', '05f51a1'),
]
SPECIAL = [  # (rule prefix, substring of construct, commit)
    ('C11.L2', 'generate_var', '24eed2e'), ('C12.T1', 'generate_var', '24eed2e'), ('C12.T2', 'generate_var', '24eed2e'),
    ('C11.L2', 'generate_value', 'be88ee9'), ('C12.T1', 'generate_value', 'be88ee9'),
    ('C11.L2', 'generate_function', 'c114264'), ('C12.T1', 'generate_function', 'c114264'), ('C12.T2', 'generate_function', 'c114264'),
    ('C11.L2', 'generate_break_block', 'a7302cb'), ('C12.T1', 'generate_break_block', 'a7302cb'), ('C12.T2', 'generate_break_block', 'a7302cb'),
]
out = []
for i in range(1, 21):
    prop = 'C%02d' % i
    try:
        rep = analyse(prop, PINNED)
    except AnalysisError as e:
        print('ANALYSIS-ERROR', prop, e)
        continue
    for v in rep.violations:
        commit = None
        for pre, sub, c in SPECIAL:
            if v['rule'].startswith(pre) and sub in v['construct']:
                commit = c
        if commit is None:
            for pre, c in COMMITS:
                if v['rule'].startswith(pre):
                    commit = c
        if commit is None:
            print('UNMAPPED', prop, v['rule'], v['construct'])
            continue
        what = v['detail'].split('\n')[0][:220]
        out.append(dict(property=prop, rule=v['rule'], construct=v['construct'], status='fixed', commit=commit, what=what,
                        line='fixed: property=%s %s %s' % (prop, commit, what)))
doc = dict(note='Findings of the checks on the pinned tree (commit 631028c). status "fixed": repaired in /repo by the named '
                '"fix:" commit; such an entry suppresses nothing - the check reports the violation again if it returns. '
                'status "open" (none at present): a genuine defect recorded rather than repaired; the check prints '
                'KNOWN-FINDING for it and exits 0. Keys are rule + construct, never line numbers.',
           findings=out)
json.dump(doc, open(os.path.join(os.path.dirname(os.path.dirname(os.path.abspath(__file__))), 'known_findings.json'), 'w'), indent=1)
print(len(out), 'entries')
