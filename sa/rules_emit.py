"""Rules about what text the compiler can emit: loadability (C11), injection (C12), determinism
(C18), command line and debug output (C19), literals (C16), variables (C01)."""
import ast
import os
import re

from .model import AnalysisError, own_nodes, own_nodes_ordered, is_name, is_self_attr, norm, parents
from .templates import (Node, RenderError, RenderRaises, walk_doc, Sub, MapSub, Hole, Repr, Lit, Lines, Cat, IndentDoc,
                        IntDoc, Doc)
from .flow import no_linebreak, lex_has
from . import lexclass as lx
from . import rules_compile as rc
from . import sem

NOLINE_RX = r'[^\n\r]*'
COMMENT_LINES = r'(?:#[^\n\r]*\n)*'


def coarse(lex):
    """keep only what matters for comment safety: literals containing '#' or a line break stay,
    every other leaf becomes 'no line break' / 'anything'"""
    k = lex[0]
    if k == 'lit':
        if lex[1] == '' or any(c in lex[1] for c in '#\n\r'):
            return lex
        return ('noline',)
    if k == 'cat':
        from .flow import cat
        return cat([coarse(p) for p in lex[1]])
    if k == 'joined':
        return ('joined', coarse(lex[1]), tuple(sorted({coarse(p) for p in lex[2]}, key=str)))
    if k == 'rep':
        return ('rep', coarse(lex[1]))
    if k == 'minus':
        return coarse(lex[1])
    return ('noline',) if no_linebreak(lex) else ('any', 'text')


def lex_regex(lex):
    """regex for an abstract string value of the flow analysis"""
    k = lex[0]
    if k == 'tok':
        raise KeyError(lex[1])
    return lx.regex_of(lex)


class Lex:
    """lexical classes of flow values, with token classes read from prolog.g4"""

    def __init__(self, cm):
        self.cm = cm
        self.g = cm.g

    def regex(self, lex):
        k = lex[0]
        if k == 'tok':
            return '(?:%s)' % self.g.token_regex(lex[1])
        if k == 'cat':
            return ''.join('(?:%s)' % self.regex(p) for p in lex[1])
        if k == 'minus':
            return self.regex(lex[1])
        if k == 'repr':
            return r'(?:\'(?:[^\'\\\n\r]|\\[\s\S])*\'|"(?:[^"\\\n\r]|\\[\s\S])*")'
        if k == 'noline':
            return r'[^\n\r\x0b\x0c\x1c\x1d\x1e]*'
        if k in ('objrepr', 'ambient'):
            return r'[^\n\r]*'
        if k == 'rep':
            return '(?:%s)*' % self.regex(lex[1])
        if k == 'joined':
            alts = '|'.join('(?:%s)' % self.regex(p) for p in lex[2])
            return '(?:(?:%s)(?:(?:%s)(?:%s))*)?' % (alts, self.regex(lex[1]), alts)
        return lx.regex_of(lex)

    def dfa(self, lex):
        d = lx.dfa(self.regex(lex))
        if lex[0] == 'minus':
            d = d.intersect(lx.dfa(lx.words(sorted(lex[2]))).complement())
        return d

    def describe(self, lex):
        k = lex[0]
        if k == 'tok':
            return 'the text of a %s token' % lex[1]
        if k == 'minus':
            return '%s other than %s' % (self.describe(lex[1]), '/'.join(sorted(lex[2])))
        if k == 'any':
            return 'arbitrary text (%s)' % lex[1]
        if k == 'lit':
            return repr(lex[1])
        if k == 'cat':
            return ' + '.join(self.describe(p) for p in lex[1])
        if k == 're':
            return 'text matching /%s/' % lex[1]
        if k == 'joined':
            return 'a join of %s' % ' / '.join(self.describe(p) for p in lex[2][:3])
        return k

    def from_source(self, lex):
        return lex_has(lex, ('tok', 'any', 're', 'noline'))


# ---------------------------------------------------------------------------------------------
# holes


def hole_table(cm):
    """[(method name, hole document, position kind, values)] for every raw hole of every template"""
    ts = cm.templates
    out = []
    seen = set()
    items = list(ts.methods.items())
    if ts.entry is not None:
        items.append(('generate', ts.entry))
    consts = {}
    for k, v in ts.gen_cls.module.assigns.items():
        if isinstance(v, ast.Constant) and isinstance(v.value, str):
            consts[k] = v.value
    for mname, alts in items:
        for gs, d, net in alts:
            for pos, h, ctx in _holes_with_position(d, consts):
                key = (mname, norm(h.expr), pos)
                if key in seen:
                    continue
                seen.add(key)
                out.append((mname, h, pos, ctx))
    return out


def _holes_with_position(d, consts=None):
    """yield (position kind, hole, enclosing MapSub or None); position is 'comment' when the hole
    sits on a line that starts with '#', else 'code'.  Each hole also gets ``h.token``: the parts
    (literal identifier characters, holes, counters) of the identifier-like token it belongs to."""
    consts = consts or {}
    seq = []          # flattened (kind, payload, mapsub)

    def rec(doc, ms):
        if isinstance(doc, Lit):
            seq.append(('lit', doc.t, ms))
        elif isinstance(doc, Hole) and isinstance(doc.expr, ast.Name) and doc.expr.id in consts:
            seq.append(('lit', consts[doc.expr.id], ms))
        elif isinstance(doc, (Hole, Repr)):
            seq.append(('hole', doc, ms))
        elif isinstance(doc, Cat):
            for p in doc.parts:
                rec(p, ms)
        elif isinstance(doc, Lines):
            for i, it in enumerate(doc.items):
                if i:
                    seq.append(('lit', doc.sep, ms))
                if isinstance(it, MapSub):
                    seq.append(('lit', ' ', ms))
                    rec(it.elem, it)
                    seq.append(('lit', ' ', ms))
                elif isinstance(it, Doc):
                    rec(it, ms)
        elif isinstance(doc, IndentDoc):
            seq.append(('lit', '', ms))
        elif isinstance(doc, IntDoc):
            seq.append(('int', doc, ms))
        elif isinstance(doc, Sub):
            seq.append(('lit', '(', ms))
        elif isinstance(doc, MapSub):
            rec(doc.elem, doc)
    rec(d, None)
    found = []
    line = ''
    for i, (k, p, ms) in enumerate(seq):
        if k == 'lit':
            line = p.rsplit('\n', 1)[1] if '\n' in p else line + p
            continue
        if k == 'int':
            line += '0'
            continue
        pos = 'comment' if line.lstrip().startswith('#') else 'code'
        # identifier token around the hole
        tok = [('hole', p)]
        j = i - 1
        while j >= 0:
            kk, pp, _ = seq[j]
            if kk == 'lit':
                suf = re.search(r'[A-Za-z0-9_]*$', pp).group()
                if suf:
                    tok.insert(0, ('lit', suf))
                if len(suf) != len(pp):
                    break
            elif isinstance(pp, (Hole, IntDoc)):
                tok.insert(0, (kk, pp))
            else:
                break
            j -= 1
        j = i + 1
        while j < len(seq):
            kk, pp, _ = seq[j]
            if kk == 'lit':
                pre = re.match(r'[A-Za-z0-9_]*', pp).group()
                if pre:
                    tok.append(('lit', pre))
                if len(pre) != len(pp):
                    break
            elif isinstance(pp, (Hole, IntDoc)):
                tok.append((kk, pp))
            else:
                break
            j += 1
        p.token = tok
        found.append((pos, p, ms))
        line += 'X'
    return found


def hole_values(cm, h, ms):
    """flow values of the expression pasted at hole h"""
    fl = cm.flow
    e = h.expr
    if isinstance(e, ast.Call) and is_name(e.func, 'len'):
        return {('int',)}
    if ms is not None and isinstance(e, ast.Name) and e.id == ms.var:
        return set(fl.elements(fl.ev(ms.func, ms.listexpr, {})))
    if isinstance(e, ast.Name) and e.id not in h.func.all_params:
        r = cm.repo.module_binding(h.func.module, e.id)
        if r and r[0] == 'var':
            return set(fl.ev(h.func.module, r[2], {}))
    return set(fl.ev(h.func, e, {}))


def token_dfa(cm, L, h, ms, v):
    """DFA of the identifier-like token that hole h (with value v) is part of"""
    d = None
    for kind, part in getattr(h, 'token', [('hole', h)]):
        if kind == 'lit':
            x = lx.dfa(re.escape(part))
        elif kind == 'int':
            x = lx.dfa('[0-9]+')
        elif part is h:
            x = L.dfa(v[1])
        else:
            alts = []
            for w in hole_values(cm, part, ms):
                if w[0] == 'int':
                    alts.append('[0-9]+')
                elif w[0] == 'str':
                    try:
                        alts.append(L.regex(w[1]))
                    except (ValueError, KeyError):
                        alts.append(r'[\s\S]*')
            x = lx.dfa('|'.join('(?:%s)' % a for a in alts) if alts else r'[\s\S]*')
        d = x if d is None else d.concat(x)
    return d


def rule_quote_or_class(cm, rep, rid):
    rep.rule(rid, 'every raw hole of every emitter template receives, according to the value-flow analysis, only repr() '
                  'results, compiler constants, generated names, integers, or token text whose class is included in the ASCII '
                  'identifiers minus Python\'s reserved words / in the decimal integers; arbitrary text in a hole is reported '
                  'with the flow that brings it there')
    L = Lex(cm)
    table = hole_table(cm)
    rep.minimum('raw holes in the emitter templates', len([1 for _, h, _, _ in table if isinstance(h, Hole)]), 6)
    rep.minimum('repr() holes', len([1 for _, h, _, _ in table if isinstance(h, Repr)]), 1)
    ident = lx.dfa(lx.PY_IDENT)
    kw = lx.dfa(lx.words(lx.PY_KEYWORDS))
    decint = lx.dfa(lx.PY_DEC_INT)
    nsrc = 0
    for mname, h, pos, ms in table:
        key = '%s:{%s}' % (mname, norm(h.expr))
        where = h.func.loc()
        if isinstance(h, Repr):
            rep.ok(rid, key, 'quoted with repr()', where)
            continue
        if pos == 'comment':
            continue        # C19.B2 / C12.T6
        vals = hole_values(cm, h, ms)
        if not vals:
            rep.ok(rid, key, 'no value reaches this hole', where, nontrivial=False)
            continue
        bad = []
        notes = []
        for v in sorted(vals, key=str):
            if v[0] in ('int', 'bool'):
                continue
            if v[0] == 'none':
                continue
            if v[0] == 'inst':
                rendered = cm.flow.stringify(h.func, {v: None}, 's')
                for lex in rendered:
                    w = _ident_problem(L, lex, ident, kw)
                    if w:
                        notes.append('an object of class %s is pasted through its __str__ (%s)' % (v[1].split('.')[-1], w))
                continue
            if v[0] != 'str':
                bad.append((v, 'a %s is pasted as text' % v[0]))
                continue
            lex = v[1]
            if L.from_source(lex):
                nsrc += 1
            if lex[0] in ('lit',) or (lex[0] == 'cat' and not L.from_source(lex)):
                continue        # compiler constants and generated names
            if lex[0] in ('intstr', 'repr'):
                continue        # a decimal integer / the result of repr(): complete literals wherever they are pasted
            try:
                td = token_dfa(cm, L, h, ms, v)
            except (ValueError, KeyError) as e:
                bad.append((v, 'its class cannot be determined (%s)' % e))
                continue
            if td.subset_of(decint) is None:
                continue
            w = td.subset_of(ident)
            if w is not None:
                bad.append((v, 'e.g. %r is neither the result of repr(), nor a decimal integer, nor always a Python identifier '
                               '(quoting done by hand is not accepted: it has to be right for every character)' % w))
                continue
            w = td.intersect(kw).witness()
            if w is not None:
                bad.append((v, 'e.g. %r is a reserved word of Python' % w))
        for v, w in bad:
            node = _field_node_of(cm, h, ms)
            chain = cm.flow.trace(node, v) if node is not None else []
            rep.violation(rid, '%s<-%s' % (key, _short(v)), 'source text reaches the generated Python unquoted: %s is pasted into '
                          '%s, and %s' % (L.describe(v[1]) if v[0] == 'str' else v[0], _position_text(mname, h), w), where,
                          ' -> '.join(chain[-6:]) if chain else None)
        for n in notes[:1]:
            rep.note(rid, '%s: %s - the analysis cannot tell whether this class reaches the hole' % (key, n), where)
        if not bad:
            rep.ok(rid, key, 'classes: %s' % ', '.join(sorted({_short(v) for v in vals}))[:160], where)
    rep.minimum('source-derived values reaching raw holes', nsrc, 2)


def _ident_problem(L, lex, ident, kw):
    """None if the class is within the harmless identifiers, else a description with a witness"""
    try:
        d = L.dfa(lex)
    except (ValueError, KeyError) as e:
        return 'its class cannot be determined (%s)' % e
    w = d.subset_of(ident)
    if w is not None:
        return 'e.g. %r is not a Python identifier' % w
    w = d.intersect(kw).witness()
    if w is not None:
        return 'e.g. %r is a reserved word of Python' % w
    return None


def _short(v):
    if v[0] == 'str':
        lex = v[1]
        if lex[0] == 'cat':
            return '+'.join(_short(('str', p)) for p in lex[1])
        if lex[0] == 'minus':
            return _short(('str', lex[1])) + '\\' + '|'.join(sorted(lex[2]))
        return '%s(%s)' % (lex[0], lex[1]) if len(lex) > 1 and isinstance(lex[1], str) else lex[0]
    return v[0] if v[0] != 'inst' else 'inst(%s)' % v[1].split('.')[-1]


def _position_text(mname, h):
    return 'the hole {%s} of %s' % (norm(h.expr), mname)


def _field_node_of(cm, h, ms):
    """the flow node of the field a hole reads, for the flow chain"""
    e = ms.listexpr if ms is not None and isinstance(h.expr, ast.Name) and h.expr.id == ms.var else h.expr
    if isinstance(e, ast.Attribute):
        for r in cm.flow.ev(h.func, e.value, {}):
            if r[0] == 'inst':
                return ('F', r[1], e.attr)
    return None


def reserved_names(cm, em):
    """names the emitted code relies on: keys of the engine context + names the templates bind"""
    from .rules_query import context_literal_keys
    keys = list(context_literal_keys(em))
    flags = set()
    ts = cm.templates
    for mname, alts in ts.methods.items():
        for gs, d, net in alts:
            for x in walk_doc(d):
                if isinstance(x, Lit):
                    for m in re.finditer(r'([A-Za-z_][A-Za-z0-9_]*)\s*=[^=]', x.t):
                        flags.add(m.group(1))
                    for m in re.finditer(r'for\s+([A-Za-z_][A-Za-z0-9_]*)\s+in', x.t):
                        flags.add(m.group(1))
    return keys, sorted(flags)


def rule_no_capture(cm, em, rep, rid):
    rep.rule(rid, 'the identifier classes that come from source text are disjoint from every name the emitted code relies on: '
                  'the keys of the engine context, the flags and loop variables the templates bind, and the generated name '
                  'classes (cutIfN, lN, argN, xN) - decided on DFAs, witnesses listed')
    L = Lex(cm)
    keys, flags = reserved_names(cm, em)
    gens = set()
    table = hole_table(cm)
    for mname, h, pos, ms in table:
        if isinstance(h, Hole) and pos == 'code':
            for v in hole_values(cm, h, ms):
                if v[0] == 'str' and not L.from_source(v[1]) and v[1][0] == 'cat' and v[1][1][0][0] == 'lit' and v[1][1][-1] == ('intstr',):
                    gens.add(v[1][1][0][1])
    # loop variables: 'l' + str(n)
    for mname, alts in cm.templates.methods.items():
        for gs, d, net in alts:
            parts = [x for x in walk_doc(d)]
            for i, x in enumerate(parts):
                if isinstance(x, IntDoc) and i > 0 and isinstance(parts[i - 1], Lit) and re.fullmatch(r'[A-Za-z_]+', parts[i - 1].t):
                    gens.add(parts[i - 1].t)
    reserved_rx = lx.words([k for k in keys if k != '__builtins__'] + flags)
    if gens:
        reserved_rx += '|' + '|'.join('%s-?[0-9]+' % re.escape(g) for g in sorted(gens))
    rd = lx.dfa(reserved_rx)
    rep.analysed_add('reserved names', dict(context=keys, bound_by_templates=flags, generated=sorted(gens)))
    rep.minimum('names the emitted code relies on', len(keys) + len(flags) + len(gens), 18)
    n = 0
    for mname, h, pos, ms in table:
        if not isinstance(h, Hole) or pos != 'code':
            continue
        for v in sorted(hole_values(cm, h, ms), key=str):
            if v[0] != 'str' or not L.from_source(v[1]):
                continue
            n += 1
            key = '%s:{%s}<-%s' % (mname, norm(h.expr), _short(v))
            try:
                w = token_dfa(cm, L, h, ms, v).intersect(rd).witness()
            except (ValueError, KeyError) as e:
                raise AnalysisError('lexical class of %r: %s' % (v, e))
            if w is not None:
                rep.violation(rid, key, 'a name taken from the source can capture a name the generated code relies on: %s can be '
                              '%r (a Prolog variable of that name rebinds it inside the clause)' % (L.describe(v[1]), w), h.func.loc())
            else:
                rep.ok(rid, key, 'disjoint from the %d reserved names and %d generated classes' % (len(keys) + len(flags), len(gens)), h.func.loc())
    rep.minimum('source-derived identifier holes', n, 1)


def rule_callee_whitelist(cm, em, rep, rid):
    from .rules_query import context_literal_keys
    rep.rule(rid, 'every function name the compiler puts into a call expression is a string constant and a key of the engine context')
    keys = set(context_literal_keys(em))
    vals = cm.flow.field('yp_generator.YPCodeCall', 'func')
    rep.minimum('callee names emitted', len(vals), 6)
    for v in sorted(vals, key=str):
        key = 'YPCodeCall.func<-%s' % _short(v)
        if v[0] == 'str' and v[1][0] == 'lit':
            if v[1][1] in keys:
                rep.ok(rid, key, 'engine API function', None)
            else:
                rep.violation(rid, key, 'generated code calls %r, which the engine context does not provide' % v[1][1], cm.comp.loc())
        else:
            rep.violation(rid, key, 'the callee of a generated call is not a compiler constant (%s)' % (v,), cm.comp.loc())


def rule_markers_not_forgeable(cm, rep, rid):
    rep.rule(rid, 'values that steer code generation by name (the if-then-else commit marker) cannot be produced from source '
                  'text: the marker is a distinct node class, or the class of names the visitor can build excludes it')
    cb = cm.comp.methods['compile_body']
    try:
        rules, falls, markers = rc.translate_rules(cm)
    except AnalysisError as e:
        # fall back to the syntax: comparisons of a name-like attribute with a string constant inside compile_body
        rules, markers = [], cm.marker_classes()
        named_syn = [(norm(x.left), x.comparators[0].value) for x in own_nodes(cb.node) if isinstance(x, ast.Compare) and len(x.ops) == 1
                     and isinstance(x.ops[0], ast.Eq) and isinstance(x.comparators[0], ast.Constant) and isinstance(x.comparators[0].value, str)
                     and ('name' in norm(x.left) or norm(x.left).endswith('.value'))]
        rules = [dict(state=type('S', (), {'eqs': [(k, '==', v) for k, v in named_syn]})())]
    named = set()
    for r in rules:
        for k, op, v in r['state'].eqs:
            if op == '==' and isinstance(v, str) and (k.endswith('.value') or k.endswith('.name') or 'name' in k):
                named.add((k, v))
    if not named:
        rep.ok(rid, 'compile_body:marker', 'no case of compile_body is selected by a name (%d marker class(es): %s)' % (
            len(markers), ', '.join(markers) or '-'), cb.loc())
        return
    L = Lex(cm)
    atom_vals = cm.flow.field('yp_prolog_visitor.Atom', 'value')
    for k, name in sorted(named):
        forge = None
        for v in atom_vals:
            if v[0] != 'str':
                continue
            lex = v[1]
            if lex[0] in ('lit', 'cat') and not L.from_source(lex):
                continue
            try:
                if L.dfa(lex).accepts(name):
                    forge = v
            except (ValueError, KeyError):
                forge = v
        key = 'compile_body:%s==%r' % (k.split('.', 1)[-1], name)
        if forge is not None:
            rep.violation(rid, key, 'compile_body recognises its internal marker by the predicate name %r, and source text can '
                          'produce that name (%s): the argument of a goal %s(...) written in a program is pasted into the '
                          'generated code as a statement' % (name, L.describe(forge[1]), name), cb.loc())
        else:
            rep.ok(rid, key, 'the name cannot come from source text', cb.loc())


# ---------------------------------------------------------------------------------------------
# C11


def rule_emitted_text_parses(cm, rep, rid, depth=3):
    rep.rule(rid, 'for every code tree the compiler can build (mini-language trees to depth %d, with empty bodies where the '
                  'flow analysis says a list may be empty) the templates yield text that ast.parse accepts, whose module '
                  'level holds exactly one def per function node named name_<n>, each def being a generator' % depth)
    ts = cm.renderer
    if cm.renderer_note:
        rep.note(rid, cm.renderer_note)
    for p in ts.problems:
        rep.violation(rid, 'template:%s:%s' % (p.func.name, p.kind), 'emitter: %s' % p.text, p.func.loc(p.node) if p.node is not None else p.func.loc())
    where = cm.comp.module.relpath
    fl = cm.flow
    body_sites = [v for v in fl.field('yp_generator.YPCodeFunction', 'body')]
    may_empty = any(v[0] == 'list' and v[1] not in fl.nonempty_sites for v in body_sites) or not body_sites
    n = 0
    problems = {}
    trees = list(rc.mini_trees(depth, 1)) + [c for c in rc.mini_trees(max(1, depth - 1), 2) if len(c) > 1]
    for code in trees:
        if not code and not may_empty:
            continue
        n += 1
        decl = [Node('YPCodeAssign', lhs=Node('YPCodeVar', name='X'), rhs=Node('YPCodeCall', func='variable', args=[]))]
        for pre in ([], decl):
            if not code and pre:
                continue
            fns = [Node('YPCodeFunction', name='p', args=['arg1', 'arg2'], body=pre + rc.to_nodes(code)),
                   Node('YPCodeFunction', name='q', args=[], body=rc.to_nodes(code))]
            prog = Node('YPCodeProgram', functions=fns)
            try:
                text = ts.render_program(prog, {'debug_filename': '', 'current_source_file': 'f.pl'})
            except RenderRaises:
                continue
            except RenderError as e:
                problems.setdefault('render:' + str(e)[:60], (code, str(e), None))
                continue
            try:
                mod = ast.parse(text)
                # the checks Python makes after parsing (break outside a loop, return outside a function, nesting depth):
                # the text is only compiled, never executed
                compile(text, '<emitted text>', 'exec', dont_inherit=True)
            except SyntaxError as e:
                problems.setdefault('syntax:%s' % e.msg, (code, '%s at line %s' % (e.msg, e.lineno), text))
                continue
            names = [x.name for x in mod.body if isinstance(x, ast.FunctionDef)]
            if len(mod.body) != len(names):
                problems.setdefault('module-level', (code, 'something other than function definitions at module level', text))
            if names != ['p_2', 'q_0']:
                problems.setdefault('def-names', (code, 'definitions %s instead of p_2, q_0' % names, text))
            for fd in [x for x in mod.body if isinstance(x, ast.FunctionDef)]:
                if not any(isinstance(y, (ast.Yield, ast.YieldFrom)) for y in _own_walk(fd)):
                    problems.setdefault('not-a-generator', (code, 'function %s contains no yield: calling the predicate returns None' % fd.name, text))
    for k, (code, msg, text) in problems.items():
        rep.violation(rid, k, 'for the code tree [%s] the emitter output is not loadable: %s%s' % (sem.show_code(code), msg,
                      ('\n' + text) if text and len(text) < 600 else ''), where)
    if not problems:
        rep.ok(rid, 'emitted-text', '%d code trees (x with/without declarations) parse, one generator def per predicate' % n, where)
    rep.extra['parse_trees'] = n
    rep.minimum('code trees rendered', n, 100)


def _own_walk(fd):
    stack = list(fd.body)
    while stack:
        x = stack.pop()
        yield x
        for c in ast.iter_child_nodes(x):
            if not isinstance(c, (ast.FunctionDef, ast.Lambda, ast.ClassDef)):
                stack.append(c)


def rule_numerals(cm, rep, rid):
    rep.rule(rid, 'the class of text pasted as a number is included in Python\'s decimal integer literals (0+ | [1-9][0-9]*)')
    L = Lex(cm)
    vals = cm.flow.field('yp_generator.YPCodeValue', 'val')
    table = [(m, h, pos, ms) for m, h, pos, ms in hole_table(cm) if m == 'generate_value']
    rep.minimum('numeral templates', len(table), 1)
    decint = lx.dfa(lx.PY_DEC_INT)
    for m, h, pos, ms in table:
        key = '%s:{%s}' % (m, norm(h.expr))
        if isinstance(h, Repr):
            hv = hole_values(cm, h, ms)
            if all(v[0] == 'int' for v in hv):
                rep.ok(rid, key, 'repr of an int', h.func.loc())
            else:
                rep.violation(rid, key, 'a number is emitted as repr() of %s' % sorted(map(_short, hv)), h.func.loc())
            continue
        for v in sorted(hole_values(cm, h, ms), key=str):
            k2 = '%s<-%s' % (key, _short(v))
            if v[0] == 'int' or (v[0] == 'str' and v[1][0] == 'intstr'):
                rep.ok(rid, k2, 'normalised integer', h.func.loc())
                continue
            if v[0] != 'str':
                rep.violation(rid, k2, 'a %s is pasted as a number' % v[0], h.func.loc())
                continue
            w = L.dfa(v[1]).subset_of(decint)
            if w is None:
                rep.ok(rid, k2, 'within the decimal integer literals', h.func.loc())
            else:
                rep.violation(rid, k2, 'numerals are pasted verbatim: %s includes %r, which Python rejects (leading zeros): '
                              'the compiled program does not load' % (L.describe(v[1]), w), h.func.loc())


def rule_goal_iterators_unnamed(cm, rep, rid):
    rep.rule(rid, 'in emitted code the iterator of a goal loop exists only as the operand of its ``for`` statement: no name, '
                  'attribute or container refers to it, so that leaving the loop by break / return / an exception drops it and '
                  'CPython finalises it at once (its bindings are undone there) - sample code trees are rendered from the templates '
                  'and every loop and every use of a goal call is inspected')
    ts = cm.renderer
    where = ts.gen_cls.loc()
    samples = [
        [('Foreach', 'p', [('Yield',)])],
        [('Foreach', 'p', [('Foreach', 'q', [('Yield',)])])],
        [('Block', 'cutIf1', [('Foreach', 'p', [('Foreach', 'q', [('BreakBlock', 'cutIf1'), ('Yield',)])]), ('Foreach', 'r', [('Yield',)])])],
        [('Foreach', 'a', [('Block', 'cutIf1', [('Foreach', 'p', [('Foreach', 'q', [('BreakBlock', 'cutIf1'), ('Yield',)])]), ('Yield',)]),
                           ('Foreach', 'b', [('Yield',)])])],
        [('Foreach', 'p', [('YieldTrue',), ('YieldBreak',)])],
    ]
    n = 0
    for code in samples:
        fn = Node('YPCodeFunction', name='t', args=[], body=rc.to_nodes(code))
        try:
            text = ts.render_node(fn)
            tree = ast.parse(text)
        except RenderError as e:
            raise AnalysisError('sample code tree does not render: %s' % e)
        except SyntaxError as e:
            raise AnalysisError('sample code tree renders to text that does not parse: %s' % e.msg)
        for x in ast.walk(tree):
            if isinstance(x, ast.For):
                n += 1
                key = 'loop:%s' % norm(x.iter)[:40]
                if isinstance(x.iter, (ast.Call, ast.List, ast.Tuple)):
                    rep.ok(rid, key, 'iterates the goal expression directly', where)
                else:
                    rep.violation(rid, key, 'the emitted loop iterates %s, not the goal call itself: the iterator stays referenced after '
                                  'the loop is left by break/return, so the bindings of an abandoned goal survive until the name is '
                                  'rebound or the clause function ends' % norm(x.iter)[:30], where)
            if isinstance(x, ast.Call) and is_name(x.func) and x.func.id in ('query', 'match_dynamic', 'unify'):
                par = None
                for p_ in ast.walk(tree):
                    if any(c is x for c in ast.iter_child_nodes(p_)):
                        par = p_
                if not (isinstance(par, ast.For) and par.iter is x):
                    rep.violation(rid, 'goal-call:%s' % norm(par)[:40], 'a goal iterator is created outside the ``for`` statement that '
                                  'consumes it (%s): something else than the loop refers to it' % norm(par)[:40], where)
    rep.minimum('emitted goal loops inspected', n, 8)


def rule_nesting_bound(cm, rep, rid, limit=20):
    rep.rule(rid, 'clauses of any length either compile to text whose static block nesting stays within CPython\'s limit '
                  '(%d nested loop blocks) or are rejected by the emitter: chains of nested loops of depth 1..40 are rendered from '
                  'the templates' % limit)
    ts = cm.renderer
    where = ts.gen_cls.loc()
    worst = None
    raised_at = None
    for d in range(1, 41):
        code = [('Yield',)]
        for i in range(d):
            code = [('Foreach', 'p', code)] if i % 3 else [('Block', 'cutIf1', [('Foreach', 'p', code)])] if i % 3 == 0 and i else [('Foreach', 'p', code)]
        fn = Node('YPCodeFunction', name='p', args=[], body=rc.to_nodes(code))
        try:
            text = ts.render_node(fn)
        except RenderRaises:
            raised_at = d
            break
        except RenderError as e:
            raise AnalysisError('nesting chain does not render: %s' % e)
        try:
            tree = ast.parse(text)
        except SyntaxError as e:
            rep.violation(rid, 'nesting:%d' % d, 'a clause with %d nested goals compiles to text Python cannot parse (%s)' % (d, e.msg), where)
            return
        depth = _loop_depth(tree)
        if depth > limit:
            worst = (d, depth)
            break
    if worst:
        rep.violation(rid, 'nesting', 'one nested Python block per goal and no bound: a clause with %d goals compiles to %d statically '
                      'nested loop blocks, which CPython refuses to load ("too many statically nested blocks"); the compiler '
                      'neither avoids this nor reports that the clause is too large' % worst, where)
    else:
        rep.ok(rid, 'nesting', 'the emitter refuses clauses beyond depth %s; everything it accepts nests at most %d loop blocks' % (raised_at, limit), where)


def _loop_depth(tree):
    def rec(n, d):
        best = d
        for c in ast.iter_child_nodes(n):
            dd = d + 1 if isinstance(c, (ast.For, ast.While, ast.Try, ast.With)) else d
            best = max(best, rec(c, dd))
        return best
    return rec(tree, 0)


def rule_program_keys(cm, rep, rid):
    rep.rule(rid, 'the visitor groups clauses under (head name, head arity) and nothing else; compile_program emits one '
                  'function per key, named by the key\'s name with one argN parameter per position')
    fl = cm.flow
    vis = cm.repo.cls('yp_prolog_visitor', 'YPPrologVisitor')
    vp = vis.methods.get('visitProgram')
    if vp is None:
        raise AnalysisError('anchor vanished: visitProgram')
    rvals = fl.pts.get(('R', vp.qname), {})
    dicts = [v for v in rvals if v[0] == 'dict']
    if not dicts:
        raise AnalysisError('visitProgram does not return a dictionary (flow)')
    ok = True
    for d in dicts:
        keys = fl.pts.get(('K', d[1]), {})
        for k in keys:
            if k[0] != 'tuple':
                rep.violation(rid, 'visitProgram:key', 'program key is not a (name, arity) tuple: %s' % (k,), vp.loc())
                ok = False
                continue
            t0 = set(fl.pts.get(('T', k[1], 0), {}))
            t1 = set(fl.pts.get(('T', k[1], 1), {}))
            if not t0 or not all(v[0] == 'str' for v in t0) or t1 != {('int',)}:
                rep.violation(rid, 'visitProgram:key', 'program key components are %s / %s, expected (name string, integer arity)' % (
                    sorted(map(_short, t0)), sorted(map(_short, t1))), vp.loc())
                ok = False
        vals = fl.pts.get(('V', d[1]), {})
    # the key expression mentions head name and len of head args
    src = norm(vp.node)
    if ok and 'head' in src and 'len(' in src:
        rep.ok(rid, 'visitProgram:key', 'clauses grouped under (head name, number of head arguments)', vp.loc())
    from .rules_clause import rule_program_structure
    rule_program_structure(cm, rep, rid + 'p')


# ---------------------------------------------------------------------------------------------
# C18


def rule_no_hash_order(cm, rep, rid):
    rep.rule(rid, 'no value of set type is iterated, turned into a list/tuple, joined, unpacked or popped on the way to the '
                  'returned text (sorted(set) and order-preserving de-duplication are fine)')
    uses = cm.flow.set_order_uses
    n_sets = len([1 for node in cm.flow.pts for v in cm.flow.pts[node] if v[0] == 'set'])
    for (fq, line, what), (f, node, w, v) in sorted(uses.items(), key=lambda kv: kv[0]):
        rep.violation(rid, '%s:%s' % (fq, norm(node)), 'a set is %s: its order depends on the string hash seed, so the same source '
                      'compiles to different text in different processes' % what, cm.flow.loc(f, node))
    if not uses:
        rep.ok(rid, 'sets', 'no order-sensitive use of a set (%d set-valued variables)' % n_sets, None, nontrivial=n_sets > 0)
    # syntactic backstop: set(...) / {..} literals anywhere in the compile pipeline
    cnt = 0
    for f in cm.repo.all_functions(('yp_generator', 'yp_prolog_visitor', 'compiler')):
        for x in own_nodes(f.node):
            if (isinstance(x, ast.Call) and is_name(x.func) and x.func.id in ('set', 'frozenset')) or isinstance(x, (ast.Set, ast.SetComp)):
                cnt += 1
                p = getattr(x, '_parent', None)
                if isinstance(p, ast.Call) and is_name(p.func) and p.func.id in ('list', 'tuple') and \
                        not any(k[0] == f.qname for k in uses):
                    rep.violation(rid, '%s:%s' % (f.qname, norm(p)), 'list(set(...)): hash-dependent order', f.loc(p))
    rep.extra['set_constructions'] = cnt


def rule_no_ambient_input(cm, rep, rid):
    rep.rule(rid, 'no value that depends on object identity, hashing, time, environment or randomness flows into the text '
                  'the compile function returns')
    entry = rf_pipeline(cm)
    vals = cm.flow.pts.get(('R', entry.qname), {})
    rep.minimum('values of the returned text', len(vals), 1)
    bad = [v for v in vals if v[0] == 'str' and lex_has(v[1], ('ambient', 'objrepr'))]
    amb = []
    for f in cm.repo.all_functions(('yp_generator', 'yp_prolog_visitor', 'compiler')):
        if f.name in ('_debug',) or f.name == '__getattribute__':
            continue
        for x in own_nodes_ordered(f.node):
            if isinstance(x, ast.Call):
                t = norm(x.func)
                if t in ('id', 'hash', 'time.time', 'random.random', 'os.getpid', 'uuid.uuid4', 'time.monotonic', 'random.randint',
                         'datetime.now', 'datetime.datetime.now', 'os.urandom', 'random.choice', 'random.shuffle') or t.startswith('os.environ'):
                    amb.append((f, x))
            if isinstance(x, ast.Attribute) and norm(x) == 'os.environ':
                amb.append((f, x))
    # where the process runs (working directory, user, host, clock as text): in the code generator / visitor and in the
    # helpers of other modules they call - not in the command line, which may resolve the paths it opens
    place = ('os.getcwd', 'os.getcwdb', 'os.path.relpath', 'os.path.abspath', 'os.path.realpath', 'os.path.expanduser',
             'os.path.expandvars', 'Path.cwd', 'Path.home', 'pathlib.Path.cwd', 'pathlib.Path.home', 'os.getlogin', 'getpass.getuser',
             'socket.gethostname', 'platform.node', 'platform.platform', 'time.strftime', 'time.ctime', 'time.asctime',
             'datetime.today', 'date.today', 'datetime.date.today', 'datetime.datetime.today', 'datetime.utcnow', 'datetime.datetime.utcnow')
    from .callgraph import CallGraph
    cg_ = CallGraph(cm.repo)
    side = list(cm.repo.all_functions(('yp_generator', 'yp_prolog_visitor')))
    helpers = [g for g in cg_.reachable([f for f in side if f.name != '_debug' and f.name != '__getattribute__'], with_refs=False)
               if g.module.name not in ('yp_generator', 'yp_prolog_visitor', 'compiler') and g.cls is None]
    for f in [f for f in side if f.name not in ('_debug', '__getattribute__')] + helpers:
        for x in own_nodes_ordered(f.node):
            if isinstance(x, ast.Call) and (norm(x.func) in place or (norm(x.func) in ('relpath', 'abspath', 'realpath', 'getcwd', 'expanduser')
                                                                        and isinstance(x.func, ast.Name))):
                amb.append((f, x))
    for v in bad:
        rep.violation(rid, 'returned-text<-%s' % _short(v), 'the returned text contains a value that differs between runs (%s)' % (v[1],), entry.loc())
    for f, x in amb:
        rep.violation(rid, '%s:%s' % (f.qname, norm(x)), 'the compile pipeline reads ambient state (%s): the output is not a function '
                      'of the source text alone' % norm(x), f.loc(x))
    if not bad and not amb:
        rep.ok(rid, 'returned-text', 'no identity/time/environment-dependent value reaches the returned text', entry.loc())


def rf_pipeline(cm, view=False):
    """the compile pipeline function; view=True: its helper-inlined view (for rules about the steps inside it)"""
    from .rules_front import pipeline_function
    from .eng import EngineModel
    em = getattr(cm, '_em_for_pipeline', None) or EngineModel(cm.repo)
    cm._em_for_pipeline = em
    v = pipeline_function(em)[0]
    return v if view else v.origin


def rule_fresh_pipeline(cm, rep, rid):
    rep.rule(rid, 'lexer, token stream, parser, visitor, compiler and emitter objects are constructed inside the per-call '
                  'entry function and do not escape it; every counter they use is an instance field initialised in a constructor')
    f = rf_pipeline(cm, view=True)
    ctor_locals = {}
    for s in own_nodes_ordered(f.node):
        if isinstance(s, ast.Assign) and isinstance(s.value, ast.Call) and isinstance(s.value.func, ast.Name) and \
                s.value.func.id[:1].isupper() or (isinstance(s, ast.Assign) and isinstance(s.value, ast.Call) and isinstance(s.value.func, ast.Name)
                                                  and s.value.func.id.startswith('prolog')):
            if isinstance(s.targets[0], ast.Name):
                ctor_locals[s.targets[0].id] = s
    n_ctor = len([x for x in own_nodes(f.node) if isinstance(x, ast.Call) and isinstance(x.func, ast.Name) and
                  (x.func.id[:1].isupper() or x.func.id.startswith('prolog'))])
    rep.minimum('pipeline objects constructed per call', n_ctor, 5)
    for name, s in sorted(ctor_locals.items()):
        esc = None
        for x in own_nodes_ordered(f.node):
            if isinstance(x, ast.Return) and x.value is not None:
                for y in ast.walk(x.value):
                    if is_name(y, name):
                        pa = getattr(y, '_parent', None)
                        gp = getattr(pa, '_parent', None)
                        if isinstance(pa, ast.Attribute) and pa.value is y and isinstance(gp, ast.Call) and gp.func is pa:
                            continue        # the receiver of a method call: its result is returned, not the object
                        esc = x
            if isinstance(x, ast.Assign) and is_name(x.value, name) and any(isinstance(t, (ast.Attribute, ast.Subscript)) for t in x.targets):
                esc = x
            if isinstance(x, ast.Global) and name in x.names:
                esc = x
        key = '%s:%s' % (f.qname, name)
        if esc is not None:
            rep.violation(rid, key, 'the per-compilation object %s escapes the call (%s): a later compilation can observe its state' % (name, norm(esc)), f.loc(esc))
        else:
            rep.ok(rid, key, 'constructed per call (%s), does not escape' % norm(s.value)[:50], f.loc(s))
    # module-level instances of pipeline classes
    for m in ('compiler', 'yp_generator', 'yp_prolog_visitor'):
        mod = cm.repo.module(m)
        for k, v in mod.assigns.items():
            if isinstance(v, ast.Call) and isinstance(v.func, ast.Name) and (v.func.id.startswith('YP') or v.func.id.startswith('prolog')):
                rep.violation(rid, '%s.%s' % (m, k), 'a pipeline object is created once at import time and shared by all compilations', mod.loc(v))
    # counters
    n = 0
    for c in cm.repo.all_classes(('yp_generator', 'yp_prolog_visitor')):
        init = cm.repo.lookup_method(c, '__init__')
        inits = {t.attr for s in (own_nodes(init.node) if init else []) if isinstance(s, ast.Assign) for t in s.targets if is_self_attr(t)}
        for m in c.methods.values():
            for x in own_nodes(m.node):
                if isinstance(x, ast.AugAssign) and is_self_attr(x.target):
                    n += 1
                    key = '%s.%s' % (c.qname, x.target.attr)
                    if x.target.attr in inits:
                        rep.ok(rid, key, 'counter initialised in the constructor', m.loc(x))
                    else:
                        rep.violation(rid, key, 'counter %s is not initialised per instance (it lives on the class)' % x.target.attr, m.loc(x))
                if isinstance(x, ast.AugAssign) and isinstance(x.target, ast.Attribute) and isinstance(x.target.value, ast.Name) and \
                        x.target.value.id not in ('self',) and x.target.value.id[:1].isupper():
                    rep.violation(rid, '%s:%s' % (m.qname, norm(x)), 'a counter is kept on the class: numbering continues across compilations', m.loc(x))
    rep.minimum('per-compilation counters', n, 3)


# ---------------------------------------------------------------------------------------------
# C19


def rule_same_path(cm, em, rep, rid):
    rep.rule(rid, 'main(), compile_prolog_from_string and compile_prolog_from_file all produce code through the one pipeline '
                  'function (call graph inside the compiler module; nothing on the way builds a visitor, compiler or emitter of '
                  'its own); main() writes exactly that call\'s result, per source, inside the loop over the sources in order')
    from .rules_front import pipeline_function
    pview = pipeline_function(em)[0]
    pipe = pview.origin
    comp = cm.repo.module('compiler')
    stage = ('YPPythonCodeGenerator', 'YPPrologCompiler', 'YPPrologVisitor')

    def reach_avoiding(f, avoid):
        out, stack = [], [f]
        while stack:
            g = stack.pop()
            if g in out or g is avoid:
                continue
            out.append(g)
            for n, cs in em.cg.calls.get(g, ()):
                stack.extend(c for c in cs if c.module is comp and c.cls is None)
        return out
    for name in ('main', 'compile_prolog_from_string', 'compile_prolog_from_file'):
        f = comp.functions.get(name)
        if f is None:
            raise AnalysisError('anchor vanished: compiler.%s' % name)
        before = reach_avoiding(f, pipe)            # what runs outside the pipeline call
        reaches = any(pipe in cs for g in before for _, cs in em.cg.calls.get(g, ())) or f is pipe
        other = [(g, c) for g in before for c, cs in em.cg.calls.get(g, ()) for x in cs if x.cls is not None and x.cls.name in stage]
        key = 'compiler.%s' % name
        if reaches and not other:
            rep.ok(rid, key, 'reaches the emitter only through %s' % pipe.name, f.loc())
        else:
            rep.violation(rid, key, '%s does not compile through the shared pipeline function %s (%s, %d use(s) of visitor/compiler/emitter '
                          'classes outside it): command line and library can differ' % (name, pipe.name, 'reached' if reaches else 'not reached', len(other)), f.loc())
    main0 = comp.functions['main']
    main = em.view(main0, keep=(pipe,))      # helpers of main pasted in, the pipeline call kept as a call
    loops = [s for s in own_nodes_ordered(main.node) if isinstance(s, ast.For) and is_name(s.iter, 'source')]
    key = 'compiler.main:write'
    if not loops:
        rep.violation(rid, key, 'main() does not loop over its sources in the order given', main0.loc())
        return
    loop = loops[0]

    def is_pipe_call(c):
        return isinstance(c, ast.Call) and isinstance(c.func, ast.Name) and c.func.id == pipe.name
    call = [c for c in ast.walk(loop) if is_pipe_call(c)]
    if not call:
        # the pipeline is reached through a wrapper that could not be pasted in (e.g. one with several returns): accept the
        # outermost module-level call inside the loop that reaches it
        for c in ast.walk(loop):
            if isinstance(c, ast.Call) and isinstance(c.func, ast.Name) and c.func.id in comp.functions and \
                    pipe in reach_avoiding(comp.functions[c.func.id], None):
                call.append(c)
    writes = [c for c in ast.walk(loop) if isinstance(c, ast.Call) and isinstance(c.func, ast.Attribute) and c.func.attr == 'write']
    if len(call) == 1 and len(writes) == 1:
        p = getattr(call[0], '_parent', None)
        var = p.targets[0].id if isinstance(p, ast.Assign) and isinstance(p.targets[0], ast.Name) else None
        arg = writes[0].args[0] if writes[0].args else None
        names = {var}
        # plain copies of the result (a helper pasted in hands it over through locals)
        changed = True
        while changed and var:
            changed = False
            for s_ in ast.walk(loop):
                if isinstance(s_, ast.Assign) and isinstance(s_.value, ast.Name) and s_.value.id in names and len(s_.targets) == 1 and \
                        isinstance(s_.targets[0], ast.Name) and s_.targets[0].id not in names:
                    names.add(s_.targets[0].id)
                    changed = True
        if (var and isinstance(arg, ast.Name) and arg.id in names) or arg is call[0]:
            reassigned = [s_ for s_ in ast.walk(loop) if isinstance(s_, ast.Assign) and any(isinstance(t, ast.Name) and t.id in names for t in s_.targets)
                          and s_.value is not call[0] and not (isinstance(s_.value, ast.Name) and s_.value.id in names)]
            if not reassigned:
                rep.ok(rid, key, 'writes the unmodified result of the pipeline call, once per source', main0.loc())
                return
    rep.violation(rid, key, 'what the command line writes is not exactly the result of the pipeline call for each source '
                  '(%d pipeline call(s), %d write(s) in the loop over the sources)' % (len(call), len(writes)), main0.loc())


def rule_comment_safe_writes(cm, rep, rid):
    rep.rule(rid, 'every write to the output stream other than the compiled code is a sequence of comment lines: its lexical '
                  'class (value-flow analysis) is included in (#[^\\n\\r]*\\n)*; the header comment embeds the file name only in a '
                  'form without line breaks')
    L = Lex(cm)
    target = lx.dfa(COMMENT_LINES)
    n = 0
    pipe = rf_pipeline(cm)

    def writes_compiled_code(f, call):
        a = call.args[0] if call.args else None
        if isinstance(a, ast.Call) and is_name(a.func, pipe.name):
            return True
        if isinstance(a, ast.Name):
            for s_ in own_nodes(f.node):
                if isinstance(s_, ast.Assign) and any(is_name(t, a.id) for t in s_.targets) and isinstance(s_.value, ast.Call) \
                        and is_name(s_.value.func, pipe.name):
                    return True
        return False
    for f, call in cm.flow.stream_writes:
        if writes_compiled_code(f, call):
            continue        # the compiled code itself (C19.B1)
        n += 1
        key = '%s:%s' % (f.qname, norm(call)[:60])
        vals = cm.flow.ev(f, call.args[0], {}) if call.args else {}
        bad = None
        for v in vals:
            if v[0] != 'str':
                continue
            try:
                w = L.dfa(coarse(v[1])).subset_of(target)
            except (ValueError, KeyError) as e:
                raise AnalysisError('lexical class of a debug write: %s' % e)
            if w is not None:
                bad = (v, w)
        if bad:
            rep.violation(rid, key, 'debug output is written as "# " + message, and the message can contain a line break (%s): '
                          'with the debug option on, e.g. %r ends up outside the comment - the output no longer parses, and source '
                          'text becomes code' % (L.describe(bad[0][1])[:80], bad[1]), f.loc(call))
        else:
            rep.ok(rid, key, 'only whole comment lines are written', f.loc(call))
    rep.minimum('debug writers', n, 1)
    # header
    for mname, h, pos, ms in hole_table(cm):
        if pos != 'comment' or not isinstance(h, Hole):
            continue
        key = '%s:{%s}' % (mname, norm(h.expr))
        vals = hole_values(cm, h, ms)
        bad = None
        for v in vals:
            if v[0] == 'str':
                try:
                    w = L.dfa(coarse(v[1])).intersect(lx.dfa(r'[\s\S]*[\n\r][\s\S]*')).witness()
                except (ValueError, KeyError):
                    w = '\n'
                if w is not None:
                    bad = (v, w)
            elif v[0] in ('ext',):
                bad = (('str', ('any', v[1])), '\n')
        if bad:
            rep.violation(rid, key, 'the header comment embeds %s as is: a line break in it puts the rest of the name outside the '
                          'comment' % L.describe(bad[0][1])[:80], h.func.loc())
        else:
            rep.ok(rid, key, 'comment hole without line breaks', h.func.loc())


def _returns_only_comment_text(cm, f):
    """every value the function can return (value flow) is text made of comment lines and blank lines"""
    vals = cm.flow.pts.get(('R', f.qname), {})
    if not vals:
        return False
    L = Lex(cm)
    target = lx.dfa(r'(?:(?:#[^\n\r]*)?\n)*')
    for v in vals:
        if v[0] != 'str':
            return False
        try:
            if L.dfa(coarse(v[1])).subset_of(target) is not None:
                return False
        except (ValueError, KeyError, RecursionError):
            return False
    return True


def rule_flags_only_comments(cm, rep, rid):
    rep.rule(rid, 'statements that depend on a debug flag only call a debug writer, and the alternatives of the header template '
                  'differ only in comment and blank lines')
    n = 0
    writer_cache = {}

    def callee_of(f, call):
        fn = call.func
        if isinstance(fn, ast.Name):
            r = cm.repo.resolve_name(f, fn.id)
            return r[1] if r and r[0] in ('func', 'nested') else None
        if is_self_attr(fn) and f.cls is not None:
            return cm.repo.lookup_method(f.cls, fn.attr)
        return None

    def is_debug_writer(g):
        """a function that only writes debug output: no value returned, every statement debug-only"""
        if g.qname in writer_cache:
            return writer_cache[g.qname]
        writer_cache[g.qname] = False
        ok = not g.is_generator and all(not (isinstance(x, ast.Return) and x.value is not None and not (isinstance(x.value, ast.Constant) and x.value.value is None))
                                        for x in own_nodes(g.node)) and debug_only(g.node.body, g, set()) is None
        writer_cache[g.qname] = ok
        return ok

    def debug_only(stmts, f, region_ids):
        """-> the first statement that is not debug-only, or None; locals assigned here must not be used outside"""
        for b in stmts:
            if isinstance(b, ast.Expr) and isinstance(b.value, ast.Constant):
                continue
            if isinstance(b, ast.Expr) and isinstance(b.value, ast.Call):
                t = norm(b.value.func)
                if t.endswith('_debug') or t.endswith('.write'):
                    continue
                c = callee_of(f, b.value)
                if c is not None and c is not f and is_debug_writer(c):
                    continue
                return b
            if isinstance(b, (ast.Pass,)):
                continue
            if isinstance(b, ast.Return) and (b.value is None or (isinstance(b.value, ast.Constant) and b.value.value is None)):
                continue
            if isinstance(b, (ast.Assign, ast.AugAssign)):
                tg = b.targets if isinstance(b, ast.Assign) else [b.target]
                if all(isinstance(t, ast.Name) for t in tg):
                    continue            # checked below: the local is only used inside the region
                return b
            if isinstance(b, ast.If):
                r = debug_only(b.body, f, region_ids) or debug_only(b.orelse, f, region_ids)
                if r is not None:
                    return r
                continue
            if isinstance(b, ast.For) and isinstance(b.target, ast.Name):
                r = debug_only(b.body, f, region_ids)
                if r is not None:
                    return r
                continue
            return b
        return None

    def region_locals_escape(f, region):
        names = {t.id for b in region for x in ast.walk(b) if isinstance(x, (ast.Assign, ast.AugAssign, ast.For))
                 for t in ast.walk(x.targets[0] if isinstance(x, ast.Assign) else x.target) if isinstance(t, ast.Name)}
        inside = {id(x) for b in region for x in ast.walk(b)}
        for x in own_nodes(f.node):
            if isinstance(x, ast.Name) and x.id in names and id(x) not in inside:
                return x
        return None
    for f in cm.repo.all_functions(('yp_generator', 'yp_prolog_visitor', 'compiler')):
        if f.name in ('_set_debug_options', 'main'):
            continue
        for s in own_nodes_ordered(f.node):
            if isinstance(s, ast.If) and re.search(r'debug_\w+', norm(s.test)):
                n += 1
                key = '%s:if %s' % (f.qname, norm(s.test))
                if f.name == 'generate' and f.cls is not None and f.cls.name.endswith('CodeGenerator') and 'debug_filename' in norm(s.test):
                    rep.ok(rid, key, 'header alternatives of the emitter entry (the two outputs are compared below)', f.loc(s))
                    continue
                parent_body = getattr(getattr(s, '_parent', None), 'body', [])
                guard = (len(s.body) == 1 and isinstance(s.body[0], ast.Return) and not s.orelse and s in f.node.body and
                         (s.body[0].value is None or (isinstance(s.body[0].value, ast.Constant) and s.body[0].value.value is None)))
                comment_text = _returns_only_comment_text(cm, f)
                if comment_text and all(isinstance(b, (ast.Return, ast.Assign)) for b in s.body + s.orelse):
                    # a function whose every result is comment/blank lines: the flag chooses between comments
                    rep.ok(rid, key, 'the function returns comment or blank lines only, whatever the flag', f.loc(s))
                    continue
                if guard:
                    # "if not flag: return" - everything after it in the function depends on the flag
                    region = f.node.body[f.node.body.index(s) + 1:]
                    value_returns = [x for x in own_nodes(f.node) if isinstance(x, ast.Return) and x.value is not None and
                                     not (isinstance(x.value, ast.Constant) and x.value.value is None)]
                    bad = debug_only(region, f, set()) or (value_returns[0] if value_returns else None)
                else:
                    region = s.body + s.orelse
                    bad = debug_only(region, f, set())
                    if bad is None:
                        rets = [x for b in region for x in ast.walk(b) if isinstance(x, ast.Return)]
                        bad = rets[0] if rets else None
                if bad is None:
                    esc = region_locals_escape(f, region)
                    if esc is not None:
                        bad = esc
                if bad is not None:
                    rep.violation(rid, key, 'a debug flag controls %s, which is not a debug write: the option changes the generated code' % norm(bad)[:60], f.loc(bad))
                else:
                    rep.ok(rid, key, 'only debug output depends on the flag', f.loc(s))
    rep.minimum('debug-flag tests', n, 2)
    ts = cm.renderer
    prog = Node('YPCodeProgram', functions=[Node('YPCodeFunction', name='p', args=[], body=[Node('YPCodeYieldFalse')])])
    outs = []
    for flag in ('', True):
        try:
            t = ts.render_program(prog, {'debug_filename': flag, 'current_source_file': 'f.pl'})
        except RenderError as e:
            raise AnalysisError('header template does not render: %s' % e)
        outs.append('\n'.join(l for l in t.split('\n') if l.strip() and not l.lstrip().startswith('#')))
    if outs[0] == outs[1]:
        rep.ok(rid, 'generate:header', 'with and without --debug-filename the output differs only in comment/blank lines', ts.gen_cls.loc())
    else:
        rep.violation(rid, 'generate:header', 'the debug-filename option changes non-comment output', ts.gen_cls.loc())


_ANTLR_DEFAULT_ENCODING = {'FileStream': 'ascii', 'StdinStream': 'ascii'}


def antlr_defaults(tier):
    """default encodings of the byte-decoding stream classes: table (quick), read from the installed
    runtime's source (thorough)"""
    if tier != 'thorough':
        return dict(_ANTLR_DEFAULT_ENCODING), 'table'
    import glob
    out = {}
    for base in glob.glob('/venv/lib/python3*/site-packages/antlr4'):
        for cls, fn in (('FileStream', 'FileStream.py'), ('StdinStream', 'StdinStream.py')):
            p = os.path.join(base, fn)
            if os.path.isfile(p):
                tree = ast.parse(open(p).read())
                for c in tree.body:
                    if isinstance(c, ast.ClassDef) and c.name == cls:
                        for m in c.body:
                            if isinstance(m, ast.FunctionDef) and m.name == '__init__':
                                a = m.args
                                names = [x.arg for x in a.args]
                                for nme, d in zip(names[len(names) - len(a.defaults):], a.defaults):
                                    if nme == 'encoding' and isinstance(d, ast.Constant):
                                        out[cls] = d.value
    if len(out) != 2:
        raise AnalysisError('cannot read the stream defaults from the installed ANTLR runtime (%s)' % out)
    return out, 'installed antlr4 runtime source'


def rule_token_kinds_keep_their_class(cm, rep, rid):
    rep.rule(rid, 'value flow from tokens to syntax-tree nodes: a number node is built only from the text of a NUMERAL token, and the '
                  'text of a NUMERAL token never becomes an atom name - whether a literal is a number is decided by how it is '
                  'written (1 vs \'1\'), not by what its text looks like after unquoting')
    fl = cm.flow
    num = [k for k in fl.pts if k[0] == 'F' and k[1].split('.')[-1] == 'NumeralTerm']
    atom = [k for k in fl.pts if k[0] == 'F' and k[1] == 'yp_prolog_visitor.Atom']
    if not num:
        raise AnalysisError('anchor vanished: no value reaches a field of NumeralTerm (flow)')
    n = 0
    for k in num:
        for v in fl.pts[k]:
            n += 1
            key = '%s.%s<-%s' % (k[1].split('.')[-1], k[2], _short(v))
            if v[0] == 'str' and isinstance(v[1], tuple) and v[1][:2] == ('tok', 'NUMERAL'):
                rep.ok(rid, key, 'the text of a NUMERAL token', None)
            elif v[0] == 'int':
                rep.ok(rid, key, 'an integer', None, nontrivial=False)
            else:
                rep.violation(rid, key, 'a number node is built from %s: text that was not written as a number (a quoted atom such as '
                              '\'2024\') can be compiled to an integer, which does not unify with the atom of that name' % _short(v), cm.repo.cls(*k[1].split('.', 1)).loc())
    for k in atom:
        for v in fl.pts[k]:
            if v[0] == 'str' and isinstance(v[1], tuple) and v[1][:2] == ('tok', 'NUMERAL'):
                rep.violation(rid, 'Atom.%s<-NUMERAL' % k[2], 'the text of a NUMERAL token becomes an atom name: the literal 1 denotes the atom '
                              '\'1\' there instead of the integer', cm.repo.cls('yp_prolog_visitor', 'Atom').loc())
    rep.minimum('values reaching number nodes', n, 1)


def rule_format_only_on_literals(cm, rep, rid):
    rep.rule(rid, 'in the emitter, a format string is a literal (or a constant bound to one): ``.format(..)`` / ``%`` is never '
                  'applied to text that was put together from generated pieces, where a ``{..}`` or ``%`` that comes out of the '
                  'source (a quoted atom) would be interpreted as a field')
    gen = cm.templates.gen_cls if hasattr(cm, '_ts') and cm._ts is not None else cm.repo.cls('yp_generator', 'YPPythonCodeGenerator')
    n = 0

    def literal(f, e):
        if isinstance(e, ast.Constant) and isinstance(e.value, str):
            return True
        if isinstance(e, ast.JoinedStr):
            return False
        if isinstance(e, ast.Name):
            r = cm.repo.resolve_name(f, e.id)
            return bool(r and r[0] == 'var' and isinstance(r[2], ast.Constant) and isinstance(r[2].value, str))
        if isinstance(e, ast.Attribute) and is_name(e.value, 'self') and f.cls is not None:
            for c in cm.repo.mro(f.cls):
                v = c.class_attrs.get(e.attr)
                if v is not None:
                    return isinstance(v, ast.Constant) and isinstance(v.value, str)
        if isinstance(e, ast.Subscript) and isinstance(e.value, ast.Name):
            # an entry of a module-level table of string literals that nothing changes
            r = cm.repo.resolve_name(f, e.value.id)
            if r and r[0] == 'var' and isinstance(r[2], (ast.Dict, ast.Tuple, ast.List)):
                vals = r[2].values if isinstance(r[2], ast.Dict) else r[2].elts
                tree = f.module.tree
                changed = any(isinstance(x, ast.Subscript) and isinstance(x.ctx, (ast.Store, ast.Del)) and is_name(x.value, e.value.id)
                              for x in ast.walk(tree)) or \
                    any(isinstance(x, ast.Call) and isinstance(x.func, ast.Attribute) and is_name(x.func.value, e.value.id) and
                        x.func.attr in ('update', 'pop', 'clear', 'setdefault', 'popitem', 'append', 'extend', 'insert', 'remove') for x in ast.walk(tree)) or \
                    sum(1 for x in ast.walk(tree) if isinstance(x, ast.Name) and x.id == e.value.id and isinstance(x.ctx, ast.Store)) != 1
                return bool(vals) and not changed and all(isinstance(v, ast.Constant) and isinstance(v.value, str) for v in vals)
        return False
    for f in cm.repo.all_functions(('yp_generator',)):
        if f.cls is None or gen not in cm.repo.mro(f.cls) and f.cls is not gen:
            continue
        for x in own_nodes_ordered(f.node):
            recv = None
            if isinstance(x, ast.Call) and isinstance(x.func, ast.Attribute) and x.func.attr in ('format', 'format_map'):
                recv = x.func.value
            elif isinstance(x, ast.BinOp) and isinstance(x.op, ast.Mod) and not isinstance(x.left, (ast.Constant,)) or \
                    (isinstance(x, ast.BinOp) and isinstance(x.op, ast.Mod) and isinstance(x.left, ast.Constant) and isinstance(x.left.value, str)):
                recv = x.left
            if recv is None:
                continue
            n += 1
            key = '%s:%s' % (f.qname, norm(x)[:50])
            if literal(f, recv):
                rep.ok(rid, key, 'format string is a literal', f.loc(x))
            else:
                rep.violation(rid, key, 'text that already contains generated pieces (%s) is used as a format string: a quoted atom such as '
                              '\'{name}\' or \'%%s\' in the source is interpreted as a field, and what it expands to is pasted into the '
                              'generated Python outside any quotes' % norm(recv)[:40], f.loc(x))
    rep.ok(rid, 'emitter', '%d format operations in the emitter examined' % n, None, nontrivial=bool(n))


def rule_asserts_have_no_effects(cm, rep, rid):
    rep.rule(rid, 'no assert statement of the compiler-side modules does work: its test calls nothing but pure inspections '
                  '(isinstance, len, type, ..) - with python -O / PYTHONOPTIMIZE asserts are not executed, so an effect inside '
                  'one (a pop, a counter) makes the generated text depend on how the interpreter was started')
    from .callgraph import CallGraph
    from .rules_extra import MUTATORS
    pure = {'isinstance', 'len', 'type', 'all', 'any', 'callable', 'hasattr', 'getattr', 'issubclass', 'bool', 'str', 'repr', 'int', 'sorted', 'set', 'list', 'tuple', 'min', 'max'}
    cg = CallGraph(cm.repo)

    def works(f, call):
        """why evaluating this call changes state that outlives it, or None"""
        if isinstance(call.func, ast.Name) and call.func.id == 'next':
            return 'advances an iterator'
        cs = cg.resolve_callable(f, call.func)
        if not cs:
            if isinstance(call.func, ast.Attribute) and call.func.attr in MUTATORS and not (
                    isinstance(call.func.value, ast.Name) and call.func.attr in ('pop', 'get', 'setdefault') and False):
                root = call.func.value
                while isinstance(root, (ast.Attribute, ast.Subscript)):
                    root = root.value
                if isinstance(root, ast.Name) and (root.id == 'self' or root.id in [a.arg for a in f.node.args.args]) and \
                        isinstance(call.func.value, ast.Attribute):
                    return 'changes %s' % norm(call.func.value)
            return None
        for g in cg.reachable(cs, with_refs=False):
            if g.name == '__init__':
                continue
            for x in own_nodes_ordered(g.node):
                tg = []
                if isinstance(x, ast.Assign):
                    tg = x.targets
                elif isinstance(x, (ast.AugAssign, ast.AnnAssign)):
                    tg = [x.target]
                elif isinstance(x, ast.Delete):
                    tg = x.targets
                for t in tg:
                    for e in (t.elts if isinstance(t, (ast.Tuple, ast.List)) else [t]):
                        root = e
                        while isinstance(root, (ast.Attribute, ast.Subscript)):
                            root = root.value
                        if isinstance(e, (ast.Attribute, ast.Subscript)) and isinstance(root, ast.Name) and \
                                (root.id == 'self' or root.id in [a.arg for a in g.node.args.args]):
                            return '%s stores %s' % (g.qname, norm(e))
                if isinstance(x, ast.Call) and isinstance(x.func, ast.Attribute) and x.func.attr in MUTATORS and \
                        isinstance(x.func.value, ast.Attribute):
                    root = x.func.value
                    while isinstance(root, (ast.Attribute, ast.Subscript)):
                        root = root.value
                    if isinstance(root, ast.Name) and (root.id == 'self' or root.id in [a.arg for a in g.node.args.args]):
                        if x.func.attr in ('get',):
                            continue
                        return '%s calls %s' % (g.qname, norm(x)[:40])
        return None

    n = 0
    for f in cm.repo.all_functions(('compiler', 'yp_generator', 'yp_prolog_visitor', 'errors')):
        for s_ in own_nodes_ordered(f.node):
            if not isinstance(s_, ast.Assert):
                continue
            n += 1
            why = None
            for x in ast.walk(s_.test):
                if isinstance(x, ast.Call) and not (isinstance(x.func, ast.Name) and x.func.id in pure):
                    why = works(f, x)
                    if why:
                        break
            key = '%s:%s' % (f.qname, norm(s_)[:50])
            if why:
                rep.violation(rid, key, 'this assert does work (%s): under python -O it is skipped, and the compiler then carries on in a '
                              'different state - the same source compiles to different text' % why, f.loc(s_))
            else:
                rep.ok(rid, key, 'inspects only', f.loc(s_))
    rep.ok(rid, 'asserts', '%d assert statement(s) in the compiler-side modules' % n, None, nontrivial=bool(n))


def rule_codecs_strict(cm, rep, rid):
    rep.rule(rid, 'between bytes and text nothing is lost or rewritten, and nothing depends on the process: in the compiler module '
                  'no decode/encode/open/stream call asks for a lenient error handler (errors=ignore/replace/backslashreplace..), '
                  'every encoding that is named is UTF-8, and no source is opened for reading in text mode without naming one '
                  '(the locale would choose)')
    n = 0
    for f in cm.repo.all_functions(('compiler',)):
        for x in own_nodes_ordered(f.node):
            if not isinstance(x, ast.Call):
                continue
            fn = norm(x.func)
            last = fn.split('.')[-1]
            kws = {k.arg: k.value for k in x.keywords if k.arg}
            io_call = last in ('open', 'open_file', 'decode', 'encode', 'FileStream', 'StdinStream', 'TextIOWrapper', 'reconfigure', 'fdopen',
                               'read_text', 'write_text', 'getreader', 'getwriter', 'str', 'bytes')
            if not io_call and 'errors' not in kws and 'encoding' not in kws:
                continue
            n += 1
            key = '%s:%s' % (f.qname, norm(x)[:50])
            errs = kws.get('errors')
            if errs is None and last in ('decode', 'encode') and len(x.args) > 1:
                errs = x.args[1]
            if errs is None and last in ('str', 'bytes') and len(x.args) > 2:
                errs = x.args[2]
            enc = kws.get('encoding')
            if enc is None and last in ('decode', 'encode') and x.args:
                enc = x.args[0]
            if enc is None and last == 'FileStream' and len(x.args) > 1:
                enc = x.args[1]
            if enc is None and last == 'StdinStream' and x.args:
                enc = x.args[0]
            if isinstance(enc, ast.Name):
                r = cm.repo.resolve_name(f, enc.id)
                if r and r[0] == 'var' and isinstance(r[2], ast.Constant):
                    enc = r[2]
            bad = None
            if errs is not None and not (isinstance(errs, ast.Constant) and errs.value in ('strict', None)):
                bad = 'bytes that do not fit are silently dropped or replaced (errors=%s): the text that is compiled, or written, is ' \
                      'not the text that was given' % norm(errs)
            elif isinstance(enc, ast.Constant) and isinstance(enc.value, str) and enc.value.lower().replace('-', '').replace('_', '') != 'utf8':
                bad = 'the encoding %r differs from the UTF-8 every other input and output uses' % enc.value
            elif last in ('open', 'open_file') and enc is None:
                mode = x.args[1] if len(x.args) > 1 else kws.get('mode')
                m = mode.value if isinstance(mode, ast.Constant) and isinstance(mode.value, str) else ('r' if mode is None else None)
                if m is not None and 'b' not in m and not any(c in m for c in 'wax'):
                    bad = 'a source is opened for reading as text without an encoding: the locale of the process decides how its ' \
                          'bytes are read, so the same file compiles to different code in different environments'
            if bad:
                rep.violation(rid, key, bad, f.loc(x))
            else:
                rep.ok(rid, key, 'strict' + (', %s' % enc.value if isinstance(enc, ast.Constant) else ''), f.loc(x), nontrivial=io_call)
    rep.minimum('byte/text conversions in the compiler module', n, 2)


def rule_one_decoding(cm, rep, rid, tier):
    rep.rule(rid, 'all byte-decoding input-stream constructors (FileStream, StdinStream) get the same explicit encoding, or all '
                  'rely on the same default of the ANTLR runtime')
    defaults, how = antlr_defaults(tier)
    rep.assume('ANTLR runtime stream defaults (%s): %s' % (how, defaults))
    sites = []
    for f in cm.repo.all_functions(('compiler',)):
        for x in own_nodes_ordered(f.node):
            if isinstance(x, ast.Call) and norm(x.func).split('.')[-1] in defaults:
                cls = norm(x.func).split('.')[-1]
                enc = None
                for k in x.keywords:
                    if k.arg == 'encoding':
                        kv = k.value
                        if isinstance(kv, ast.Name):
                            r = cm.repo.resolve_name(f, kv.id)          # a module constant
                            if r and r[0] == 'var' and isinstance(r[2], ast.Constant) and len(r[1].assign_nodes.get(kv.id, [])) == 1:
                                kv = r[2]
                        enc = kv.value if isinstance(kv, ast.Constant) else norm(kv)
                if enc is None and cls == 'FileStream' and len(x.args) > 1 and isinstance(x.args[1], ast.Constant):
                    enc = x.args[1].value
                if enc is None and cls == 'StdinStream' and len(x.args) > 0 and isinstance(x.args[0], ast.Constant):
                    enc = x.args[0].value
                sites.append((f, x, cls, (enc or defaults[cls])))
    if not sites:
        rep.ok(rid, 'stream constructors', 'no ANTLR byte-stream constructor is used (see the rule on conversions)', None, nontrivial=False)
    # sources read through Python's text I/O: universal newlines rewrite \r\n and \r, the byte streams do not
    for f in cm.repo.all_functions(('compiler',)):
        for x in own_nodes_ordered(f.node):
            if not isinstance(x, ast.Call):
                continue
            fn = norm(x.func)
            if fn in ('open', 'io.open', 'click.open_file', 'codecs.open'):
                mode = x.args[1] if len(x.args) > 1 else next((k.value for k in x.keywords if k.arg == 'mode'), None)
                m = mode.value if isinstance(mode, ast.Constant) and isinstance(mode.value, str) else ('r' if mode is None else None)
                newline = next((k.value for k in x.keywords if k.arg == 'newline'), None)
                if m is not None and 'w' not in m and 'a' not in m and 'x' not in m and 'b' not in m and \
                        not (isinstance(newline, ast.Constant) and newline.value == ''):
                    rep.violation(rid, '%s:%s' % (f.qname, norm(x)[:50]), 'a source is read through Python text I/O (%s, newline translation on): '
                                  '\\r\\n and \\r inside quoted atoms reach the lexer as \\n, while the other inputs are decoded byte for byte - '
                                  'the command line and the library compile the same file to different code' % fn, f.loc(x))
            if fn in ('sys.stdin.read', 'sys.stdin.readlines'):
                rep.violation(rid, '%s:%s' % (f.qname, fn), 'standard input is read as text (newline translation, locale encoding) instead of through the '
                              'byte stream class the other inputs use', f.loc(x))
    encs = {str(e).lower().replace('-', '') for _, _, _, e in sites}
    for f, x, cls, e in sites:
        key = '%s:%s' % (f.qname, norm(x))
        if len(encs) == 1:
            rep.ok(rid, key, 'decodes as %s' % e, f.loc(x))
        else:
            major = max(encs, key=lambda k: len([1 for s in sites if str(s[3]).lower().replace('-', '') == k]))
            if str(e).lower().replace('-', '') != major:
                rep.violation(rid, key, '%s decodes its input as %s while the other inputs are read as %s: the same program compiles '
                              'from a file but not from standard input' % (cls, e, major), f.loc(x))
            else:
                rep.ok(rid, key, 'decodes as %s' % e, f.loc(x))


def rule_tracer_transparent(cm, rep, rid):
    rep.rule(rid, 'the visitor\'s tracing wrapper returns the wrapped call\'s result unchanged and does nothing besides debug '
                  'writes and its own indent counter')
    vis = cm.repo.cls('yp_prolog_visitor', 'YPPrologVisitor')
    ga = vis.methods.get('__getattribute__')
    if ga is None:
        rep.ok(rid, 'visitor', 'no attribute hook', vis.loc(), nontrivial=False)
        return
    inner = list(ga.nested.values())
    if not inner:
        # the wrapper is built by a helper method that the hook hands the attribute to
        for x in own_nodes_ordered(ga.node):
            if isinstance(x, ast.Call) and is_self_attr(x.func):
                h = cm.repo.lookup_method(vis, x.func.attr)
                if h is not None and h.nested:
                    inner += list(h.nested.values())
    if len(inner) != 1:
        raise AnalysisError('unexpected shape of the tracing wrapper')
    w = inner[0]
    # the callable being wrapped: a local or parameter of the enclosing function that the wrapper calls with (*args, **kwargs)
    enclosing = w.parent
    outer_names = set(enclosing.all_params) | {t.id for s_ in own_nodes(enclosing.node) if isinstance(s_, ast.Assign) for t in s_.targets if isinstance(t, ast.Name)}
    wrapped = {x.func.id for x in own_nodes(w.node) if isinstance(x, ast.Call) and isinstance(x.func, ast.Name) and x.func.id in outer_names and
               any(isinstance(a_, ast.Starred) for a_ in x.args)} or {'attr'}
    key = w.qname
    a = w.node.args
    protected = {x.arg for x in a.args} | ({a.vararg.arg} if a.vararg else set()) | ({a.kwarg.arg} if a.kwarg else set())
    state = dict(res=None, bad=None, calls=0, returned=False)

    def is_wrapped_call(v):
        if not (isinstance(v, ast.Call) and is_name(v.func) and v.func.id in wrapped):
            return False
        star = [x for x in v.args if isinstance(x, ast.Starred)]
        kw = [k for k in v.keywords if k.arg is None]
        return len(star) == 1 and len(v.args) == 1 and len(kw) == 1 and len(v.keywords) == 1

    def walk(stmts):
        for s in stmts:
            if isinstance(s, ast.Assign) and isinstance(s.value, ast.Call) and is_name(s.value.func) and s.value.func.id in wrapped:
                if is_wrapped_call(s.value) and len(s.targets) == 1 and isinstance(s.targets[0], ast.Name) and state['res'] is None:
                    state['res'] = s.targets[0].id
                    state['calls'] += 1
                else:
                    state['bad'] = state['bad'] or s
            elif isinstance(s, ast.Expr) and isinstance(s.value, ast.Call) and norm(s.value.func).endswith('_debug'):
                continue
            elif isinstance(s, ast.AugAssign) and is_self_attr(s.target) and 'indent' in s.target.attr:
                continue
            elif isinstance(s, ast.Assign) and all(isinstance(t, ast.Name) and t.id not in protected and t.id != state['res'] for t in s.targets) and \
                    not any(isinstance(x, ast.Call) and is_name(x.func) and x.func.id in wrapped for x in ast.walk(s.value)):
                continue                # a local used for the trace messages
            elif isinstance(s, ast.Return):
                state['returned'] = True
                if is_wrapped_call(s.value) and state['res'] is None:
                    state['res'] = '<returned directly>'
                    state['calls'] += 1
                elif not (state['res'] and is_name(s.value, state['res'])):
                    state['bad'] = state['bad'] or s
            elif isinstance(s, ast.Expr) and isinstance(s.value, ast.Constant):
                continue
            elif isinstance(s, ast.Try) and not s.handlers and not s.orelse:
                walk(s.body)
                walk(s.finalbody)
            elif isinstance(s, ast.Pass):
                continue
            else:
                state['bad'] = state['bad'] or s
    walk(w.node.body)
    res, bad = state['res'], state['bad']
    if bad is None and res and state['calls'] == 1 and state['returned']:
        rep.ok(rid, key, 'calls the visit method with the same arguments and returns its result unchanged', w.loc())
    else:
        rep.violation(rid, key, 'the tracing wrapper does more than tracing (%s): visiting with and without --debug-parser can differ' % (norm(bad)[:60] if bad is not None else 'result not returned'), w.loc(bad) if bad is not None else w.loc())


# ---------------------------------------------------------------------------------------------
# C01 pieces


def rule_anonymous_variables(cm, rep, rid):
    rep.rule(rid, 'every construction of an anonymous variable is followed on all paths by an increment of the counter it was '
                  'numbered with, the counter is written nowhere else, and the generated names (x<n>) are disjoint from the '
                  'names a source variable can have')
    L = Lex(cm)
    vis = cm.repo.cls('yp_prolog_visitor', 'YPPrologVisitor')
    sites = []
    for f in cm.repo.all_functions(('yp_prolog_visitor', 'yp_generator')):
        for x in own_nodes_ordered(f.node):
            if isinstance(x, ast.Call) and is_name(x.func, 'AnonymousVariableTerm'):
                sites.append((f, x))
    rep.minimum('anonymous-variable construction sites', len(sites), 1)
    from .eng import EngineModel
    em = EngineModel(cm.repo)
    for f, x in sites:
        key = '%s:%s' % (f.qname, norm(x))
        cnt = x.args[0] if x.args else None
        if not is_self_attr(cnt):
            rep.violation(rid, key, 'the anonymous variable is not numbered from an instance counter', f.loc(x))
            continue
        cfg = em.cfg(f)
        cn = [n for n in em.nodes_for(f, x) if n.kind == 'call' and n.ast is x]
        incs = [n for n in cfg.nodes if n.kind == 'store' and is_self_attr(n.ast, cnt.attr) and isinstance(n.info, ast.AugAssign)
                and isinstance(n.info.op, ast.Add)]
        path = cfg.g.find_path(cn[0], lambda m: m.kind == 'exit' and m.info in ('return', 'fall'), avoid=lambda m: m in incs,
                               edge_ok=lambda l, a, b: l != 'exc') if cn else None
        if path is not None:
            rep.violation(rid, key, 'the counter is not incremented after an anonymous variable was created: two "_" of one clause get '
                          'the same name and are one variable', f.loc(x), cfg.describe_path(path))
        else:
            rep.ok(rid, key, 'counter %s incremented after every construction' % cnt.attr, f.loc(x))
        writers = [(g, n) for g in cm.repo.all_functions(('yp_prolog_visitor', 'yp_generator')) for n in own_nodes(g.node)
                   if isinstance(n, ast.Attribute) and n.attr == cnt.attr and isinstance(n.ctx, ast.Store) and g.name != '__init__' and g is not f]
        for g, n in writers:
            rep.violation(rid, '%s:%s' % (g.qname, norm(n)), 'the anonymous-variable counter is also written here', g.loc(n))
    # name classes
    names = cm.flow.field('yp_prolog_visitor.AnonymousVariableTerm', 'varname') | {v for v in cm.flow.field('yp_prolog_visitor.VariableTerm', 'varname')
                                                                                 if v[0] == 'str' and not L.from_source(v[1])}
    src = [v for v in cm.flow.field('yp_prolog_visitor.VariableTerm', 'varname') if v[0] == 'str' and L.from_source(v[1])]
    gen = [v for v in names if v[0] == 'str' and not L.from_source(v[1])]
    rep.minimum('source variable name classes', len(src), 1)
    for gv in gen:
        for sv in src:
            key = 'names:%s/%s' % (_short(gv), _short(sv))
            gl = gv[1]
            grx = ''.join('(?:%s)' % (re.escape(p[1]) if p[0] == 'lit' else '-?[0-9]+') for p in (gl[1] if gl[0] == 'cat' else [gl]))
            w = lx.dfa(grx).intersect(L.dfa(sv[1])).witness()
            if w is not None:
                rep.violation(rid, key, 'the generated name %r of an anonymous variable can also be written as a source variable: '
                              '"_" is then not a distinct variable' % w, vis.loc())
            else:
                rep.ok(rid, key, 'generated and source variable names are disjoint', vis.loc())


def _collects_by_evaluation(cm, c, init, fld, as_list, has_vars):
    """the ``variables`` property of class c evaluated on an instance whose field ``fld`` holds a variable node (or a list
    with one) carrying a marked name: is the mark in the result?"""
    from .symex import SymEx, New, Const, ListV, PathState, Sym
    mods = ('yp_generator', 'yp_prolog_visitor')
    sx = SymEx(cm.repo, inline=lambda f: f.module.name in mods and f.name != '_debug', opaque=lambda n: False, max_depth=12)
    sx.max_steps = 50000

    def variables_of(obj):
        try:
            v = sx.attr(obj, 'variables', PathState(), None, None)
            if isinstance(v, tuple) and v and v[0] == 'bound' and v[1].is_property:
                outs = sx.run(v[1], [obj], PathState(), with_self=True)
                if len(outs) == 1:
                    return outs[0][1]
        except (AnalysisError, RecursionError):
            pass
        return None
    marker = None
    for qn in sorted(has_vars):
        mc = cm.repo.cls(*qn.split('.', 1))
        mi = cm.repo.lookup_method(mc, '__init__')
        if mi is None or len(mi.params) != 2:
            continue
        res = variables_of(New(mc, [Const('MARK')]))
        if isinstance(res, ListV) and len(res.items) == 1 and 'MARK' in repr(res.items[0]):
            marker = mc
            break
    if marker is None or init is None:
        return False
    params = init.params[1:]
    args = []
    hit = False
    for p in params:
        # the constructor parameter that is stored in the field
        stored = [t.attr for s_ in own_nodes(init.node) if isinstance(s_, ast.Assign) and is_name(s_.value, p)
                  for t in s_.targets if is_self_attr(t)]
        if fld in stored:
            m = New(marker, [Const('MARK')])
            args.append(ListV([m]) if as_list else m)
            hit = True
        else:
            args.append(ListV([]) if any('list' == v[0] for f2 in stored for v in cm.flow.field(c.qname, f2)) else
                        New(marker, [Const('other')]))
    if not hit:
        return False
    res = variables_of(New(c, args))
    return isinstance(res, ListV) and 'MARK' in repr(res)


def rule_variable_coverage(cm, rep, rid):
    rep.rule(rid, 'sibling agreement: the "variables" property of every syntax-tree class mentions every field that can hold '
                  'a node with variables (flow analysis), so every variable the emitter can print is declared')
    fl = cm.flow
    n = 0
    def _prop(c):
        m = cm.repo.lookup_method(c, 'variables')       # own or inherited (a mixin / shared base class)
        return m if m is not None and m.is_property else None
    classes = [c for c in cm.repo.all_classes(('yp_prolog_visitor', 'yp_generator')) if _prop(c) is not None and
               (c in cm.repo.instantiated() or 'variables' in c.methods)]
    def _always_empty(c):
        rets = [x for x in own_nodes(_prop(c).node) if isinstance(x, ast.Return)]
        if bool(rets) and all(isinstance(r.value, ast.List) and not r.value.elts for r in rets):
            return True
        # evaluated on an instance whose fields hold plain constants: an empty list means no field is consulted
        from .symex import SymEx, New, Const, ListV, PathState
        init = cm.repo.lookup_method(c, '__init__')
        sx = SymEx(cm.repo, inline=lambda f: f.module.name in ('yp_generator', 'yp_prolog_visitor') and f.name != '_debug',
                   opaque=lambda n: False, max_depth=6)
        sx.max_steps = 20000
        try:
            outs = sx.run(_prop(c), [New(c, [Const('k%d' % i) for i in range(len(init.params) - 1)] if init is not None else [])],
                          PathState(), with_self=True)
        except (AnalysisError, RecursionError):
            return False
        return len(outs) == 1 and isinstance(outs[0][1], ListV) and not outs[0][1].items
    has_vars = {c.qname for c in classes if not _always_empty(c)}
    for c in classes:
        init = cm.repo.lookup_method(c, '__init__')
        flds = []
        if init is not None:
            for s in own_nodes(init.node):
                if isinstance(s, ast.Assign):
                    for t in s.targets:
                        if is_self_attr(t):
                            flds.append(t.attr)
        prop = _prop(c)
        src = norm(prop.node)
        for fld in flds:
            vals = fl.field(c.qname, fld)
            holds = [v for v in vals if v[0] == 'inst' and v[1] in has_vars]
            lists = [v for v in vals if v[0] == 'list' and any(e[0] == 'inst' and e[1] in has_vars for e in fl.pts.get(('E', v[1]), {}))]
            if not holds and not lists:
                continue
            n += 1
            key = '%s.%s' % (c.qname, fld)
            if re.search(r'self\.%s\b' % re.escape(fld), src):
                rep.ok(rid, key, 'collected by the variables property', prop.loc())
            elif _collects_by_evaluation(cm, c, init, fld, bool(lists) and not holds, has_vars):
                rep.ok(rid, key, 'collected by the variables property (evaluated on a node whose %s holds a marked variable)' % fld, prop.loc())
            else:
                rep.violation(rid, key, 'variables occurring in %s.%s are not collected: they are used in the generated code without '
                              'being declared (NameError at run time) ' % (c.name, fld), prop.loc())
    rep.minimum('child fields with variables', n, 6)


def rule_unquote_delimiters(cm, rep, rid):
    rep.rule(rid, 'the function that turns the text of a STRING token into an atom name removes exactly one character at each '
                  'end (slice [1:-1] or an index loop from 1 to len-1); strip()-style removal of the quote character, which also '
                  'eats quotes that belong to the name, is reported')
    vis = cm.repo.cls('yp_prolog_visitor', 'YPPrologVisitor')
    va = vis.methods.get('visitAtom')
    if va is None:
        raise AnalysisError('anchor vanished: visitAtom')
    helpers = []
    def string_token_text(a):
        if 'STRING' in norm(a):
            return True
        try:
            vals = cm.flow.values_in(va, a)
        except Exception:       # noqa - the textual test above is the fallback
            return False
        return any(v[0] == 'str' and isinstance(v[1], tuple) and v[1][:2] == ('tok', 'STRING') for v in vals)
    for x in own_nodes_ordered(va.node):
        if isinstance(x, ast.Call) and is_self_attr(x.func) and any(string_token_text(a) for a in x.args):
            m = cm.repo.lookup_method(vis, x.func.attr)
            if m is not None and m not in helpers:
                helpers.append(m)
    rep.minimum('unquoting helpers applied to STRING tokens', len(helpers), 1)
    for m in helpers:
        p = m.params[1]
        key = '%s:%s' % (m.qname, p)
        bad = None
        good = None
        for x in own_nodes_ordered(m.node):
            if isinstance(x, ast.Call) and isinstance(x.func, ast.Attribute) and x.func.attr in ('strip', 'lstrip', 'rstrip') and \
                    any(is_name(y, p) for y in ast.walk(x.func.value)):
                bad = x
            if isinstance(x, ast.Subscript) and is_name(x.value, p) and isinstance(x.slice, ast.Slice):
                lo, hi = x.slice.lower, x.slice.upper
                if isinstance(lo, ast.Constant) and lo.value == 1 and isinstance(hi, ast.UnaryOp) and isinstance(hi.operand, ast.Constant) and hi.operand.value == 1:
                    good = x
                else:
                    bad = bad or x
            if isinstance(x, ast.Compare) and 'len(%s)' % p in norm(x) and ('- 1' in norm(x) or '-1' in norm(x)):
                good = good or x
        recode = [x for x in own_nodes_ordered(m.node) if isinstance(x, ast.Call) and
                  any(w in norm(x.func) for w in ('decode', 'encode', 'literal_eval', 'eval', 'loads', 'unescape', 'normalize', 'translate', 'casefold', 'lower', 'upper'))]
        if recode:
            rep.violation(rid, key + ':recode', 'the text of a quoted atom is re-interpreted on the way (%s): characters of the name are replaced '
                          'by others (an escape decoder turns every non-ASCII character into something else), so the literal denotes a '
                          'different atom than it spells' % norm(recode[0])[:50], m.loc(recode[0]))
            continue
        if bad is not None:
            rep.violation(rid, key, 'the quotes of a quoted atom are removed with %s, which removes more than the two delimiters when the '
                          'name itself begins or ends with a quote (the source literal then denotes a different atom)' % norm(bad)[:50], m.loc(bad))
        elif good is not None:
            rep.ok(rid, key, 'exactly the first and the last character are dropped', m.loc(good))
        else:
            rep.note(rid, 'cannot see how %s removes the delimiters of a quoted atom' % m.qname, m.loc())


def rule_source_names_disjoint(cm, em, rep, rid):
    """template-independent companion of rule_no_capture"""
    rep.rule(rid, 'value-flow only (no templates needed): whenever an emitter method can return a text that is as a whole an '
                  'identifier and is built from source text (a variable name, a name derived from an atom), the set of such '
                  'texts is disjoint from the names of the engine context that loaded code relies on - decided on DFAs')
    from .rules_query import context_literal_keys
    L = Lex(cm)
    keys = [k for k in context_literal_keys(em) if k != '__builtins__']
    rd = lx.dfa(lx.words(keys))
    ident = lx.dfa(lx.PY_IDENT)
    gen = cm.repo.cls('yp_generator', 'YPPythonCodeGenerator')
    n = 0
    for m in gen.methods.values():
        if not m.name.startswith('generate') or len(m.params) != 2:
            continue
        for v in sorted(cm.flow.pts.get(('R', m.qname), {}), key=str):
            if v[0] != 'str' or not L.from_source(v[1]):
                continue
            try:
                d = L.dfa(coarse_ident(v[1]))
            except (ValueError, KeyError, RecursionError):
                continue
            if d.subset_of(ident) is not None:
                continue            # not always an identifier: a larger piece of code (checked through the templates)
            n += 1
            key = '%s:return<-%s' % (m.qname, _short(v))
            w = d.intersect(rd).witness()
            if w is not None:
                rep.violation(rid, key, 'the emitter can return the name %r built from source text (%s): it is a name of the engine '
                              'context that loaded code relies on, so a Prolog text can rebind or shadow it' % (w, L.describe(v[1])[:80]), m.loc())
            else:
                rep.ok(rid, key, 'identifier class disjoint from the %d context names' % len(keys), m.loc())
    rep.minimum('source-derived identifier results of emitter methods', n, 1)


def coarse_ident(lex):
    return lex
