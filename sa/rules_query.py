"""Rules about query evaluation: evaluate_bounded (C17), predicate table and call protocol
(C08, C20)."""
import ast
import re

from .model import AnalysisError, own_nodes, own_nodes_ordered, is_name, is_self_attr, norm, parents
from .cfg import ExcMatcher
from .eng import EngineModel, names_loaded, Raises
from .callgraph import arg_for_param


def _method_view(em, name):
    """the method with its helpers pasted in (rules about what happens inside it, wherever the code now lives)"""
    md = em.repo.lookup_method(em.YP, 'match_dynamic')
    return em.view(_method(em, name), keep=(md,) if md is not None else ())


def _method(em, name):
    m = em.repo.lookup_method(em.YP, name)
    if m is None:
        raise AnalysisError('anchor vanished: YP.%s' % name)
    return m


# ---------------------------------------------------------------------------------------------
# C17


def rule_limit_restored(em, rep, rid):
    rep.rule(rid, 'with every call treated as may-raise: every path from sys.setrecursionlimit(<new>) to any exit passes '
                  'sys.setrecursionlimit(<saved>), <saved> being a local assigned once from sys.getrecursionlimit() '
                  'before the acquire')
    funcs = [f for f in em.repo.all_functions(('engine',)) if any(
        isinstance(x, ast.Call) and norm(x.func).endswith('setrecursionlimit') for x in own_nodes(f.node))]
    if not funcs:
        rep.note(rid, 'the engine never changes the recursion limit')
        return
    for f in funcs:
        _limit_restored_in(em, rep, rid, f)


def _limit_restored_in(em, rep, rid, f):
    cfg = em.cfg(f)
    saves = [n for n in cfg.nodes if n.kind == 'store' and isinstance(n.ast, ast.Name) and isinstance(n.info, ast.Call)
             and norm(n.info.func).endswith('getrecursionlimit')]
    sets = [n for n in cfg.nodes if n.kind == 'call' and norm(n.ast.func).endswith('setrecursionlimit')]
    if not saves:
        rep.violation(rid, f.qname + ':save', 'the recursion limit is changed but the previous value is never saved', f.loc())
        return
    saved = saves[0].ast.id
    nstores = [n for n in cfg.nodes if n.kind == 'store' and is_name(n.ast, saved)]
    dom = cfg.g.dominators(cfg.entry)
    acquires = [n for n in sets if not (n.ast.args and is_name(n.ast.args[0], saved))]
    releases = [n for n in sets if n.ast.args and is_name(n.ast.args[0], saved)]
    rep.minimum('recursion-limit acquire sites', len(acquires), 1)
    for a in acquires:
        key = '%s:%s' % (f.qname, norm(a.ast))
        arg = a.ast.args[0] if a.ast.args else None
        params = f.params[1:] if f.is_method else f.params
        if arg is not None and not (is_name(arg) and arg.id in params) and not isinstance(arg, ast.Constant):
            # the depth that is installed is the depth that was asked for
            def plain(e, depth=0):
                if is_name(e) and e.id in params:
                    return True
                if is_name(e) and depth < 3:
                    defs = [s_ for s_ in own_nodes(f.node) if isinstance(s_, ast.Assign) and any(is_name(t, e.id) for t in s_.targets)]
                    return bool(defs) and all(plain(d.value, depth + 1) for d in defs)
                return False
            if not plain(arg):
                rep.violation(rid, key + ':requested', 'the limit that is installed is computed (%s), not the one the caller asked for: a search '
                              'that fits within the requested depth can be cut short (or run deeper than allowed)' % norm(arg)[:50], f.loc(a.stmt))
        if len(nstores) != 1 or saves[0] not in dom[a]:
            rep.violation(rid, key, 'the saved limit %s is reassigned or not saved before the limit is changed' % saved, f.loc(a.stmt))
            continue
        # in a @contextmanager helper the body of the with statement runs at the yield: an exception raised there is
        # thrown into the generator at that point (the throw edge of the yield)
        path = cfg.g.find_path(a, lambda m: m.kind == 'exit', avoid=lambda m: m in releases,
                               edge_ok=lambda lbl, x, y: not (x is a and lbl == 'exc'))
        if path is not None:
            rep.violation(rid, key, 'the interpreter-wide recursion limit is not restored on the path to EXIT(%s)%s' % (
                path[-1][1].info, ' (an exception in the with-body is thrown in at the yield)' if f.is_contextmanager else ''),
                f.loc(a.stmt), cfg.describe_path(path))
        else:
            rep.ok(rid, key, 'restored with %s on all %d exit kind(s)' % (saved, len(cfg.exit_nodes())), f.loc(a.stmt))


def _query_loop(em, f):
    """the for-loop (or comprehension) that consumes the ``query`` parameter"""
    ps = f.params[1:]
    if not ps:
        raise AnalysisError('evaluate_bounded has no query parameter')
    q = ps[0]
    for n in own_nodes_ordered(f.node):
        if isinstance(n, ast.For) and any(is_name(x, q) for x in ast.walk(n.iter)):
            return q, n
    return q, None


def rule_depth_error_handled(em, rep, rid):
    rep.rule(rid, 'the loop that consumes the query lies in a try whose handler catches RecursionError (or a superclass) '
                  'and does not re-raise; no other handler of that try swallows unrelated exceptions of the query')
    f = _method(em, 'evaluate_bounded')
    q, loop = _query_loop(em, f)
    key = '%s:for..in %s' % (f.qname, q)
    if loop is None:
        rep.violation(rid, key, 'no loop over the query argument found: the answers are not enumerated', f.loc())
        return
    mt = ExcMatcher(em.repo, f)
    child = loop
    caught = None
    for p in parents(loop):
        if isinstance(p, (ast.FunctionDef, ast.Lambda)):
            break
        if isinstance(p, ast.Try) and any(child is s for s in p.body):
            for h in p.handlers:
                if mt.match('RecursionError', h) == 'yes':
                    caught = h
                    break
            if caught:
                break
        child = p
    if caught is None:
        rep.violation(rid, key, 'a RecursionError raised while enumerating the query escapes evaluate_bounded', f.loc(loop))
        return
    if any(isinstance(x, ast.Raise) for s in caught.body for x in ast.walk(s)):
        rep.violation(rid, key, 'the handler for the depth error re-raises', f.loc(caught))
        return
    # the handler runs where the stack is exhausted and (when the limit is restored in a finally) still under the lowered
    # limit: a call made there can raise the depth error a second time, and that one escapes
    calls = [x for s in caught.body for x in ast.walk(s) if isinstance(x, ast.Call)]
    cfg = em.cfg(f)
    restores = [n for n in cfg.nodes if n.kind == 'call' and norm(n.ast.func).endswith('setrecursionlimit')]
    restored_first = False
    if calls and restores:
        # fine when the limit is put back inside the handler before anything else is called
        first = [x for x in ast.walk(caught.body[0]) if isinstance(x, ast.Call)] if caught.body else []
        restored_first = bool(first) and norm(first[0].func).endswith('setrecursionlimit') and isinstance(caught.body[0], ast.Expr)
    if calls and not restored_first:
        rep.violation(rid, key + ':handler', 'the handler of the depth error calls %s while the stack is exhausted and the lowered limit is '
                      'still in force: the call itself can exceed the limit, and then a RecursionError escapes evaluate_bounded instead '
                      'of the prefix being returned' % norm(calls[0].func), f.loc(calls[0]))
        return
    rep.ok(rid, key, 'depth error caught by "except %s" without re-raise' % (norm(caught.type) if caught.type else ''), f.loc(caught))


def rule_prefix(em, rep, rid):
    rep.rule(rid, 'the result list is created empty, is only ever extended by append(projection(answer)) executed on every '
                  'iteration of the query loop, and is what every return returns')
    f = _method(em, 'evaluate_bounded')
    q, loop = _query_loop(em, f)
    if loop is None:
        return
    cfg = em.cfg(f)
    rets = [n for n in cfg.nodes if n.kind == 'return']
    key = f.qname + ':result'
    names = {norm(n.ast) for n in rets if n.ast is not None}
    if len(names) != 1 or not all(isinstance(n.ast, ast.Name) for n in rets) or \
            ('fall' in cfg.exits and cfg.exits['fall'] in cfg.live):
        rep.violation(rid, key, 'evaluate_bounded does not return one result list on every non-raising path (returns: %s)' % sorted(names), f.loc())
        return
    res = rets[0].ast.id
    bad = []
    appends = []
    for n in own_nodes_ordered(f.node):
        if isinstance(n, ast.Assign) and any(is_name(t, res) for t in n.targets):
            if not (isinstance(n.value, ast.List) and not n.value.elts):
                bad.append((n, 'assigned something other than an empty list'))
        elif isinstance(n, ast.AugAssign) and is_name(n.target, res):
            bad.append((n, 'augmented assignment'))
        elif isinstance(n, ast.Call) and isinstance(n.func, ast.Attribute) and is_name(n.func.value, res):
            if n.func.attr == 'append':
                appends.append(n)
            else:
                bad.append((n, 'mutated by .%s()' % n.func.attr))
        elif isinstance(n, (ast.Subscript,)) and is_name(n.value, res) and isinstance(n.ctx, (ast.Store, ast.Del)):
            bad.append((n, 'element assignment/deletion'))
    for n, why in bad:
        rep.violation(rid, '%s:%s' % (key, norm(n)), 'the result is not a prefix of the projected answers in order: %s' % why, f.loc(n))
    if len(appends) != 1:
        rep.violation(rid, key + ':append', '%d append sites for the result (expected exactly one, in the query loop)' % len(appends), f.loc())
        return
    ap = appends[0]
    inloop = any(ap is x for s in loop.body for x in ast.walk(s))
    tgt = {x.id for x in ast.walk(loop.target) if isinstance(x, ast.Name)}
    arg0 = ap.args[0] if ap.args else None
    if isinstance(arg0, ast.Name):
        # a local that holds the projection: assigned once, in the loop body, before the append
        defs = [s_ for s_ in own_nodes_ordered(f.node) if isinstance(s_, ast.Assign) and any(is_name(t, arg0.id) for t in s_.targets)]
        if len(defs) == 1 and any(defs[0] is b for b in loop.body) and defs[0].lineno <= ap.lineno and arg0.id not in f.all_params:
            arg0 = defs[0].value
    uses_answer = arg0 is not None and isinstance(arg0, ast.Call) and any(is_name(x) and x.id in tgt for x in ast.walk(arg0))
    apn = [m for m in em.nodes_for(f, ap) if m.kind == 'call' and m.ast is ap]
    heads = [m for m in cfg.nodes if m.kind == 'fornext' and m.stmt is loop]
    every_iter = False
    if apn and heads:
        body = [m for lbl, m in cfg.g.succ.get(heads[0], ()) if lbl == 'body']
        p = cfg.g.find_path(body[0], lambda m: m is heads[0], avoid=lambda m: m is apn[0],
                            edge_ok=lambda lbl, x, y: lbl not in ('exc', 'throw', 'close')) if body else None
        every_iter = p is None
    if inloop and uses_answer and every_iter:
        rep.ok(rid, key, 'append(%s) on every iteration; returned by %d return(s)' % (norm(arg0), len(rets)), f.loc(ap))
    else:
        rep.violation(rid, key + ':append', 'the projection of an answer may be skipped or is not what is appended '
                      '(in loop=%s, projection of the loop variable=%s, on every iteration=%s)' % (inloop, uses_answer, every_iter), f.loc(ap))


def rule_query_finalised(em, rep, rid):
    rep.rule(rid, 'every path from the start of the enumeration to any exit passes close() of the query argument (or a '
                  '"with closing(query)"); a guard hasattr(query, "close") counts on its false side')
    f = _method(em, 'evaluate_bounded')
    q, loop = _query_loop(em, f)
    if loop is None:
        return
    cfg = em.cfg(f)
    starts = [m for m in cfg.nodes if m.kind == 'iter' and m.stmt is loop]
    key = '%s:%s.close()' % (f.qname, q)

    def closes(m):
        if m.kind == 'call' and isinstance(m.ast.func, ast.Attribute) and m.ast.func.attr == 'close' and is_name(m.ast.func.value, q):
            return True
        if m.kind == 'withexit' and isinstance(m.ast, ast.Call) and norm(m.ast.func).endswith('closing') and \
                m.ast.args and is_name(m.ast.args[0], q):
            return True
        if m.kind == 'join':
            for lbl, p in cfg.g.pred.get(m, ()):
                if p.kind == 'test' and lbl == 'false' and isinstance(p.ast, ast.Call) and is_name(p.ast.func, 'hasattr') \
                        and p.ast.args and is_name(p.ast.args[0], q):
                    return True
                if p.kind == 'test' and lbl == 'true' and isinstance(p.ast, ast.UnaryOp) and isinstance(p.ast.operand, ast.Call) \
                        and is_name(p.ast.operand.func, 'hasattr') and is_name(p.ast.operand.args[0], q):
                    return True
        return False
    def edge_ok(lbl, a, b):
        # restoring a limit that was valid before cannot fail
        return not (lbl == 'exc' and a.kind == 'call' and norm(a.ast.func).endswith('setrecursionlimit'))
    for s in starts:
        path = cfg.g.find_path(s, lambda m: m.kind == 'exit', avoid=closes, edge_ok=edge_ok)
        if path is not None:
            rep.violation(rid, key, 'the query is left suspended on the path to EXIT(%s): the variables it has bound stay '
                          'bound for as long as the caller holds the generator' % path[-1][1].info, f.loc(loop), cfg.describe_path(path))
        else:
            rep.ok(rid, key, 'closed on every exit', f.loc(loop))
    rep.minimum('query enumeration loops in evaluate_bounded', len(starts), 1)


# ---------------------------------------------------------------------------------------------
# string templates (predicate keys)


def template(e):
    """normalise a string-building expression to a list of ('lit', text) / ('hole', source text)"""
    if isinstance(e, ast.Constant) and isinstance(e.value, str):
        return [('lit', e.value)]
    if isinstance(e, ast.JoinedStr):
        out = []
        for v in e.values:
            if isinstance(v, ast.Constant):
                out.append(('lit', v.value))
            elif isinstance(v.value, ast.Constant) and isinstance(v.value.value, (str, int)) and not isinstance(v.value.value, bool):
                out.append(('lit', str(v.value.value)))
            else:
                out.append(('hole', norm(v.value)))
        return _merge(out)
    if isinstance(e, ast.BinOp) and isinstance(e.op, ast.Add):
        return _merge(template(e.left) + template(e.right))
    if isinstance(e, ast.BinOp) and isinstance(e.op, ast.Mod) and isinstance(e.left, ast.Constant) and isinstance(e.left.value, str):
        args = e.right.elts if isinstance(e.right, ast.Tuple) else [e.right]
        parts = re.split(r'(%[sdr])', e.left.value)
        out, i = [], 0
        for p in parts:
            if p in ('%s', '%d', '%r'):
                if i < len(args):
                    out.append(('hole', norm(args[i])))
                    i += 1
            elif p:
                out.append(('lit', p))
        return _merge(out)
    if isinstance(e, ast.Call) and isinstance(e.func, ast.Attribute) and e.func.attr == 'format' and \
            isinstance(e.func.value, ast.Constant) and isinstance(e.func.value.value, str):
        parts = re.split(r'(\{\})', e.func.value.value)
        out, i = [], 0
        for p in parts:
            if p == '{}':
                if i < len(e.args):
                    out.append(('hole', norm(e.args[i])))
                    i += 1
            elif p:
                out.append(('lit', p))
        return _merge(out)
    if isinstance(e, ast.Call) and is_name(e.func, 'str') and e.args:
        return [('hole', norm(e.args[0]))]
    return [('hole', norm(e))]


def _merge(parts):
    out = []
    for k, v in parts:
        if out and k == 'lit' and out[-1][0] == 'lit':
            out[-1] = ('lit', out[-1][1] + v)
        else:
            out.append((k, v))
    return out


def key_shape(t):
    """'exact' for name+'_'+number, 'variadic' for name+'_n', else None"""
    if len(t) == 3 and t[0][0] == 'hole' and t[1] == ('lit', '_') and t[2][0] == 'hole':
        return 'exact'
    if len(t) == 2 and t[0][0] == 'hole' and t[1] == ('lit', '_n'):
        return 'variadic'
    return None


def _is_ctx(f, e):
    """self.eval_context, or a local that is assigned self.eval_context and nothing else"""
    if is_self_attr(e, 'eval_context'):
        return True
    if isinstance(e, ast.Name):
        defs = [s for s in own_nodes(f.node) if isinstance(s, ast.Assign) and any(is_name(t, e.id) for t in s.targets)]
        return bool(defs) and all(is_self_attr(d.value, 'eval_context') for d in defs) and e.id not in f.params
    return False


def expand_locals(f, e, limit=16):
    """the expressions ``e`` can stand for when plain locals inside it are replaced by what they are assigned
    (every assignment of the local, both arms of a conditional expression): [expr, ...]"""
    import itertools as _it
    from .model import _clone
    params = set(f.all_params)

    def alts(x, depth=0):
        if isinstance(x, ast.IfExp) and depth < 4:
            return alts(x.body, depth + 1) + alts(x.orelse, depth + 1)
        if isinstance(x, ast.Name) and x.id not in params and depth < 4:
            # a module-level constant (bound once to a literal)
            mod = f.module
            if x.id in mod.assigns and isinstance(mod.assigns[x.id], ast.Constant) and len(mod.assign_nodes.get(x.id, [])) == 1 and \
                    not any(isinstance(s, ast.Assign) and any(is_name(t, x.id) for t in s.targets) for s in own_nodes(f.node)):
                return [mod.assigns[x.id]]
        if isinstance(x, ast.Name) and x.id not in params and depth < 4:
            defs = [s for s in own_nodes(f.node) if isinstance(s, ast.Assign) and any(is_name(t, x.id) for t in s.targets)]
            aug = [s for s in own_nodes(f.node) if isinstance(s, (ast.AugAssign, ast.For)) and x.id in {y.id for y in ast.walk(s.target) if isinstance(y, ast.Name)}]
            loops = [s for s in aug if isinstance(s, ast.For) and is_name(s.target, x.id) and isinstance(s.iter, (ast.Tuple, ast.List))]
            if not defs and aug and len(loops) == len(aug):
                # the variable of a loop over a literal sequence of expressions stands for each of them
                out = []
                for l in loops:
                    for el in l.iter.elts:
                        out.extend(alts(el, depth + 1))
                return out
            if defs and not aug:
                out = []
                for d in defs:
                    out.extend(alts(d.value, depth + 1))
                return out
        return [x]
    names = []
    for x in ast.walk(e):
        if isinstance(x, ast.Name) and isinstance(x.ctx, ast.Load) and x.id not in params and x.id not in names and len(alts(x)) >= 1 and alts(x) != [x]:
            names.append(x.id)
    if not names:
        return [e]
    choices = []
    for nm in names:
        choices.append(alts(ast.Name(id=nm, ctx=ast.Load())))
    out = []
    for combo in _it.islice(_it.product(*choices), limit):
        m = dict(zip(names, combo))

        class T(ast.NodeTransformer):
            def visit_Name(self, node):
                if isinstance(node.ctx, ast.Load) and node.id in m:
                    return _clone(m[node.id])
                return node
        out.append(T().visit(_clone(e)))
    return out


def key_templates(f, keyexpr):
    """every template a key expression can have (locals and conditional expressions expanded)"""
    out = []
    for ex in expand_locals(f, keyexpr):
        for ex2 in (expand_locals(f, ex) if ex is not keyexpr else [ex]):
            t = template(ex2)
            if t not in out:
                out.append(t)
    return out


def _touches_ctx(g):
    return any(isinstance(x, ast.Attribute) and x.attr == 'eval_context' for x in own_nodes(g.node))


def context_key_sites(em, include_inlined=False, views=None):
    """reads and writes of eval_context with a computed key: (func, node, 'read'|'write', key expr); functions are seen with
    their helpers pasted in (a key built by a helper is a key of its caller); a site that was pasted in from a helper which
    itself accesses the context is reported for that helper only, unless include_inlined"""
    out = []
    for f in (views if views is not None else [em.view(f0) for f0 in em.repo.all_functions(('engine',))]):
        for n in own_nodes_ordered(f.node):
            g = getattr(n, '_from', None)
            if g is not None and not include_inlined and _touches_ctx(g):
                continue
            if isinstance(n, ast.Subscript) and _is_ctx(f, n.value):
                kind = 'write' if isinstance(n.ctx, ast.Store) else 'read'
                if not isinstance(n.slice, ast.Constant):
                    out.append((f, n, kind, n.slice))
            elif isinstance(n, ast.Call) and isinstance(n.func, ast.Attribute) and n.func.attr in ('get', 'setdefault', 'pop') \
                    and _is_ctx(f, n.func.value) and n.args and not isinstance(n.args[0], ast.Constant):
                out.append((f, n, 'read' if n.func.attr == 'get' else 'write', n.args[0]))
    return out


def resolve_local_expr(f, e):
    """follow a plain local name to its single assignment"""
    seen = 0
    while isinstance(e, ast.Name) and seen < 4:
        defs = [s for s in own_nodes(f.node) if isinstance(s, ast.Assign) and any(is_name(t, e.id) for t in s.targets)]
        if len(defs) != 1:
            break
        e = defs[0].value
        seen += 1
    return e


def rule_key_templates(em, rep, rid, emitter_side=True):
    rep.rule(rid, 'every computed key under which a predicate is written to or read from the engine context is '
                  'name + "_" + <decimal arity> or name + "_n": register_function, query and the emitted "def" line '
                  'agree, the map (name, arity) -> key is injective, and a variadic key never equals a compiled one')
    sites = context_key_sites(em)
    q = _method(em, 'query')
    reg = _method(em, 'register_function')
    orig = lambda g: getattr(g, 'origin', g)
    n_ok = 0
    for f, n, kind, keyexpr in sites:
        if f.cls is not em.YP:
            continue
        for t in key_templates(f, keyexpr):
            if orig(f) not in (q, reg) and key_shape(t) is None and not any(k == 'lit' and '_' in v for k, v in t):
                continue        # a key that is merely passed through (e.g. the merge loop of a load)
            shape = key_shape(t)
            key = '%s:%s %s' % (f.qname, kind, norm(keyexpr))
            n_ok += 1
            if shape is None:
                rep.violation(rid, key, 'predicate key %s does not have the form name_<arity> / name_n shared by the other '
                              'readers and writers of the table' % t, f.loc(n))
                continue
            if shape == 'exact':
                num = t[2][1]
                okn = num.startswith('len(') or _is_int_local(f, num) or _int_at_call_sites(em, f, num)
                if not okn:
                    rep.violation(rid, key, 'the arity part {%s} of the key is not an integer expression' % num, f.loc(n))
                    continue
            name_hole = t[0][1]
            params = f.params[1:]
            if orig(f) in (q, reg) and name_hole != params[0]:
                rep.violation(rid, key, 'the name part {%s} of the key is not the predicate name parameter %s' % (name_hole, params[0]), f.loc(n))
                continue
            rep.ok(rid, key + (' [%s]' % shape if len(key_templates(f, keyexpr)) > 1 else ''),
                   '%s key %s' % (shape, ''.join(v if k == 'lit' else '{%s}' % v for k, v in t)), f.loc(n))
    rep.minimum('predicate-key sites in query/register_function', n_ok, 4)
    if emitter_side:
        # the "def" line of the function template (E5: the emitter abstractly interpreted, helpers inlined)
        from .templates import TemplateSet, Lit, Hole, Cat, Lines, IndentDoc, IntDoc, Repr, MapSub
        gen = em.repo.cls('yp_generator', 'YPPythonCodeGenerator')
        gf = gen.methods.get('generate_function')
        if gf is None:
            raise AnalysisError('anchor vanished: YPPythonCodeGenerator.generate_function')
        ts = getattr(em, '_templates', None) or TemplateSet(em.repo)
        em._templates = ts
        if 'generate_function' not in ts.methods:
            ts.methods['generate_function'] = ts.ex.template('generate_function')
        found = 0
        seen = set()
        for gs, doc, net in ts.methods['generate_function']:
            atoms = []

            def flat(d):
                if isinstance(d, Cat):
                    for x in d.parts:
                        flat(x)
                elif isinstance(d, Lines):
                    for k, x in enumerate(d.items):
                        if k:
                            atoms.append(('lit', d.sep))
                        flat(x)
                elif isinstance(d, Lit):
                    atoms.append(('lit', d.t))
                elif isinstance(d, (Hole, Repr)):
                    atoms.append(('hole', norm(d.expr)))
                elif isinstance(d, (IndentDoc,)):
                    atoms.append(('lit', ''))
                else:
                    atoms.append(('hole', repr(d)))
            flat(doc)
            atoms = _merge([a for a in atoms if not (a[0] == 'lit' and a[1] == '')])
            for k, (kind, v) in enumerate(atoms):
                if kind == 'lit' and re.search(r'(^|\n)\s*def ', v):
                    rest = [('lit', re.split(r'(?:^|\n)\s*def ', v)[-1])] + atoms[k + 1:]
                    sub = []
                    for k2, v2 in rest:
                        if k2 == 'lit' and '(' in v2:
                            if v2.split('(')[0]:
                                sub.append(('lit', v2.split('(')[0]))
                            break
                        if k2 == 'lit' and not v2:
                            continue
                        sub.append((k2, v2))
                    text = ''.join(v if k == 'lit' else '{%s}' % v for k, v in sub)
                    if text in seen:
                        continue
                    seen.add(text)
                    found += 1
                    key = '%s:%s' % (gf.qname, text)
                    if key_shape(sub) == 'exact' and sub[2][1].startswith('len('):
                        rep.ok(rid, key, 'emitted function name has the exact-key form', gf.loc())
                    else:
                        rep.violation(rid, key, 'the emitted "def" name is not name_<number of arguments>: compiled predicates '
                                      'are stored under a key that query() does not look up', gf.loc())
        rep.minimum('emitted def-name templates', found, 1)


def _int_at_call_sites(em, f, pname):
    """a parameter that every call site in the repository passes an integer expression for"""
    if pname not in f.params:
        return False
    sites = em.cg.call_sites_of(f)
    if not sites:
        return False
    for g, call in sites:
        a = arg_for_param(call, f, pname)
        if a is None:
            return False
        t = norm(a)
        if not (t.startswith('len(') or (isinstance(a, ast.Constant) and isinstance(a.value, int)) or
                (isinstance(a, ast.Name) and (_is_int_local(g, a.id) or _int_at_call_sites(em, g, a.id)))):
            return False
    return True


def _is_int_local(f, name):
    """a parameter/local that the function compares with an integer or assigns from len()/int"""
    for n in own_nodes(f.node):
        if isinstance(n, ast.Compare) and is_name(n.left, name) and any(isinstance(c, ast.Constant) and isinstance(c.value, int) for c in n.comparators):
            return True
        if isinstance(n, ast.Assign) and any(is_name(t, name) for t in n.targets) and isinstance(n.value, ast.Call) and is_name(n.value.func, 'len'):
            return True
    return False


# ---------------------------------------------------------------------------------------------
# C08


def rule_facts_first(em, rep, rid):
    rep.rule(rid, 'in query() the delegation to the dynamic-fact matcher dominates the call of a looked-up definition')
    q = _method_view(em, 'query')
    cfg = em.cfg(q)
    dyn = [n for n in cfg.nodes if n.kind in ('yieldfrom', 'fornext') and 'match_dynamic' in norm(n.ast)]
    calls = [n for n in cfg.nodes if n.kind == 'call' and isinstance(n.ast.func, ast.Name) and
             any(isinstance(a, ast.Starred) for a in n.ast.args) and em.is_binder_call(q, n.ast)]
    rep.minimum('calls of a looked-up definition in query()', len(calls), 1)
    if not dyn:
        rep.violation(rid, q.qname + ':match_dynamic', 'query() does not enumerate the dynamic facts', q.loc())
        return
    dom = cfg.g.dominators(cfg.entry)
    # the facts of every name are enumerated: no path ends query() (returns or falls off) without having passed the
    # enumeration - a test on the name in front of it (reserved names, "is it defined") would hide dynamic facts
    skip = cfg.g.find_path(cfg.entry, lambda m: m.kind == 'return' or (m.kind == 'exit' and m.info in ('fall', 'return')),
                           avoid=lambda m: m in dyn, edge_ok=lambda lbl, a, b: lbl not in ('exc', 'throw', 'close'))
    if skip is not None:
        rep.violation(rid, q.qname + ':match_dynamic:always', 'query() can finish without having enumerated the dynamic facts: for some '
                      'names (those a test in front of the enumeration excludes) asserted facts are stored and retracted but never '
                      'found by a call', q.loc(dyn[0].stmt), cfg.describe_path(skip))
    else:
        rep.ok(rid, q.qname + ':match_dynamic:always', 'every finishing path has enumerated the dynamic facts', q.loc(dyn[0].stmt))
    for c in calls:
        key = '%s:%s' % (q.qname, norm(c.ast))
        if any(d in dom[c] for d in dyn):
            rep.ok(rid, key, 'dynamic facts are enumerated before the definition is called', q.loc(c.stmt))
        else:
            rep.violation(rid, key, 'a definition may be called before (or without) the dynamic facts of the same predicate', q.loc(c.stmt))


def rule_exact_then_variadic(em, rep, rid):
    rep.rule(rid, 'in query() the variadic key name_n is consulted only as the default of the exact lookup name_<arity> '
                  '(nested get, conditional expression, or a second lookup guarded by the failure of the first)')
    q = _method_view(em, 'query')
    sites = [(n, key_templates(q, k)) for f, n, kind, k in context_key_sites(em, include_inlined=True, views=[q]) if kind == 'read']
    exact = [n for n, ts in sites if ts and all(key_shape(t) == 'exact' for t in ts)]
    var = [n for n, ts in sites if any(key_shape(t) == 'variadic' for t in ts)]
    key = q.qname + ':lookup'
    if not exact:
        rep.violation(rid, key, 'query() never looks up the exact-arity key', q.loc())
        return
    if not var:
        rep.ok(rid, key, 'no variadic lookup at all (exact only)', q.loc(exact[0]), nontrivial=False)
        rep.note(rid, 'query() has no variadic fallback')
        return
    for v in var:
        ok = False
        why = ''
        # (a) default argument of an exact get
        for e in exact:
            if isinstance(e, ast.Call) and len(e.args) > 1 and any(x is v for x in ast.walk(e.args[1])):
                ok, why = True, 'default of the exact get'
            # ... through a local that holds nothing but the variadic lookup
            if isinstance(e, ast.Call) and len(e.args) > 1 and isinstance(e.args[1], ast.Name):
                defs = [s for s in own_nodes(q.node) if isinstance(s, ast.Assign) and any(is_name(t, e.args[1].id) for t in s.targets)]
                uses = [x for x in own_nodes(q.node) if is_name(x, e.args[1].id) and isinstance(x.ctx, ast.Load)]
                if len(defs) == 1 and defs[0].value is v and len(uses) == 1:
                    ok, why = True, 'default of the exact get (through the local %s)' % e.args[1].id
        # (b) orelse of a conditional on the exact key / guarded statement
        if not ok:
            for p in parents(v):
                if isinstance(p, ast.IfExp) and any(x is v for x in ast.walk(p.orelse)) and any(
                        any(y is e for y in ast.walk(p.body)) or _mentions_key(p.test, e) for e in exact):
                    ok, why = True, 'else-branch of a conditional on the exact key'
                if isinstance(p, ast.If):
                    names = {t.id for s in own_nodes(q.node) if isinstance(s, ast.Assign) and any(s.value is e or any(y is e for y in ast.walk(s.value)) for e in exact)
                             for t in s.targets if isinstance(t, ast.Name)}
                    tnames = {x.id for x in ast.walk(p.test) if isinstance(x, ast.Name)}
                    in_body = any(x is v for s in p.body for x in ast.walk(s))
                    if in_body and (names & tnames) and _tests_absence(p.test):
                        ok, why = True, 'guarded by the failure of the exact lookup'
                    # ... or by "is <the marker the exact get returns when the key is absent>"
                    t_ = p.test
                    if in_body and isinstance(t_, ast.Compare) and len(t_.ops) == 1 and isinstance(t_.ops[0], ast.Is) and \
                            is_name(t_.left) and t_.left.id in names and is_name(t_.comparators[0]) and any(
                                isinstance(e, ast.Call) and len(e.args) > 1 and is_name(e.args[1], t_.comparators[0].id) for e in exact):
                        ok, why = True, 'guarded by the exact lookup having returned its "absent" marker'
                if isinstance(p, ast.BoolOp) and isinstance(p.op, ast.Or):
                    idx = [i for i, x in enumerate(p.values) if any(y is v for y in ast.walk(x))]
                    idx_e = [i for i, x in enumerate(p.values) if any(y is e for e in exact for y in ast.walk(x))]
                    if idx and idx_e and min(idx_e) < min(idx):
                        ok, why = True, 'right operand of "or" after the exact lookup'
        k2 = '%s:%s' % (q.qname, norm(v))
        if ok:
            rep.ok(rid, k2, why, q.loc(v))
        else:
            rep.violation(rid, k2, 'the variadic definition is not subordinate to the exact one: a predicate registered for '
                          'exactly N arguments can be shadowed by a variadic registration of the same name', q.loc(v))


def _mentions_key(test, e):
    k = norm(e.args[0]) if isinstance(e, ast.Call) and e.args else norm(e.slice) if isinstance(e, ast.Subscript) else ''
    return k and k in norm(test)


def _tests_absence(test):
    t = norm(test)
    return ' is None' in t or t.startswith('not ') or ' not in ' in t


def rule_no_engine_exception(em, rep, rid, funcs, raises=None):
    """D3 / Q4"""
    rep.rule(rid, 'no exception class raised by an explicit raise statement of the engine can leave the listed entry '
                  'points (call graph + handlers), and subscript loads on the engine\'s dictionaries are guarded')
    raises = raises or Raises(em)
    for f in funcs:
        esc = raises.raises.get(f, {})
        key = f.qname
        bad = {c: o for c, o in esc.items() if c not in ('StopIteration', 'GeneratorExit')}
        if bad:
            for c, origin in sorted(bad.items()):
                rep.violation(rid, '%s:%s' % (key, c), 'an engine exception %s can escape from %s (raised at %s): the goal raises '
                              'instead of failing' % (c, f.name, origin), f.loc())
        else:
            rep.ok(rid, key, 'no explicit raise escapes', f.loc())
    return raises


def rule_guarded_subscripts(em, rep, rid, fields=('_predicates_store', 'eval_context', '_atom_store')):
    rep.rule(rid, 'every subscript load on an engine dictionary is inside try/except KeyError, follows a setdefault of the '
                  'same key, or is dominated by a membership test')
    count = 0
    for f in em.repo.all_functions(('engine',)):
        for n in own_nodes_ordered(f.node):
            if isinstance(n, ast.Subscript) and isinstance(n.ctx, ast.Load) and isinstance(n.value, ast.Attribute) \
                    and n.value.attr in fields and is_name(n.value.value, 'self'):
                count += 1
                key = '%s:%s' % (f.qname, norm(n))
                ok = None
                mt = ExcMatcher(em.repo, f)
                child = n
                for p in parents(n):
                    if isinstance(p, (ast.FunctionDef, ast.Lambda)):
                        break
                    if isinstance(p, ast.Try) and any(child is s or any(x is child for x in ast.walk(s)) for s in p.body):
                        if any(mt.match('KeyError', h) == 'yes' for h in p.handlers):
                            ok = 'try/except KeyError'
                    if isinstance(p, ast.If) and norm(n.slice) in norm(p.test) and ' in ' in norm(p.test) and ' not in ' not in norm(p.test) \
                            and any(child is s or any(x is child for x in ast.walk(s)) for s in p.body):
                        ok = 'membership test'
                    child = p
                if ok is None:
                    for s in own_nodes_ordered(f.node):
                        if isinstance(s, ast.Call) and isinstance(s.func, ast.Attribute) and s.func.attr == 'setdefault' and \
                                norm(s.func.value) == norm(n.value) and s.args and norm(s.args[0]) == norm(n.slice) and s.lineno <= n.lineno:
                            ok = 'setdefault of the same key before'
                if ok is None:
                    # statements that run before the load on every path: a store of the key, or "if key not in d: d[key] = .."
                    def stores(st):
                        return isinstance(st, ast.Assign) and any(isinstance(t, ast.Subscript) and norm(t.value) == norm(n.value) and
                                                                  norm(t.slice) == norm(n.slice) for t in st.targets)
                    child = n
                    for p in parents(n):
                        if isinstance(p, (ast.FunctionDef, ast.Lambda)) and child not in getattr(p, 'body', []):
                            break
                        for fld in ('body', 'orelse', 'finalbody'):
                            body = getattr(p, fld, None)
                            if isinstance(body, list) and any(child is b for b in body):
                                for st in body[:[i for i, b in enumerate(body) if b is child][0]]:
                                    if stores(st):
                                        ok = 'the key is stored just before'
                                    if isinstance(st, ast.If) and not st.orelse and isinstance(st.test, ast.Compare) and \
                                            len(st.test.ops) == 1 and isinstance(st.test.ops[0], ast.NotIn) and \
                                            norm(st.test.left) == norm(n.slice) and norm(st.test.comparators[0]) == norm(n.value) and \
                                            any(stores(x) for x in st.body):
                                        ok = 'the key is added when absent just before'
                        if isinstance(p, ast.FunctionDef):
                            break
                        child = p
                if ok:
                    rep.ok(rid, key, ok, f.loc(n))
                else:
                    rep.violation(rid, key, 'an absent key raises KeyError here', f.loc(n))
    rep.minimum('subscript loads on engine dictionaries', count, 1)


def value_origins(em, f, e, depth=0, seen=None):
    """where a value comes from: 'ctx' (read from self.eval_context), 'new' (an element of a mapping/sequence that is not the
    engine context: a loop over the loaded script's names), 'param', 'other' - following locals, tuple-unpacking loop
    targets and the tuples a generator helper yields"""
    seen = seen if seen is not None else set()
    out = set()
    if depth > 6:
        return {'other'}
    if isinstance(e, ast.Call) and isinstance(e.func, ast.Attribute) and e.func.attr in ('get', 'pop', 'setdefault') and _is_ctx(f, e.func.value):
        return {'ctx'}
    if isinstance(e, ast.Subscript) and _is_ctx(f, e.value):
        return {'ctx'}
    if isinstance(e, ast.Name):
        key = (f.qname, e.id)
        if key in seen:
            return set()
        seen.add(key)
        if e.id in f.all_params:
            return {'param'}
        for s in own_nodes(f.node):
            if isinstance(s, ast.Assign) and any(is_name(t, e.id) for t in s.targets):
                out |= value_origins(em, f, s.value, depth + 1, seen)
            if isinstance(s, (ast.For, ast.comprehension)):
                tg = s.target
                elts = tg.elts if isinstance(tg, (ast.Tuple, ast.List)) else [tg]
                for i, t in enumerate(elts):
                    if not is_name(t, e.id):
                        continue
                    it = s.iter
                    # a generator helper of the same class: the i-th component of what it yields
                    callee = None
                    if isinstance(it, ast.Call) and is_self_attr(it.func) and f.cls is not None:
                        callee = em.repo.lookup_method(f.cls, it.func.attr)
                    if callee is not None and callee.is_generator:
                        for y in own_nodes(callee.node):
                            if isinstance(y, ast.Yield) and y.value is not None:
                                comp = y.value.elts[i] if isinstance(y.value, (ast.Tuple, ast.List)) and i < len(y.value.elts) else y.value
                                out |= value_origins(em, callee, comp, depth + 1, seen)
                    elif _is_ctx(f, it) or (isinstance(it, ast.Call) and isinstance(it.func, ast.Attribute) and _is_ctx(f, it.func.value)):
                        out.add('ctx')
                    else:
                        out.add('new')
        return out or {'other'}
    if isinstance(e, (ast.Constant,)):
        return {'other'}
    for c in ast.iter_child_nodes(e):
        if isinstance(c, ast.expr):
            out |= value_origins(em, f, c, depth + 1, seen)
    return out or {'other'}


def rule_combine_order(em, rep, rid):
    rep.rule(rid, 'the non-overwrite branch of load_script_from_string passes (existing definition, new definition) in '
                  'that order to the chaining helper; the helper runs its parameters in order, each called separately')
    f0 = _method(em, 'load_script_from_string')
    helper = em.engine.functions.get('chain_functions')
    # the call may sit in a helper method of the load function
    sites = []
    for g in em.cg.reachable([f0], with_refs=False, include_nested=False):
        if g.cls is em.YP or g is f0:
            sites += [(g, n) for n, cs in em.cg.calls.get(g, ()) if helper is not None and helper in cs]
    if helper is not None and not sites:
        # ... or in a module-level function that is handed the engine: seen in the view of the load function, where the
        # helper's body stands in place of its call (its engine parameter is ``self`` there)
        fv = em.view(f0, keep=(helper,))
        sites = [(fv, n) for n in own_nodes_ordered(fv.node) if isinstance(n, ast.Call) and is_name(n.func, helper.name)]
    if helper is None or not sites:
        rep.violation(rid, f0.qname + ':combine', 'no call to a chaining helper on the non-overwrite path: definitions cannot be combined', f0.loc())
        return
    for f, c in sites:
        loopvars = set(f.params[1:]) if f is not f0 else set()
        for s in own_nodes(f.node):
            if isinstance(s, ast.For):
                loopvars |= {x.id for x in ast.walk(s.target) if isinstance(x, ast.Name)}
        key = '%s:%s' % (f.qname, norm(c))
        if any(isinstance(a, ast.Starred) for a in c.args):
            rep.note(rid, 'the chaining helper is called with a sequence of definitions (%s): their order is not decided here' % norm(c), f.loc(c))
            continue
        if len(c.args) != 2:
            rep.violation(rid, key, 'chaining helper is not called with (old, new)', f.loc(c))
            continue
        o0, o1 = value_origins(em, f, c.args[0]), value_origins(em, f, c.args[1])
        old_first = 'ctx' in o0 and 'new' not in o0 and 'ctx' not in o1
        new_second = bool(o1 & {'new', 'param'}) and 'ctx' not in o1
        if old_first and new_second:
            rep.ok(rid, key, 'existing definition first, loaded definition second', f.loc(c))
        else:
            rep.violation(rid, key, 'the loaded definition is placed before (or instead of) the existing one: answers of '
                          'combined definitions come in the wrong order', f.loc(c))
    # helper order
    ps = helper.params
    key = helper.qname + ':order'
    ok = None
    for n in own_nodes_ordered(helper.node):
        if isinstance(n, (ast.List, ast.Tuple)) and len(n.elts) == 2 and all(isinstance(e, ast.Name) for e in n.elts):
            ids = [e.id for e in n.elts]
            if set(ids) == set(ps[:2]):
                ok = ids == ps[:2]
    src = norm(helper.node)
    if ok is None and len(ps) < 2 and helper.node.args.vararg is not None:
        ok = True           # the definitions arrive as one sequence and are run in that order (unless reversed, below)
    if ok is None and len(ps) >= 2:
        # sequential delegation
        pos = [src.find('%s(' % p) for p in ps[:2]]
        if all(x >= 0 for x in pos):
            ok = pos[0] < pos[1]
    if ok is None:
        raise AnalysisError('chaining helper %s has an unrecognised shape' % helper.qname)
    if any(w in src for w in ('reversed(', '.reverse(', '[::-1]', 'sorted(', '.sort(')):
        ok = False
    if ok:
        rep.ok(rid, key, 'helper iterates its parameters in order', helper.loc())
    else:
        rep.violation(rid, key, 'the chaining helper runs the second definition before the first', helper.loc())
    # each definition called separately: f(*args) per definition inside the nested function
    nested = list(helper.nested.values())
    sep = any(isinstance(x, ast.Call) and any(isinstance(a, ast.Starred) for a in x.args)
              for nf in nested for x in ast.walk(nf.node))
    if sep:
        rep.ok(rid, helper.qname + ':separate', 'each definition is called as its own generator (its cuts stay local)', helper.loc())
    else:
        rep.violation(rid, helper.qname + ':separate', 'combined definitions are not called as separate generators', helper.loc())


def self_writers(em):
    """methods of the engine class that write engine state, directly or through the self methods they call"""
    direct = set()
    for m in em.YP.methods.values():
        for n in own_nodes(m.node):
            if isinstance(n, (ast.Attribute, ast.Subscript)) and isinstance(n.ctx, (ast.Store, ast.Del)) and norm(n).startswith('self.'):
                direct.add(m)
            if isinstance(n, ast.Call) and isinstance(n.func, ast.Attribute) and norm(n.func.value).startswith('self.') and \
                    n.func.attr in ('update', 'setdefault', 'pop', 'clear', 'append', 'insert', 'remove', 'extend', 'add', 'discard'):
                direct.add(m)
    out = set(direct)
    changed = True
    while changed:
        changed = False
        for m in em.YP.methods.values():
            if m in out:
                continue
            for n, cs in em.cg.calls.get(m, ()):
                if is_self_attr(n.func) and any(c in out for c in cs):
                    out.add(m)
                    changed = True
                    break
    return out


def rule_atomic_load(em, rep, rid):
    rep.rule(rid, 'compile() and exec() of a script run on a copy of the context and dominate the first write to engine '
                  'state; the merge that follows contains no call that can raise on bad input')
    f = _method(em, 'load_script_from_string')
    cfg = em.cfg(f)
    execs = [n for n in cfg.nodes if n.kind == 'call' and is_name(n.ast.func, 'exec')]
    key = f.qname + ':exec'
    if not execs:
        raise AnalysisError('anchor vanished: no exec() in load_script_from_string')
    writers = self_writers(em)
    writes = [n for n in cfg.nodes if (n.kind == 'store' and 'self.' in norm(n.ast)) or
              (n.kind == 'call' and isinstance(n.ast.func, ast.Attribute) and n.ast.func.attr in ('update', 'setdefault', 'pop', 'clear', '__setitem__')
               and norm(n.ast.func.value).startswith('self.')) or
              (n.kind == 'call' and is_self_attr(n.ast.func) and em.repo.lookup_method(em.YP, n.ast.func.attr) in writers)]
    dom = cfg.g.dominators(cfg.entry)
    for e in execs:
        g = e.ast.args[1] if len(e.ast.args) > 1 else None
        if g is None or norm(g).startswith('self.'):
            rep.violation(rid, key, 'the script is executed directly in the engine\'s live context: a script that raises half '
                          'way leaves its first definitions behind', f.loc(e.stmt))
            continue
        gdef = resolve_local_expr(f, g)
        if not (isinstance(gdef, ast.Call) and (norm(gdef.func).endswith('.copy') or is_name(gdef.func, 'dict'))):
            rep.violation(rid, key, 'the globals given to exec (%s) are not a copy of the context' % norm(gdef), f.loc(e.stmt))
            continue
        early = [w for w in writes if e not in dom[w]]
        if early:
            rep.violation(rid, key, 'engine state is written (%s) before the script has been executed successfully' % norm(early[0].stmt), f.loc(early[0].stmt))
            continue
        rep.ok(rid, key, 'exec on a copy dominates all %d write(s) to engine state' % len(writes), f.loc(e.stmt))
    # calls after the first write
    if writes:
        first = writes[0]
        after = cfg.g.reach([first], include_starts=True, edge_ok=lambda lbl, a, b: lbl not in ('exc',))
        risky = [n for n in after if n.kind == 'call' and (is_name(n.ast.func, 'exec') or is_name(n.ast.func, 'compile') or is_name(n.ast.func, 'eval'))]
        if risky:
            rep.violation(rid, f.qname + ':merge', 'a call that can raise on bad input (%s) follows a write to engine state' % norm(risky[0].ast), f.loc(risky[0].stmt))
        else:
            rep.ok(rid, f.qname + ':merge', 'no compile/exec after the first write', f.loc(first.stmt))


def rule_api_unreachable(em, rep, rid):
    rep.rule(rid, 'no key of the default context literal has the form name_<digits> or name_n, or the black-list test '
                  'dominates the lookup in query()')
    keys = context_literal_keys(em)
    rep.minimum('keys of the default engine context', len(keys), 12)
    collide = [k for k in keys if re.fullmatch(r'.+_([0-9]+|n)', k)]
    q = _method_view(em, 'query')
    cfg = em.cfg(q)
    dom = cfg.g.dominators(cfg.entry)
    calls = [n for n in cfg.nodes if n.kind == 'call' and isinstance(n.ast.func, ast.Name) and any(isinstance(a, ast.Starred) for a in n.ast.args)]
    guarded = True
    for c in calls:
        tests = [t for t in dom[c] if t.kind == 'test' and 'blacklist' in norm(t.ast)]
        if not tests:
            guarded = False
    key = q.qname + ':api-names'
    if collide and not guarded:
        rep.violation(rid, key, 'API entries %s are addressable as predicates (key format collision) and no black-list test '
                      'guards the lookup' % collide, q.loc())
    else:
        rep.ok(rid, key, '%d context keys, %d of predicate-key form, black-list guard=%s' % (len(keys), len(collide), guarded), q.loc())
    # the black list, if used, must be the key list of the default context
    return keys


def rule_checked_name_is_looked_up(em, rep, rid):
    rep.rule(rid, 'in query() the predicate name that is tested against the reserved names is the very value the lookup keys are '
                  'built from (the parameter itself or plain copies of it, also when handed to a helper - no slicing, splitting, '
                  'stripping or mapping in between), and a key without an arity suffix is never looked up: otherwise a name that '
                  'passes the test can be turned into the name of an API function afterwards')
    q = _method_view(em, 'query')
    params = q.params[1:]
    if not params:
        raise AnalysisError('anchor vanished: parameters of YP.query')
    pname = params[0]

    def plain_origin(f, name, seen=None):
        """the parameter of f a local is a plain copy of, '' for a value computed from something, None when undecided"""
        seen = seen if seen is not None else set()
        stores = [x for x in own_nodes(f.node) if isinstance(x, ast.Name) and x.id == name and isinstance(x.ctx, ast.Store)]
        if name in f.all_params:
            return name if not stores else ''
        if name in seen:
            return None
        seen.add(name)
        defs = [s_ for s_ in own_nodes(f.node) if isinstance(s_, ast.Assign) and any(is_name(t, name) for t in s_.targets)]
        if not defs or len(defs) != len(stores):
            return None
        outs = {plain_origin(f, d.value.id, seen) if isinstance(d.value, ast.Name) else '' for d in defs}
        return outs.pop() if len(outs) == 1 else ''
    # functions that look names up: query itself (helpers pasted in) and the helpers that could not be pasted in, with the
    # parameter that receives query's name
    work = [(q, pname)]
    for c, cs in em.cg.calls.get(q.origin if hasattr(q, 'origin') else q, ()):
        for h in cs:
            if h.module.name != 'engine' or h.is_generator or h in getattr(q, 'inlined', ()) or h.name == 'match_dynamic':
                continue
            hp = h.params[1:] if h.is_method else h.params
            for p_ in hp:
                a = arg_for_param(c, h, p_)
                if is_name(a) and plain_origin(q, a.id) == pname:
                    work.append((em.view(h), p_))
    total = 0
    for f, nm in work:
        sites = [(n, k) for _, n, kind, k in context_key_sites(em, include_inlined=True, views=[f]) if kind == 'read']
        total += len(sites)
        for n, k in sites:
            key = '%s:%s' % (f.qname, norm(n)[:50])
            problems = []
            for ex in expand_locals(f, k):
                for x in [y for y in ast.walk(ex) if isinstance(y, ast.Name) and isinstance(y.ctx, ast.Load)]:
                    par = getattr(x, '_parent', None)
                    if isinstance(par, ast.Call) and par.func is x:
                        continue
                    if plain_origin(f, x.id) == '' and any(plain_origin(f, z.id) in (nm, '') for z in ast.walk(ex) if isinstance(z, ast.Name)):
                        problems.append('the key %s is built from %s, a value computed from the name after it was tested against the '
                                        'reserved names - not the name that was tested' % (norm(ex)[:40], x.id))
                if isinstance(ex, ast.Name) and plain_origin(f, ex.id) in (nm, ''):
                    problems.append('the bare name is looked up (%s), without an arity suffix: an API function of that name is found '
                                    'when the reserved-name test was made on another spelling' % ex.id)
            if problems:
                rep.violation(rid, key, problems[0], f.loc(n))
            else:
                rep.ok(rid, key, 'keys are built from the tested name itself, with an arity suffix', f.loc(n))
    rep.minimum('context lookups on behalf of query()', total, 1)


def context_literal_keys(em):
    # by role: the methods of the engine class that bind self.eval_context (the set-up helper first, the constructor last)
    cands = [m for m in em.YP.methods.values() if m.name not in ('__init__', 'clear') and
             any(isinstance(n, ast.Assign) and any(is_self_attr(t, 'eval_context') for t in n.targets) for n in own_nodes(m.node))]
    init = _method(em, '__init__')
    called = {c for _, cs in em.cg.calls.get(init, ()) for c in cs}
    cands = [m for m in cands if m in called] + [m for m in cands if m not in called]
    cands.append(init)
    for c in cands:
        for n in own_nodes_ordered(c.node):
            if isinstance(n, ast.Assign) and any(is_self_attr(t, 'eval_context') for t in n.targets) and isinstance(n.value, ast.Dict):
                keys = []
                for k in n.value.keys:
                    if not (isinstance(k, ast.Constant) and isinstance(k.value, str)):
                        keys = None         # computed keys / ** of another mapping: the set-up is evaluated instead (below)
                        break
                    keys.append(k.value)
                if keys is None:
                    continue
                em._context_literal = n.value
                return keys
    lit = _context_by_evaluation(em, cands)
    if lit is not None:
        em._context_literal = lit
        return [k.value for k in lit.keys]
    raise AnalysisError('anchor vanished: the default eval_context literal')


def _context_by_evaluation(em, cands):
    """the default context is not spelled as one literal (built from a table, filled in a loop): the set-up method is
    evaluated by the checker and the resulting mapping is written back as the literal it abbreviates"""
    from .symex import SymEx, PathState, DictV, Const, Sym, SelfV, New, ListV
    for c in cands:
        if not any(isinstance(n, ast.Attribute) and isinstance(n.ctx, ast.Store) and is_self_attr(n, 'eval_context') for n in own_nodes(c.node)):
            continue
        sx = SymEx(em.repo, inline=lambda g: g.module.name == 'engine' and g.name != 'register_function', max_depth=3)
        sx.max_steps = 20000
        try:
            outs = sx.run(c, [Sym(p) for p in c.params[1:]], PathState())
        except (AnalysisError, RecursionError):
            continue
        if len(outs) != 1:
            continue
        d = outs[0][0].fields.get('eval_context')
        if not isinstance(d, DictV) or not all(isinstance(k, Const) and isinstance(k.v, str) for k, _ in d.pairs):
            continue

        def conv(v):
            if isinstance(v, tuple) and v and v[0] == 'bound' and isinstance(v[2], SelfV):
                return ast.Attribute(value=ast.Name(id='self', ctx=ast.Load()), attr=v[1].name, ctx=ast.Load())
            if isinstance(v, tuple) and v and v[0] == 'func':
                return ast.Name(id=v[1].name, ctx=ast.Load())
            if isinstance(v, tuple) and v and v[0] == 'class':
                return ast.Name(id=v[1].name, ctx=ast.Load())
            if isinstance(v, Const):
                return ast.Constant(value=v.v)
            if isinstance(v, DictV):
                return ast.Dict(keys=[ast.Constant(value=k.v) if isinstance(k, Const) else ast.Name(id='_k', ctx=ast.Load()) for k, _ in v.pairs],
                                values=[conv(x) for _, x in v.pairs])
            if isinstance(v, ListV):
                return ast.List(elts=[conv(x) for x in v.items], ctx=ast.Load())
            if isinstance(v, Sym) and v.path.startswith('self.') and v.path.count('.') == 1:
                return ast.Attribute(value=ast.Name(id='self', ctx=ast.Load()), attr=v.path[5:], ctx=ast.Load())
            if isinstance(v, New):
                return ast.Call(func=ast.Name(id=v.cls.name, ctx=ast.Load()), args=[conv(a) for a in v.args], keywords=[])
            return ast.Name(id='_computed_%s' % type(v).__name__, ctx=ast.Load())
        lit = ast.Dict(keys=[ast.Constant(value=k.v) for k, _ in d.pairs], values=[conv(v) for _, v in d.pairs])
        ast.copy_location(lit, c.node)
        for n in ast.walk(lit):
            ast.copy_location(n, c.node)
        ast.fix_missing_locations(lit)
        return lit
    return None


# ---------------------------------------------------------------------------------------------
# C20


def user_generator_sites(em):
    """consumption sites of generators that may be user supplied: loops / comprehensions /
    delegations over query(), call(), a looked-up function"""
    out = []
    for f in em.repo.all_functions(('engine',)):
        for call, callees in em.cg.calls.get(f, ()):
            names = {c.name for c in callees}
            dynamic = isinstance(call.func, ast.Name) and em.is_binder_call(f, call) and not callees
            nested_dyn = f.parent is not None and any(isinstance(a, ast.Starred) for a in call.args) and isinstance(call.func, ast.Name) and not callees
            if names & {'query', 'call', 'once'} or dynamic or nested_dyn:
                out.append((f, call))
    return out


def rule_values_never_inspected(em, rep, rid):
    rep.rule(rid, 'the value a predicate yields is never read: the target of every loop/comprehension over query(), call() '
                  'or a looked-up function is unused (or yielded on unchanged)')
    sites = user_generator_sites(em)
    rep.minimum('consumption sites of possibly user-supplied generators', len(sites), 4)
    for f, call in sites:
        key = '%s:%s' % (f.qname, norm(call))
        p = getattr(call, '_parent', None)
        target = None
        scope = None
        if isinstance(p, ast.For) and p.iter is call:
            target, scope = p.target, p.body
        elif isinstance(p, ast.comprehension) and p.iter is call:
            comp = p._parent
            target = p.target
            scope = [comp.elt] if hasattr(comp, 'elt') else [comp.key, comp.value]
            scope = scope + list(p.ifs)
        elif isinstance(p, ast.Assign) and isinstance(p.targets[0], ast.Name):
            # q = self.call(goal): look at consumers of q
            qn = p.targets[0].id
            bad = None
            for n in own_nodes_ordered(f.node):
                if isinstance(n, ast.For) and is_name(n.iter, qn):
                    r = _target_read(n.target, n.body)
                    if r:
                        bad = r
                if isinstance(n, ast.comprehension) and is_name(n.iter, qn):
                    comp = n._parent
                    sc = ([comp.elt] if hasattr(comp, 'elt') else [comp.key, comp.value]) + list(n.ifs)
                    r = _target_read(n.target, sc)
                    if r:
                        bad = r
                if isinstance(n, ast.Call) and is_name(n.func, 'next') and n.args and is_name(n.args[0], qn):
                    pp = getattr(n, '_parent', None)
                    if isinstance(pp, ast.Assign) and len(pp.targets) == 1 and isinstance(pp.targets[0], ast.Name):
                        r = _target_read(pp.targets[0], [s for s in f.node.body])
                        if r is not None:
                            bad = r
                    elif not isinstance(pp, (ast.Yield, ast.Expr)):
                        bad = n
            if bad is not None:
                rep.violation(rid, key, 'the value yielded by a predicate is inspected (%s): yield True and yield False would '
                              'behave differently' % norm(bad), f.loc(bad))
            else:
                rep.ok(rid, key, 'consumers of %s never read the yielded value' % qn, f.loc(call))
            continue
        else:
            rep.ok(rid, key, 'delegated/returned unchanged', f.loc(call), nontrivial=isinstance(p, (ast.YieldFrom, ast.Return, ast.Starred, ast.ListComp)))
            continue
        r = _target_read(target, scope)
        if r is not None:
            rep.violation(rid, key, 'the value yielded by a predicate is inspected (%s): yield True and yield False would '
                          'behave differently' % norm(r), f.loc(r))
        else:
            rep.ok(rid, key, 'loop target %s is never read' % norm(target), f.loc(call))


def _target_read(target, scope):
    names = {x.id for x in ast.walk(target) if isinstance(x, ast.Name)}
    for s in scope:
        for x in ast.walk(s):
            if isinstance(x, ast.Name) and isinstance(x.ctx, ast.Load) and x.id in names:
                p = getattr(x, '_parent', None)
                if isinstance(p, ast.Yield) and p.value is x:
                    continue
                return p if p is not None else x
    return None


def query_path(em):
    q = _method(em, 'query')
    fam = em.binder_family()
    out = [f for f in em.cg.reachable([q] + [b['func'] for b in em.builtins() if b['func'] is not None], with_refs=True)
           if f.module.name == 'engine' and (f in fam or f.is_generator)]
    helper = em.engine.functions.get('chain_functions')
    if helper is not None:
        out += [helper] + list(helper.nested.values())
    return out


def rule_exception_transparent(em, rep, rid):
    rep.rule(rid, 'on the query path no try with an except clause (other than one for StopIteration around next()) encloses '
                  'a loop, delegation or next() over a generator that may be user supplied')
    sites = user_generator_sites(em)
    qp = set(query_path(em))
    n = 0
    for f, call in sites:
        if f not in qp:
            continue
        n += 1
        key = '%s:%s' % (f.qname, norm(call))
        consumers = [call]
        p = getattr(call, '_parent', None)
        if isinstance(p, ast.Assign) and isinstance(p.targets[0], ast.Name):
            qn = p.targets[0].id
            for x in own_nodes_ordered(f.node):
                if isinstance(x, (ast.For, ast.comprehension)) and is_name(x.iter, qn):
                    consumers.append(x if isinstance(x, ast.For) else x._parent)
                if isinstance(x, ast.Call) and is_name(x.func, 'next') and x.args and is_name(x.args[0], qn):
                    consumers.append(x)
                if isinstance(x, ast.YieldFrom) and is_name(x.value, qn):
                    consumers.append(x)
        elif isinstance(p, ast.For):
            consumers.append(p)
        bad = None
        for c in consumers:
            child = c
            for pp in parents(c):
                if isinstance(pp, (ast.FunctionDef, ast.Lambda)):
                    break
                if isinstance(pp, ast.Try) and pp.handlers and any(child is s or any(y is child for y in ast.walk(s)) for s in pp.body):
                    for h in pp.handlers:
                        hn = ExcMatcher(em.repo, f).handler_names(h)
                        if set(hn) <= {'StopIteration'}:
                            continue
                        if any(isinstance(s, ast.Raise) and s.exc is None for s in h.body) and len(h.body) <= 3 and \
                                isinstance(h.body[-1], ast.Raise):
                            continue      # cleanup-and-re-raise is transparent
                        bad = h
                child = pp
        if bad is not None:
            rep.violation(rid, key, 'a handler (except %s) sits between a predicate and the consumer of the query: an exception '
                          'raised inside a Python predicate does not reach the caller unchanged' % (norm(bad.type) if bad.type else ''), f.loc(bad))
        else:
            rep.ok(rid, key, 'no handler around the consumption', f.loc(call))
    rep.minimum('user-generator sites on the query path', n, 4)


def rule_argument_order(em, rep, rid):
    rep.rule(rid, 'query() calls the definition as function(*args) with its args parameter untouched; call/N passes the '
                  'goal\'s own arguments followed by the extra ones; register_function takes the arity from the signature or '
                  'the explicit argument')
    q = _method_view(em, 'query')
    args = q.params[2] if len(q.params) > 2 else None
    key = q.qname + ':args'
    touched = [n for n in own_nodes_ordered(q.node) if
               (isinstance(n, ast.Assign) and any(is_name(t, args) for t in n.targets)) or
               (isinstance(n, ast.AugAssign) and is_name(n.target, args)) or
               (isinstance(n, ast.Call) and isinstance(n.func, ast.Attribute) and is_name(n.func.value, args) and
                n.func.attr in ('sort', 'reverse', 'pop', 'insert', 'append', 'remove', 'clear', 'extend')) or
               (isinstance(n, ast.Call) and is_name(n.func) and n.func.id in ('reversed', 'sorted') and n.args and is_name(n.args[0], args))]
    calls = [n for n in own_nodes_ordered(q.node) if isinstance(n, ast.Call) and isinstance(n.func, ast.Name) and
             any(isinstance(a, ast.Starred) for a in n.args) and em.is_binder_call(q, n)]
    for c in calls:
        star = [a for a in c.args if isinstance(a, ast.Starred)]
        if len(c.args) == 1 and is_name(star[0].value, args) and not touched and not c.keywords:
            rep.ok(rid, key, 'definition called as %s' % norm(c), q.loc(c))
        else:
            rep.violation(rid, key, 'arguments do not reach the predicate positionally in call order (%s%s)' % (
                norm(c), ', args modified by %s' % norm(touched[0]) if touched else ''), q.loc(c))
    rep.minimum('definition calls in query()', len(calls), 1)
    # register_function arity
    reg = _method_view(em, 'register_function')
    src = norm(reg.node)
    k2 = reg.qname + ':arity'
    if 'co_argcount' in src or '__code__' in src or 'co_varnames' in src:
        rep.violation(rid, k2, 'the arity of a registered function is read from its code object: for a decorated function (functools.wraps), a '
                      'partial or a def f(a, *rest) this is not the number of arguments inspect.signature reports, so the function is stored '
                      'under a key that no call looks up and the Python predicate silently has no solutions', reg.loc())
    elif 'inspect.signature(' in src and '.parameters' in src:
        rep.ok(rid, k2, 'arity inferred from inspect.signature when not given', reg.loc())
    else:
        rep.violation(rid, k2, 'the arity of a registered function is not derived from its signature', reg.loc())
