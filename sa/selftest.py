"""Testing the checkers both ways: seeded defects must fire (and name the rule), benign rewrites
must stay silent.  Variants edit a scratch copy of the repository's source (under a fresh
temporary directory outside /repo and /verif, removed immediately afterwards); nothing is executed.
"""
import importlib
import json
import multiprocessing
import os
import shutil
import sys
import tempfile
import traceback

from .model import AnalysisError, Repo
from .report import Report, VERIF

VARIANT_DIR = os.path.join(VERIF, 'selftest')


def load_variants():
    sys.path.insert(0, VARIANT_DIR)
    try:
        import variants
        importlib.reload(variants)
        return variants.VARIANTS
    finally:
        sys.path.pop(0)


def load_corpus(kinds=('seeded', 'benign')):
    """the corpora written by independent agents: seeded/<id>/patch.diff must make the target property fire,
    benign/<id>/patch.diff (behaviour-preserving refactorings) must leave every property silent"""
    out = []
    for kind in kinds:
        base = os.path.join(VERIF, kind)
        if not os.path.isdir(base):
            continue
        for name in sorted(os.listdir(base)):
            p = os.path.join(base, name, 'patch.diff')
            if not os.path.isfile(p):
                continue
            if kind == 'seeded':
                meta = {}
                mp = os.path.join(base, name, 'meta.json')
                if os.path.isfile(mp):
                    with open(mp) as fh:
                        meta = json.load(fh)
                if meta.get('expected') == 'missed':
                    continue            # a recorded miss (DESIGN.md 11.2): not demanded, reported by tools/corpus.py
                out.append(dict(id='seed:%s' % name, props=[name[:3]], expect='fire', rules=[name[:3]], patch=p, edits=[], deep=True))
            else:
                out.append(dict(id='benign:%s' % name, props=['C%02d' % i for i in range(1, 21)], expect='silent', rules=[], patch=p, edits=[],
                                deep=False))
    return out


def apply_patch(root, path):
    import subprocess
    p = subprocess.run('patch -p1 --no-backup-if-mismatch -s < %s' % path, shell=True, cwd=root, stdout=subprocess.PIPE,
                       stderr=subprocess.STDOUT, text=True)
    return None if p.returncode == 0 else 'patch does not apply: %s' % p.stdout.strip()[-120:]


def analyse(prop, repo_root, tier='quick'):
    mod = importlib.import_module('sa.props.%s' % prop)
    repo = Repo(repo_root)
    rep = Report(prop, tier, 0, repo_root, None, write=False)
    try:
        mod.check(repo, rep, tier)
    except AnalysisError:
        if not rep.new_violations():
            raise
    return rep


def make_copy(repo_root):
    d = tempfile.mkdtemp(prefix='ypvariant_')
    shutil.copytree(os.path.join(repo_root, 'src'), os.path.join(d, 'src'),
                    ignore=shutil.ignore_patterns('__pycache__', '*.egg-info'))
    return d


def apply_edits(root, edits):
    """edits: list of (relative path, old, new[, count]); returns None or the reason it does not apply"""
    for e in edits:
        path, old, new = e[0], e[1], e[2]
        count = e[3] if len(e) > 3 else 1
        p = os.path.join(root, path)
        if not os.path.isfile(p):
            return 'file %s missing' % path
        s = open(p, encoding='utf-8').read()
        if s.count(old) != count:
            return 'anchor text occurs %d time(s) in %s, expected %d: %r' % (s.count(old), path, count, old[:60])
        s = s.replace(old, new)
        if p.endswith('.py'):
            try:
                compile(s, p, 'exec')
            except SyntaxError as ex:
                return 'edit yields a syntax error: %s' % ex
        open(p, 'w', encoding='utf-8').write(s)
    return None


def run_variant(args):
    v, repo_root = args
    # the depth-3 bounded compiler check costs ~15 s per property: variants that do not need it run it at depth 2
    os.environ['VERIF_BOUNDED_DEPTH'] = '3' if v.get('deep') else '2'
    os.environ['VERIF_BOUNDED_COMBS'] = '' if v.get('deep') else '0'
    d = make_copy(repo_root)
    res = dict(id=v['id'], expect=v['expect'], props=v['props'])
    import time as _t
    t0 = _t.time()
    try:
        why = apply_patch(d, v['patch']) if v.get('patch') else apply_edits(d, v['edits'])
        if why:
            res['status'] = 'skipped'
            res['why'] = why
            return res
        fired = []
        errors = []
        for prop in v['props']:
            try:
                rep = analyse(prop, d)
                if rep.deferred and not rep.new_violations():
                    errors.append('%s: ANALYSIS-ERROR %s' % (prop, '; '.join(rep.deferred)))
                known = {(e['rule'], e['construct']) for e in rep._known() if e.get('status') == 'open'}
                for viol in rep.violations:
                    if (viol['rule'], viol['construct']) in known:
                        continue
                    fired.append('%s %s: %s' % (viol['rule'], viol['construct'], viol['detail'][:100]))
            except AnalysisError as ex:
                errors.append('%s: ANALYSIS-ERROR %s' % (prop, ex))
            except Exception as ex:
                errors.append('%s: internal %s' % (prop, traceback.format_exc().strip().splitlines()[-1]))
        res['fired'] = fired
        res['errors'] = errors
        if v['expect'] == 'fire':
            want = v.get('rules') or []
            hit = [f for f in fired if not want or any(f.startswith(w) for w in want)]
            res['status'] = 'ok' if hit else 'MISSED'
        else:
            res['status'] = 'ok' if not fired and not errors else 'FALSE-ALARM'
        return res
    finally:
        res['secs'] = round(_t.time() - t0, 1)
        shutil.rmtree(d, ignore_errors=True)


def run(variants, repo_root, jobs=16, verbose=True):
    if not variants:
        return 0, []
    # worker processes must be able to start their own helpers (the bounded compiler check is parallel)
    from concurrent.futures import ProcessPoolExecutor
    os.environ['VERIF_INNER_JOBS'] = '2'
    with ProcessPoolExecutor(max_workers=min(jobs, len(variants))) as pool:
        results = list(pool.map(run_variant, [(v, repo_root) for v in variants]))
    bad = 0
    for r in results:
        if r['status'] in ('MISSED', 'FALSE-ALARM'):
            bad += 1
        if verbose or r['status'] != 'ok':
            print('selftest %-12s %5.1fs %-44s expect=%-6s %s' % (r['status'], r.get('secs', 0), r['id'], r['expect'],
                                                            r.get('why') or '; '.join((r.get('fired') or [])[:2] + (r.get('errors') or [])[:2])))
    return bad, results


def run_for_property(prop, repo_root, jobs=16):
    vs = [v for v in load_variants() + load_corpus() if prop in v['props']]
    vs = [dict(v, props=[prop]) if (v['expect'] == 'fire' and not v.get('rules')) or v.get('patch') else v for v in vs]
    bad, results = run(vs, repo_root, jobs, verbose=False)
    n_ok = len([r for r in results if r['status'] == 'ok'])
    n_skip = len([r for r in results if r['status'] == 'skipped'])
    print('selftest %s: %d variant(s) ok, %d skipped, %d failed' % (prop, n_ok, n_skip, bad))
    return 1 if bad else 0


def main(a):
    vs = load_variants()
    rest = list(a.rest)
    if 'corpus' in rest or a.prop == 'corpus':
        rest = [r for r in rest if r != 'corpus']
        vs = vs + load_corpus() if a.prop != 'corpus' else load_corpus()
    if rest:
        vs = [v for v in vs if any(r in v['id'] or r in v['props'] for r in rest)]
    bad, results = run(vs, a.repo, a.j)
    print('selftest: %d variants, %d ok, %d skipped, %d failed' % (
        len(results), len([r for r in results if r['status'] == 'ok']),
        len([r for r in results if r['status'] == 'skipped']), bad))
    return 1 if bad else 0
