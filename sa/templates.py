"""E5 - output-template extraction from the Python emitter.

Each ``generate_*`` method of the code generator is evaluated once with symbolic arguments over a
document domain; helper methods are inlined, the emitter's own state (indentation, loop level) is
tracked as an offset relative to the state at entry, and every branch on a symbolic condition
forks an alternative.  The result is, per code-node class, a list of alternatives
(guards, document).

Documents
  Lit(text)  Hole(expr)  Repr(expr)  IntDoc(field, offset)  IndentDoc(offset)
  Sub(expr, ind, loop)        text of  <expr>.generate(self)  at relative indentation / loop level
  MapSub(listexpr, var, doc, ind, loop)   [ doc(var) for var in listexpr ]  (a Python list of documents)
  Cat([...])  Lines([...])  Join(sep, listdoc)  PyList([...])  Alt([(guards, doc)])
"""
import ast

from .model import AnalysisError, own_nodes, is_name, is_self_attr, norm


class Doc:
    pass


class Lit(Doc):
    def __init__(self, t):
        self.t = t

    def __repr__(self):
        return repr(self.t)


class Hole(Doc):
    """the value of a source expression pasted as is (str() of it)"""

    def __init__(self, expr, func, conv='s'):
        self.expr = expr
        self.func = func
        self.conv = conv

    def __repr__(self):
        return '{%s}' % norm(self.expr)


class Repr(Doc):
    def __init__(self, expr, func):
        self.expr = expr
        self.func = func

    def __repr__(self):
        return 'repr(%s)' % norm(self.expr)


class IntDoc(Doc):
    def __init__(self, field, off):
        self.field = field
        self.off = off

    def __repr__(self):
        return 'str(%s%+d)' % (self.field, self.off)


class IndentDoc(Doc):
    def __init__(self, off, width):
        self.off = off
        self.width = width

    def __repr__(self):
        return 'INDENT(%+d)' % self.off


class Sub(Doc):
    def __init__(self, expr, func, ind, loop):
        self.expr = expr
        self.func = func
        self.ind = ind
        self.loop = loop

    def __repr__(self):
        return '<%s.generate @ind%+d loop%+d>' % (norm(self.expr), self.ind, self.loop)


class MapSub(Doc):
    """a Python list: [elem for var in listexpr]"""

    def __init__(self, listexpr, func, var, elem, ind, loop):
        self.listexpr = listexpr
        self.func = func
        self.var = var
        self.elem = elem
        self.ind = ind
        self.loop = loop

    def __repr__(self):
        return '[%r for %s in %s]' % (self.elem, self.var, norm(self.listexpr))


class Cat(Doc):
    def __init__(self, parts):
        flat = []
        for p in parts:
            if isinstance(p, Cat):
                flat.extend(p.parts)
            else:
                flat.append(p)
        self.parts = flat

    def __repr__(self):
        return ' . '.join(map(repr, self.parts))


class Lines(Doc):
    """"\\n".join(items); items are documents, or MapSub/PyList values spliced in by *args"""

    def __init__(self, sep, items):
        self.sep = sep
        self.items = items

    def __repr__(self):
        return 'JOIN%r(%s)' % (self.sep, ' / '.join(map(repr, self.items)))


class PyList(Doc):
    def __init__(self, items):
        self.items = list(items)

    def __repr__(self):
        return 'PYLIST%r' % (self.items,)


class Alt(Doc):
    def __init__(self, alts):
        self.alts = alts

    def __repr__(self):
        return 'ALT(%s)' % ' | '.join('%s => %r' % (' & '.join(map(repr, g)) or 'else', d) for g, d in self.alts)


class SObj:
    """a symbolic input object: a parameter of the method or an attribute path from one"""

    def __init__(self, expr):
        self.expr = expr

    def __repr__(self):
        return norm(self.expr)


class SSelf:
    pass


class SInt:
    def __init__(self, field, off):
        self.field = field      # None for a plain constant
        self.off = off

    def __repr__(self):
        return '%s%+d' % (self.field, self.off) if self.field else str(self.off)


class Guard:
    """a branch decision: the test expression, the side taken and the symbolic value tested"""

    def __init__(self, test, polarity, value):
        self.test = test
        self.polarity = polarity
        self.value = value

    def __repr__(self):
        return ('' if self.polarity else 'not ') + norm(self.test)


class Problem:
    def __init__(self, kind, text, node, func):
        self.kind = kind
        self.text = text
        self.node = node
        self.func = func


class State:
    def __init__(self):
        self.fields = {}        # self.<name> -> SInt (relative)
        self.env = {}
        self.guards = []

    def copy(self):
        s = State()
        s.fields = dict(self.fields)
        s.env = {k: (PyList(v.items) if isinstance(v, PyList) else v) for k, v in self.env.items()}
        s.guards = list(self.guards)
        return s


class _Return(Exception):
    def __init__(self, value):
        self.value = value


def _strip_parents(node):
    """a copy of the expression without the parent links (which make deepcopy walk the whole module)"""
    from .model import _clone
    return _clone(node)


class Extractor:
    def __init__(self, repo, cls):
        self.repo = repo
        self.cls = cls
        self.problems = []
        self.consts = {}
        init = repo.lookup_method(cls, '__init__')
        self.state_fields = []
        if init is not None:
            for n in own_nodes(init.node):
                if isinstance(n, ast.Assign) and len(n.targets) == 1 and is_self_attr(n.targets[0]) and isinstance(n.value, ast.Constant) \
                        and isinstance(n.value.value, int) and not isinstance(n.value.value, bool):
                    self.consts[n.targets[0].attr] = n.value.value
        # fields that are modified by methods are state; the others are constants
        for m in cls.methods.values():
            for n in own_nodes(m.node):
                if isinstance(n, ast.AugAssign) and is_self_attr(n.target) and n.target.attr in self.consts:
                    if n.target.attr not in self.state_fields:
                        self.state_fields.append(n.target.attr)
                if isinstance(n, ast.Assign) and m.name != '__init__' and any(is_self_attr(t) and t.attr in self.consts for t in n.targets):
                    if n.targets[0].attr not in self.state_fields:
                        self.state_fields.append(n.targets[0].attr)
        self.depth = 0
        self.raising_paths = []

    # -- entry ----------------------------------------------------------------------------
    def template(self, mname):
        """-> list of (guards, document, net state change) for method mname"""
        m = self.repo.lookup_method(self.cls, mname)
        if m is None:
            raise AnalysisError('anchor vanished: %s.%s' % (self.cls.name, mname))
        st = State()
        for f in self.state_fields:
            st.fields[f] = SInt(f, 0)
        args = [SObj(ast.Name(id=p, ctx=ast.Load())) for p in m.params[1:]]
        self.root = m           # expressions of symbolic inputs are relative to this method's parameters
        outs = self.call(m, args, st)
        res = []
        for s, v in outs:
            res.append((list(s.guards), self.as_doc(v, m, None), {f: s.fields[f].off for f in self.state_fields}))
        return res

    def problem(self, kind, text, node, func):
        for p in self.problems:
            if p.kind == kind and p.node is node:
                return
        self.problems.append(Problem(kind, text, node, func))

    def _class_string(self, attr):
        """the text of a class-level string constant of the emitter that no method ever assigns (``self._STMT_X``)"""
        for c in self.repo.mro(self.cls):
            v = c.class_attrs.get(attr)
            if v is not None:
                if not (isinstance(v, ast.Constant) and isinstance(v.value, str)):
                    return None
                for k in self.repo.mro(self.cls):
                    for mth in k.methods.values():
                        for n in own_nodes(mth.node):
                            if isinstance(n, ast.Attribute) and n.attr == attr and isinstance(n.ctx, (ast.Store, ast.Del)):
                                return None
                return v.value
        return None

    def _dissolved(self, m):
        """the method with the small helper objects it creates and drops again (a line buffer, ...) dissolved into locals -
        nothing else is pasted in: calls of the emitter's own methods and of module functions stay calls"""
        cache = self.__dict__.setdefault('_dissolve_cache', {})
        if m not in cache:
            view = m
            if any(isinstance(x, ast.Call) and isinstance(x.func, ast.Name) and x.func.id in m.module.classes
                   for x in own_nodes(m.node)):
                from .inline import inline_view
                keep = tuple(f for c in self.repo.mro(self.cls) for f in c.methods.values()) + tuple(m.module.functions.values())
                try:
                    v = inline_view(self.repo, m, keep=keep)
                    if v.inlined:
                        view = v
                except (AnalysisError, RecursionError):
                    pass
            cache[m] = view
        return cache[m]

    # -- calls ----------------------------------------------------------------------------
    def call(self, m, args, st, method=True):
        """symbolically run method m (or, with method=False, a module-level helper); -> list of (state, return value)"""
        self.depth += 1
        if self.depth > 12:
            raise AnalysisError('templates: call depth exceeded in %s' % m.qname)
        m = self._dissolved(m)
        try:
            s0 = st.copy()
            saved_env = st.env
            s0.env = {'self': SSelf()} if method else {}
            a = m.node.args
            params = [x.arg for x in a.args][1:] if method else [x.arg for x in a.args]
            for i, p in enumerate(params):
                if i < len(args):
                    s0.env[p] = args[i]
                else:
                    d = a.defaults[i - (len(params) - len(a.defaults))] if i >= len(params) - len(a.defaults) else None
                    s0.env[p] = self.ev(d, s0, m)[0][1] if d is not None else None
            if a.vararg is not None:
                s0.env[a.vararg.arg] = PyList(args[len(params):])
            outs = []
            for s, v in self.block(m.node.body, s0, m):
                s2 = s.copy()
                # every outcome continues in its own copy of the caller's frame
                s2.env = saved_env if not outs else {k: (PyList(x.items) if isinstance(x, PyList) else x) for k, x in saved_env.items()}
                outs.append((s2, v))
            return outs
        finally:
            self.depth -= 1

    def block(self, stmts, st, m):
        """-> list of (state, return value or _NORETURN)"""
        states = [(st, _NORET)]
        for i, s in enumerate(stmts):
            nxt = []
            for cur, rv in states:
                if rv is not _NORET:
                    nxt.append((cur, rv))
                    continue
                nxt.extend(self.stmt(s, cur, m))
            states = nxt
        return [(s, (None if v is _NORET else v)) for s, v in states] if stmts is m.node.body else states

    def stmt(self, s, st, m):
        if isinstance(s, ast.Expr):
            if isinstance(s.value, ast.Constant):
                return [(st, _NORET)]
            return [(s2, _NORET) for s2, _ in self.ev(s.value, st, m)]
        if isinstance(s, ast.Assign):
            out = []
            for s2, v in self.ev(s.value, st, m):
                for t in s.targets:
                    self.assign(t, v, s2, m)
                out.append((s2, _NORET))
            return out
        if isinstance(s, ast.AugAssign):
            out = []
            cur = ast.BinOp(left=_as_load(s.target), op=s.op, right=s.value, lineno=s.lineno, col_offset=s.col_offset)
            for s2, v in self.ev(cur, st, m):
                self.assign(s.target, v, s2, m)
                out.append((s2, _NORET))
            return out
        if isinstance(s, ast.Return):
            if s.value is None:
                return [(st, None)]
            return [(s2, v) for s2, v in self.ev(s.value, st, m)]
        if isinstance(s, ast.If):
            out = []
            for s2, c in self.ev(s.test, st, m):
                for branch, guard_state in self.fork(c, s.test, s2, m):
                    body = s.body if branch else s.orelse
                    out.extend(self.block(body, guard_state, m))
            return out
        if isinstance(s, ast.Pass):
            return [(st, _NORET)]
        if isinstance(s, ast.For):
            # loops over literal sequences / local lists of known length are unrolled
            out = []
            for s2, it in self.ev(s.iter, st, m):
                if isinstance(it, PyList) and not any(isinstance(x, MapSub) for x in it.items):
                    states = [(s2, _NORET)]
                    for item in it.items:
                        nxt = []
                        for cur, rv in states:
                            if rv is not _NORET:
                                nxt.append((cur, rv))
                                continue
                            self.assign(s.target, item, cur, m)
                            nxt.extend(self.block(s.body, cur, m))
                        states = nxt
                    out.extend(states)
                elif isinstance(it, SObj) and self._append_loop(s) is not None and \
                        isinstance(s2.env.get(self._append_loop(s)[0]), PyList):
                    # for x in xs: [t = g(x);] acc.append(f(x, t))   is   acc += [f(x, g(x)) for x in xs]
                    acc, elt = self._append_loop(s)
                    comp = ast.ListComp(elt=elt, generators=[ast.comprehension(target=s.target, iter=s.iter, ifs=[], is_async=0)])
                    ast.copy_location(comp, s)
                    ast.fix_missing_locations(comp)
                    for s3, v in self.listcomp(comp, s2, m):
                        s3.env[acc].items.extend(v.items)
                        out.append((s3, _NORET))
                elif isinstance(it, SObj) and isinstance(s.target, ast.Name) and len(s.body) == 1 and not s.orelse and \
                        isinstance(s.body[0], ast.Expr) and isinstance(s.body[0].value, ast.Call) and \
                        isinstance(s.body[0].value.func, ast.Attribute) and s.body[0].value.func.attr == 'append' and \
                        isinstance(s.body[0].value.func.value, ast.Name) and isinstance(s2.env.get(s.body[0].value.func.value.id), PyList) and \
                        len(s.body[0].value.args) == 1:
                    # for x in xs: acc.append(f(x))   is   acc += [f(x) for x in xs]
                    comp = ast.ListComp(elt=s.body[0].value.args[0], generators=[ast.comprehension(target=s.target, iter=s.iter, ifs=[], is_async=0)])
                    ast.copy_location(comp, s)
                    for s3, v in self.listcomp(comp, s2, m):
                        s3.env[s.body[0].value.func.value.id].items.extend(v.items)
                        out.append((s3, _NORET))
                else:
                    raise AnalysisError('templates: loop over a symbolic sequence in %s line %d' % (m.qname, s.lineno))
            return out
        if isinstance(s, ast.Raise):
            self.raising_paths.append((m, s, list(st.guards)))
            return []
        if isinstance(s, ast.Assert):
            # a check that passes changes nothing (that it has no effect is rule C18.N8); one that fails ends no returning path
            return [(st, _NORET)]
        raise AnalysisError('templates: unsupported statement %s in %s line %d' % (type(s).__name__, m.qname, s.lineno))

    @staticmethod
    def _append_loop(s):
        """``for x in xs: t1 = e1; ..; acc.append(e)`` with single-use temporaries -> (acc, e with the temporaries substituted)"""
        if not isinstance(s.target, ast.Name) or s.orelse or not s.body:
            return None
        last = s.body[-1]
        if not (isinstance(last, ast.Expr) and isinstance(last.value, ast.Call) and isinstance(last.value.func, ast.Attribute) and
                last.value.func.attr == 'append' and isinstance(last.value.func.value, ast.Name) and len(last.value.args) == 1 and
                not last.value.keywords):
            return None
        acc = last.value.func.value.id
        subst = {}
        import copy

        class Sub(ast.NodeTransformer):
            def visit_Name(self, node):
                if isinstance(node.ctx, ast.Load) and node.id in subst:
                    return copy.deepcopy(subst[node.id])
                return node
        for st_ in s.body[:-1]:
            if not (isinstance(st_, ast.Assign) and len(st_.targets) == 1 and isinstance(st_.targets[0], ast.Name)):
                return None
            name = st_.targets[0].id
            if name == acc or name == s.target.id or name in subst:
                return None
            val = Sub().visit(copy.deepcopy(_strip_parents(st_.value)))
            subst[name] = val
        elt = Sub().visit(copy.deepcopy(_strip_parents(last.value.args[0])))
        if any(isinstance(x, ast.Name) and x.id == acc for x in ast.walk(elt)):
            return None
        return acc, elt

    def assign(self, t, v, st, m):
        if isinstance(t, ast.Name):
            st.env[t.id] = v
        elif is_self_attr(t):
            if t.attr in self.state_fields and isinstance(v, SInt):
                st.fields[t.attr] = v
            else:
                raise AnalysisError('templates: the emitter assigns self.%s in %s' % (t.attr, m.qname))
        else:
            raise AnalysisError('templates: unsupported assignment target %s in %s' % (norm(t), m.qname))

    def new_field(self, obj, attr, m):
        """field of an object constructed inside the emitter: through the assignments of its __init__"""
        _, cls, args = obj
        init = self.repo.lookup_method(cls, '__init__')
        if init is None:
            raise AnalysisError('templates: %s has no __init__ (field %s)' % (cls.name, attr))
        params = init.params[1:]
        for n in own_nodes(init.node):
            if isinstance(n, ast.Assign) and any(is_self_attr(t, attr) for t in n.targets) and isinstance(n.value, ast.Name) and n.value.id in params:
                i = params.index(n.value.id)
                if i < len(args):
                    return args[i]
                a = init.node.args
                d = a.defaults[i - (len(params) - len(a.defaults))] if i >= len(params) - len(a.defaults) else None
                if d is not None:
                    return self.ev(d, State(), m)[0][1]
        raise AnalysisError('templates: cannot resolve field %s of a %s built in the emitter' % (attr, cls.name))

    def doc_truth(self, v):
        if isinstance(v, bool):
            return v
        if v is None:
            return False
        if isinstance(v, Lit):
            return bool(v.t)
        if isinstance(v, Lines):
            if not v.items:
                return False
            if any(isinstance(x, Doc) and not isinstance(x, (MapSub, PyList)) and self.doc_truth(x) for x in v.items):
                return True
            return None
        if isinstance(v, Cat):
            ts = [self.doc_truth(x) for x in v.parts]
            if any(t is True for t in ts):
                return True
            return False if all(t is False for t in ts) else None
        if isinstance(v, PyList):
            if not v.items:
                return False
            return True if not any(isinstance(x, MapSub) for x in v.items) else None
        if isinstance(v, (IndentDoc,)):
            return None
        if isinstance(v, (Sub, Hole, Repr, IntDoc)):
            return None
        if isinstance(v, SInt) and v.field is None:
            return bool(v.off)
        return None

    def fork(self, cond, test, st, m):
        """-> [(branch taken: bool, state)]"""
        t = self.doc_truth(cond) if not (isinstance(cond, tuple) and cond and cond[0] in ('cond', 'condnot')) else None
        if t is not None:
            return [(t, st)]
        t = st.copy()
        t.guards.append(Guard(test, True, cond))
        f = st.copy()
        f.guards.append(Guard(test, False, cond))
        return [(True, t), (False, f)]

    # -- expressions ----------------------------------------------------------------------
    def ev(self, e, st, m):
        """-> list of (state, value).  Values: Doc, PyList, SObj, SInt, SSelf, bool, None, ('sym', text)"""
        if e is None:
            return [(st, None)]
        if isinstance(e, ast.Constant):
            v = e.value
            if isinstance(v, str):
                return [(st, Lit(v))]
            if isinstance(v, bool) or v is None:
                return [(st, v)]
            if isinstance(v, int):
                return [(st, SInt(None, v))]
            return [(st, ('sym', repr(v)))]
        if isinstance(e, ast.Name):
            if e.id in st.env:
                return [(st, st.env[e.id])]
            # a module-level name bound once to a string constant is that string
            r_ = self.repo.module_binding(m.module, e.id)
            if r_ and r_[0] == 'var' and isinstance(r_[2], ast.Constant) and isinstance(r_[2].value, str):
                owner = [mod for mod in self.repo.modules.values() if e.id in mod.assign_nodes and mod.assigns.get(e.id) is r_[2]]
                if owner and len(owner[0].assign_nodes[e.id]) == 1:
                    return [(st, Lit(r_[2].value))]
            if r_ and r_[0] == 'var' and isinstance(r_[2], (ast.List, ast.Tuple)) and not getattr(self, '_in_const', False):
                # a module-level constant list of code nodes (built once, only read): what it is bound to
                owner = [mod for mod in self.repo.modules.values() if e.id in mod.assign_nodes and mod.assigns.get(e.id) is r_[2]]
                if owner and len(owner[0].assign_nodes[e.id]) == 1:
                    self._in_const = True
                    try:
                        return self.ev(r_[2], st, m)
                    except AnalysisError:
                        pass
                    finally:
                        self._in_const = False
            return [(st, ('global', e.id))]
        if isinstance(e, ast.Attribute):
            out = []
            for s2, b in self.ev(e.value, st, m):
                if isinstance(b, SSelf):
                    if e.attr in self.state_fields:
                        out.append((s2, s2.fields[e.attr]))
                    elif e.attr in self.consts:
                        out.append((s2, SInt(None, self.consts[e.attr])))
                    elif self._class_string(e.attr) is not None:
                        out.append((s2, Lit(self._class_string(e.attr))))
                    else:
                        out.append((s2, SObj(e)))
                elif isinstance(b, SObj):
                    out.append((s2, SObj(_rebase(e, b))))
                elif isinstance(b, tuple) and b[0] == 'new':
                    out.append((s2, self.new_field(b, e.attr, m)))
                else:
                    out.append((s2, ('attr', b, e.attr)))
            return out
        if isinstance(e, ast.JoinedStr):
            states = [(st, [])]
            for v in e.values:
                nxt = []
                for s2, parts in states:
                    if isinstance(v, ast.Constant):
                        nxt.append((s2, parts + [Lit(v.value)]))
                    else:
                        for s3, x in self.ev(v.value, s2, m):
                            nxt.append((s3, parts + [self.as_doc(x, m, v.value, 'r' if v.conversion == 114 else 's')]))
                states = nxt
            return [(s2, Cat(parts)) for s2, parts in states]
        if isinstance(e, ast.BinOp):
            out = []
            for s2, l in self.ev(e.left, st, m):
                for s3, r in self.ev(e.right, s2, m):
                    out.append((s3, self.binop(e, l, r, m)))
            return out
        if isinstance(e, ast.BoolOp):
            # x or y / x and y on documents: alternatives guarded by the emptiness of x
            vals = e.values
            out = []
            first = self.ev(vals[0], st, m)
            rest = ast.BoolOp(op=e.op, values=vals[1:]) if len(vals) > 2 else vals[1]
            for s2, a in first:
                known = self.doc_truth(a)
                if known is not None:
                    if (known and isinstance(e.op, ast.Or)) or (not known and isinstance(e.op, ast.And)):
                        out.append((s2, a))
                    else:
                        out.extend(self.ev(rest, s2, m))
                    continue
                t = s2.copy()
                f = s2.copy()
                t.guards.append(Guard(vals[0], True, a))
                f.guards.append(Guard(vals[0], False, a))
                if isinstance(e.op, ast.Or):
                    out.append((t, a))
                    out.extend(self.ev(rest, f, m))
                else:
                    out.append((f, a))
                    out.extend(self.ev(rest, t, m))
            return out
        if isinstance(e, ast.Compare):
            out = []
            for s2, l in self.ev(e.left, st, m):
                for s3, r in self.ev(e.comparators[0], s2, m):
                    if isinstance(l, SInt) and isinstance(r, SInt) and l.field is None and r.field is None:
                        out.append((s3, _cmp(e.ops[0], l.off, r.off)))
                    else:
                        out.append((s3, ('cond', norm(e), e.ops[0], l, r)))
            return out
        if isinstance(e, ast.UnaryOp) and isinstance(e.op, ast.Not):
            return [(s2, (not v) if isinstance(v, bool) else ('condnot', v) if isinstance(v, (tuple, SObj, Doc)) else ('cond', norm(e)))
                    for s2, v in self.ev(e.operand, st, m)]
        if isinstance(e, (ast.List, ast.Tuple)):
            states = [(st, [])]
            for x in e.elts:
                nxt = []
                for s2, items in states:
                    for s3, v in self.ev(x.value if isinstance(x, ast.Starred) else x, s2, m):
                        if isinstance(x, ast.Starred) and isinstance(v, PyList):
                            nxt.append((s3, items + v.items))
                        else:
                            nxt.append((s3, items + [v]))
                states = nxt
            return [(s2, PyList(items)) for s2, items in states]
        if isinstance(e, ast.ListComp):
            return self.listcomp(e, st, m)
        if isinstance(e, ast.Call):
            return self.evcall(e, st, m)
        if isinstance(e, ast.IfExp):
            out = []
            for s2, c in self.ev(e.test, st, m):
                for br, s3 in self.fork(c, e.test, s2, m):
                    out.extend(self.ev(e.body if br else e.orelse, s3, m))
            return out
        if isinstance(e, ast.Subscript):
            return [(s2, ('sym', norm(e), e)) for s2, _ in self.ev(e.value, st, m)]
        raise AnalysisError('templates: unsupported expression %s in %s line %d' % (type(e).__name__, m.qname, getattr(e, 'lineno', 0)))

    def binop(self, e, l, r, m):
        if isinstance(e.op, ast.Add):
            if isinstance(l, SInt) and isinstance(r, SInt):
                if l.field and r.field:
                    raise AnalysisError('templates: sum of two state fields')
                return SInt(l.field or r.field, l.off + r.off)
            if isinstance(l, PyList) and isinstance(r, PyList):
                return PyList(l.items + r.items)
            if isinstance(l, PyList) or isinstance(r, PyList):
                self.problem('list-str', 'a Python list is concatenated with text (%s)' % norm(e), e, m)
                return Lit('')
            return Cat([self.as_doc(l, m, e.left), self.as_doc(r, m, e.right)])
        if isinstance(e.op, ast.Sub) and isinstance(l, SInt) and isinstance(r, SInt) and not r.field:
            return SInt(l.field, l.off - r.off)
        if isinstance(e.op, ast.Mult):
            # " " * width * indentation
            vals = [l, r]
            ints = [v for v in vals if isinstance(v, SInt)]
            strs = [v for v in vals if isinstance(v, (Lit, IndentDoc, tuple))]
            if isinstance(l, Lit) and isinstance(r, SInt):
                if r.field is None:
                    return ('rep', l.t, r.off)
                if l.t == ' ':
                    return IndentDoc(r.off, 1) if r.field == 'indentation' else ('sym', norm(e), e)
            if isinstance(l, tuple) and l[0] == 'rep' and isinstance(r, SInt):
                if r.field is None:
                    return ('rep', l[1], l[2] * r.off)
                if l[1] == ' ':
                    return IndentDoc(r.off, l[2])
            if isinstance(l, SInt) and isinstance(r, SInt) and not (l.field and r.field):
                if l.field is None and r.field is None:
                    return SInt(None, l.off * r.off)
            raise AnalysisError('templates: unsupported multiplication %s in %s' % (norm(e), m.qname))
        if isinstance(e.op, ast.Mod):
            if isinstance(l, tuple) and l and l[0] == 'global':
                r_ = self.repo.module_binding(m.module, l[1])
                if r_ and r_[0] == 'var' and isinstance(r_[2], ast.Constant) and isinstance(r_[2].value, str):
                    l = Lit(r_[2].value)
            if not isinstance(l, Lit):
                raise AnalysisError('templates: non-constant format string %s in %s' % (norm(e.left), m.qname))
            args = r.items if isinstance(r, PyList) else [r]
            argn = e.right.elts if isinstance(e.right, ast.Tuple) else [e.right]
            import re as _re
            pieces = _re.split(r'(%[sdr])', l.t)
            parts, i = [], 0
            for p in pieces:
                if p in ('%s', '%d', '%r'):
                    if i < len(args):
                        parts.append(self.as_doc(args[i], m, argn[i] if i < len(argn) else None, 'r' if p == '%r' else 's'))
                        i += 1
                elif p:
                    parts.append(Lit(p))
            return Cat(parts)
        raise AnalysisError('templates: unsupported operator in %s (%s)' % (norm(e), m.qname))

    def as_doc(self, v, m, node, conv='s'):
        """coerce a value to a document (what str() of it would paste)"""
        if isinstance(v, Doc) and not isinstance(v, (PyList, MapSub)):
            if conv == 'r' and isinstance(v, Hole):
                return Repr(v.expr, v.func)
            return v
        if isinstance(v, (PyList, MapSub)):
            self.problem('list-str', 'a Python list reaches a position where text is expected (%s)' % (norm(node) if node is not None else repr(v)), node, m)
            return Lit('<list>')
        if isinstance(v, SObj):
            r_ = getattr(self, 'root', None) or m
            return Repr(v.expr, r_) if conv == 'r' else Hole(v.expr, r_)
        if isinstance(v, SInt):
            if v.field is None:
                return Lit(str(v.off))
            return IntDoc(v.field, v.off)
        if isinstance(v, tuple) and v[0] == 'rep':
            return Lit(v[1] * v[2])
        if isinstance(v, tuple) and v[0] == 'len':
            return Hole(v[1], m)
        if isinstance(v, tuple) and v[0] == 'str':
            return v[1]
        if isinstance(v, bool) or v is None:
            return Lit(str(v))
        if isinstance(v, tuple) and v[0] == 'sym' and node is not None:
            return Hole(node, m)
        if isinstance(v, tuple) and v[0] == 'sym' and len(v) > 2 and isinstance(v[2], ast.AST):
            return Hole(v[2], m)
        if node is not None:
            return Hole(node, m)
        raise AnalysisError('templates: cannot turn %r into text in %s' % (v, m.qname))

    def listcomp(self, e, st, m):
        if len(e.generators) != 1 or e.generators[0].ifs:
            raise AnalysisError('templates: unsupported comprehension in %s line %d' % (m.qname, e.lineno))
        g = e.generators[0]
        out = []
        for s2, it in self.ev(g.iter, st, m):
            if isinstance(it, PyList):
                states = [(s2, [])]
                for item in it.items:
                    nxt = []
                    for s3, items in states:
                        s3.env[g.target.id] = item
                        for s4, v in self.ev(e.elt, s3, m):
                            nxt.append((s4, items + [v]))
                    states = nxt
                out.extend((s3, PyList(items)) for s3, items in states)
            elif isinstance(it, SObj):
                var = g.target.id
                s3 = s2.copy()
                elem_obj = SObj(ast.Name(id=var, ctx=ast.Load()))
                s3.env[var] = elem_obj
                res = self.ev(e.elt, s3, m)
                if len(res) != 1:
                    raise AnalysisError('templates: branching inside a comprehension in %s' % m.qname)
                s4, v = res[0]
                for f in self.state_fields:
                    if s4.fields[f].off != s2.fields[f].off:
                        self.problem('balance', 'the element expression of a comprehension changes %s' % f, e, m)
                ind = s2.fields.get('indentation', SInt('indentation', 0)).off
                loop = s2.fields.get('loop_level', SInt('loop_level', 0)).off
                out.append((s2, PyList([MapSub(it.expr, m, var, self.as_doc(v, m, e.elt), ind, loop)])))
            else:
                raise AnalysisError('templates: comprehension over %r in %s' % (it, m.qname))
        return out

    def evcall(self, e, st, m):
        fn = e.func
        # arguments
        states = [(st, [])]
        for a in e.args:
            nxt = []
            for s2, args in states:
                for s3, v in self.ev(a.value if isinstance(a, ast.Starred) else a, s2, m):
                    if isinstance(a, ast.Starred):
                        if isinstance(v, PyList):
                            nxt.append((s3, args + v.items))
                        else:
                            raise AnalysisError('templates: star argument %s is not a list in %s' % (norm(a), m.qname))
                    else:
                        nxt.append((s3, args + [v]))
            states = nxt
        out = []
        for s2, args in states:
            out.extend(self.apply(e, fn, args, s2, m))
        return out

    def apply(self, e, fn, args, st, m):
        if isinstance(fn, ast.Name):
            name = fn.id
            if name == 'repr':
                a = args[0]
                if isinstance(a, SObj):
                    return [(st, Repr(a.expr, getattr(self, 'root', None) or m))]
                if isinstance(a, (bool, type(None))):
                    return [(st, Lit(repr(a)))]
                if isinstance(a, Lit):
                    return [(st, Lit(repr(a.t)))]
                return [(st, Repr(e.args[0], m))]
            if name == 'str':
                return [(st, ('str', self.as_doc(args[0], m, e.args[0])))] if not isinstance(args[0], SInt) else [(st, self.as_doc(args[0], m, e.args[0]))]
            if name == 'isinstance' and len(args) == 2:
                names = [x.id for x in ast.walk(e.args[1]) if isinstance(x, ast.Name)]
                a = args[0]
                if isinstance(a, bool):
                    return [(st, any(n in ('bool', 'int') for n in names))]
                if a is None:
                    return [(st, False)]
                if isinstance(a, Lit):
                    return [(st, 'str' in names)]
                if isinstance(a, SInt) and a.field is None:
                    return [(st, 'int' in names)]
                if isinstance(a, PyList):
                    return [(st, 'list' in names)]
                if isinstance(a, tuple) and a and a[0] == 'new':
                    return [(st, any(k.name in names for k in self.repo.mro(a[1])))]
                if isinstance(a, SObj):
                    return [(st, ('cond', norm(e), 'isinstance', a, names))]
            if name == 'len':
                if args and isinstance(args[0], SObj):
                    # the argument seen from the template's own parameters (the call may sit in a helper)
                    e2 = ast.Call(func=ast.Name(id='len', ctx=ast.Load()), args=[args[0].expr], keywords=[])
                    ast.copy_location(e2, e)
                    return [(st, ('len', e2))]
                return [(st, ('len', e))]
            if name == 'int':
                return [(st, ('sym', norm(e), e))]
            r = self.repo.resolve_name(m, name)
            if r and r[0] == 'class':
                return [(st, ('new', r[1], args))]
            if r and r[0] == 'func' and not r[1].is_generator and not e.keywords and \
                    all(isinstance(a_, (SObj, SInt, bool, type(None), Lit, Doc)) or (isinstance(a_, tuple) and a_ and a_[0] in ('len', 'str', 'sym')) for a_ in args):
                # a module-level helper of the emitter (e.g. the one that spells a function name): pasted in
                snapshot = st.copy()
                try:
                    return self.call(r[1], args, st, method=False)
                except AnalysisError:
                    return [(snapshot, ('sym', norm(e), e))]
            return [(st, ('sym', norm(e), e))]
        if isinstance(fn, ast.Attribute):
            outs = []
            for s2, recv in self.ev(fn.value, st, m):
                outs.extend(self.method(e, fn, recv, args, s2, m))
            return outs
        raise AnalysisError('templates: unsupported call %s in %s' % (norm(e), m.qname))

    def method(self, e, fn, recv, args, st, m):
        name = fn.attr
        if isinstance(recv, SSelf):
            target = self.repo.lookup_method(self.cls, name)
            if target is None:
                raise AnalysisError('templates: unknown emitter method %s' % name)
            try:
                snapshot = st.copy()
                return self.call(target, args, st)
            except AnalysisError:
                # a helper that inspects the code tree (loops over it, tests node classes): kept as an opaque
                # predicate over the tree; evaluated on the sample trees when templates are instantiated
                if all(isinstance(a, (SObj, SInt, bool, type(None), Lit)) for a in args):
                    return [(snapshot, ('pred', target, list(args)))]
                raise
        if isinstance(recv, Lit) and name == 'join':
            a = args[0]
            if isinstance(a, PyList):
                return [(st, Lines(recv.t, list(a.items)))]
            if isinstance(a, SObj):
                return [(st, Lines(recv.t, [MapSub(a.expr, m, '_x', Hole(ast.Name(id='_x', ctx=ast.Load()), m), 0, 0)]))]
            # a join over something the extractor does not model: an opaque string, classified by the flow analysis
            return [(st, ('sym', norm(e), e))]
        if isinstance(recv, PyList) and name in ('append', 'extend', 'insert'):
            if name == 'append':
                recv.items.append(args[0])
            elif name == 'insert':
                recv.items.insert(args[0].off if isinstance(args[0], SInt) else 0, args[1])
            else:
                if isinstance(args[0], PyList):
                    recv.items.extend(args[0].items)
                else:
                    raise AnalysisError('templates: extend with %r' % (args[0],))
            return [(st, None)]
        if name == 'generate' and isinstance(recv, tuple) and recv[0] == 'new':
            tname = dispatch_target(self.repo, recv[1])
            target = self.repo.lookup_method(self.cls, tname) if tname else None
            if target is None:
                raise AnalysisError('templates: cannot resolve %s.generate' % recv[1].name)
            return self.call(target, [recv], st)
        if name == 'generate' and isinstance(recv, SObj):
            ind = st.fields.get('indentation', SInt('indentation', 0)).off
            loop = st.fields.get('loop_level', SInt('loop_level', 0)).off
            return [(st, Sub(recv.expr, m, ind, loop))]
        if isinstance(recv, SObj) or (isinstance(recv, tuple) and recv and recv[0] in ('sym', 'str', 'global', 'attr')):
            return [(st, ('sym', norm(e), e))]
        raise AnalysisError('templates: unsupported method call %s in %s' % (norm(e), m.qname))


_NORET = object()
_UNKNOWN = object()


def _cmp(op, a, b):
    return {ast.Eq: a == b, ast.NotEq: a != b, ast.Lt: a < b, ast.Gt: a > b, ast.LtE: a <= b, ast.GtE: a >= b}[type(op)]


def _as_load(t):
    import copy
    c = copy.copy(t)
    c.ctx = ast.Load()
    return c


def _rebase(attr_node, base):
    """attribute node whose value is the expression of the symbolic base"""
    n = ast.Attribute(value=base.expr, attr=attr_node.attr, ctx=ast.Load())
    n.lineno = getattr(attr_node, 'lineno', 0)
    n.col_offset = getattr(attr_node, 'col_offset', 0)
    return n


# ---------------------------------------------------------------------------------------------
# the template set, sample trees and rendering


class Node:
    """a sample code tree: class name + field values (Node, list of Node, or sample text)"""

    def __init__(self, cls, **fields):
        self.cls = cls
        self.fields = fields

    def __repr__(self):
        return '%s(%s)' % (self.cls, ', '.join('%s=%r' % kv for kv in self.fields.items()))


class RenderError(Exception):
    pass


class RenderRaises(RenderError):
    """the emitter itself refuses the tree (a raise statement guards this shape)"""


def dispatch_target(repo, c, method='generate'):
    """name of the emitter method a code class hands itself to: ``return generator.X(self)`` or
    ``return getattr(generator, self.ATTR)(self)`` with ATTR a string constant of the class"""
    gm = repo.lookup_method(c, method)
    if gm is None or len(gm.params) < 2:
        return None
    g = gm.params[1]
    me = gm.params[0]
    for n in own_nodes(gm.node):
        if not (isinstance(n, ast.Return) and isinstance(n.value, ast.Call)):
            continue
        fn = n.value.func
        if isinstance(fn, ast.Attribute) and is_name(fn.value, g):
            return fn.attr
        if isinstance(fn, ast.Call) and is_name(fn.func, 'getattr') and len(fn.args) == 2 and is_name(fn.args[0], g):
            a = fn.args[1]
            if isinstance(a, ast.Attribute) and is_name(a.value, me):
                for k in repo.mro(c):
                    v = k.class_attrs.get(a.attr)
                    if v is not None:
                        return v.value if isinstance(v, ast.Constant) and isinstance(v.value, str) else None
    return None


class TemplateSet:
    def __init__(self, repo, gen_cls=None, module='yp_generator'):
        self.repo = repo
        self.gen_cls = gen_cls or repo.cls(module, 'YPPythonCodeGenerator')
        self.ex = Extractor(repo, self.gen_cls)
        self.by_class = {}       # code class name -> (method name, alternatives)
        self.methods = {}
        for c in repo.all_classes((module,)):
            if c is self.gen_cls:
                continue
            target = dispatch_target(repo, c)
            if target is None:
                continue
            if target not in self.methods:
                self.methods[target] = self.ex.template(target)
            self.by_class[c.name] = (target, self.methods[target])
        self.entry = self.ex.template('generate') if 'generate' in self.gen_cls.methods else None
        self.problems = self.ex.problems

    # -- evaluation of hole/guard expressions on a sample tree ---------------------------
    def _val(self, expr, env):
        if isinstance(expr, ast.Name):
            if expr.id in env:
                return env[expr.id]
            raise RenderError('unbound name %s' % expr.id)
        if isinstance(expr, ast.Attribute):
            if is_self_attr(expr.value, 'context') or norm(expr.value) == 'self.context':
                return env.get('context', {}).get(expr.attr, '')
            b = self._val(expr.value, env)
            if isinstance(b, Node):
                if expr.attr not in b.fields:
                    raise RenderError('%s has no field %s' % (b.cls, expr.attr))
                return b.fields[expr.attr]
            raise RenderError('attribute %s of %r' % (expr.attr, b))
        if isinstance(expr, ast.Call) and is_name(expr.func, 'len'):
            return len(self._val(expr.args[0], env))
        if isinstance(expr, ast.Call) and norm(expr.func) in ('json.dumps', 'repr', 'str', 'int', 'ascii') and len(expr.args) == 1 and not expr.keywords:
            import json
            fn = {'json.dumps': json.dumps, 'repr': repr, 'str': str, 'int': int, 'ascii': ascii}[norm(expr.func)]
            try:
                return fn(self._val(expr.args[0], env))
            except (TypeError, ValueError) as e:
                raise RenderError('%s fails on the sample value: %s' % (norm(expr.func), e))
        if isinstance(expr, ast.Call) and is_name(expr.func, 'isinstance') and len(expr.args) == 2:
            v = self._val(expr.args[0], env)
            names = [x.id for x in ast.walk(expr.args[1]) if isinstance(x, ast.Name)]
            py = {'str': str, 'int': int, 'bool': bool, 'list': list, 'tuple': tuple, 'dict': dict, 'float': float}
            if isinstance(v, Node):
                mro = set()
                for c in self.repo.all_classes():
                    if c.name == v.cls:
                        mro = {k.name for k in self.repo.mro(c)}
                return any(n in mro for n in names)
            return any(n in py and isinstance(v, py[n]) for n in names)
        if isinstance(expr, ast.Constant):
            return expr.value
        if isinstance(expr, ast.List) and not expr.elts:
            return []
        if isinstance(expr, ast.Compare) and len(expr.ops) == 1:
            a, b = self._val(expr.left, env), self._val(expr.comparators[0], env)
            if isinstance(expr.ops[0], ast.Eq):
                return a == b
            if isinstance(expr.ops[0], ast.NotEq):
                return a != b
        if isinstance(expr, ast.UnaryOp) and isinstance(expr.op, ast.Not):
            return not self._val(expr.operand, env)
        raise RenderError('cannot evaluate %s on a sample tree' % norm(expr))

    def _state_val(self, v, ind, loop):
        if isinstance(v, SInt):
            if v.field is None:
                return v.off
            return (loop if v.field == 'loop_level' else ind) + v.off
        if isinstance(v, tuple) and v and v[0] == 'global':
            r = self.repo.module_binding(self.gen_cls.module, v[1])
            if r and r[0] == 'var' and isinstance(r[2], ast.Constant):
                return r[2].value
        return None

    def _guard_ok(self, g, env, ind, loop):
        v = g.value
        if isinstance(v, tuple) and v and v[0] == 'condnot':
            inner = Guard(g.test.operand if isinstance(g.test, ast.UnaryOp) else g.test, not g.polarity, v[1])
            return self._guard_ok(inner, env, ind, loop)
        if isinstance(v, tuple) and v and v[0] == 'pred':
            args = []
            for a in v[2]:
                if isinstance(a, SObj):
                    args.append(self._val(a.expr, env))
                elif isinstance(a, SInt):
                    args.append(self._state_val(a, ind, loop))
                elif isinstance(a, Lit):
                    args.append(a.t)
                else:
                    args.append(a)
            return bool(TreePredicate(self.repo, self.gen_cls).run(v[1], args)) == g.polarity
        if isinstance(v, Doc):
            t = bool(self.render_doc(v, env, ind, loop))
        elif isinstance(v, tuple) and v and v[0] == 'cond' and len(v) == 5 and \
                self._state_val(v[3], ind, loop) is not None and self._state_val(v[4], ind, loop) is not None:
            t = _cmp(v[2], self._state_val(v[3], ind, loop), self._state_val(v[4], ind, loop))
        elif isinstance(v, tuple) and v and v[0] == 'cond' and len(v) == 5 and v[2] == 'isinstance':
            x = self._sym_val(v[3], env, ind, loop)
            if x is _UNKNOWN:
                raise RenderError('cannot evaluate %s on a sample tree' % v[1])
            py = {'str': str, 'int': int, 'bool': bool, 'list': list, 'tuple': tuple, 'dict': dict, 'float': float}
            if isinstance(x, Node):
                mro = set()
                for c in self.repo.all_classes():
                    if c.name == x.cls:
                        mro = {k.name for k in self.repo.mro(c)}
                t = any(n in mro for n in v[4])
            else:
                t = any(n in py and isinstance(x, py[n]) for n in v[4])
        elif isinstance(v, tuple) and v and v[0] == 'cond' and len(v) == 5 and isinstance(v[2], (ast.Eq, ast.NotEq, ast.Is, ast.IsNot)) and \
                self._sym_val(v[3], env, ind, loop) is not _UNKNOWN and self._sym_val(v[4], env, ind, loop) is not _UNKNOWN:
            # operands seen from the template's own parameters (the comparison may sit in a helper)
            a, b = self._sym_val(v[3], env, ind, loop), self._sym_val(v[4], env, ind, loop)
            t = (a == b) if isinstance(v[2], (ast.Eq, ast.Is)) else (a != b)
        elif isinstance(v, SObj):
            t = bool(self._val(v.expr, env))
        else:
            t = bool(self._val(g.test, env))
        return t == g.polarity

    def _sym_val(self, v, env, ind, loop):
        if isinstance(v, SObj):
            try:
                return self._val(v.expr, env)
            except RenderError:
                return _UNKNOWN
        if isinstance(v, SInt):
            r = self._state_val(v, ind, loop)
            return r if r is not None else _UNKNOWN
        if isinstance(v, PyList) and not v.items:
            return []
        if isinstance(v, Lit):
            return v.t
        if isinstance(v, bool) or v is None:
            return v
        if isinstance(v, tuple) and v and v[0] == 'len':
            try:
                return self._val(v[1], env)
            except RenderError:
                return _UNKNOWN
        return _UNKNOWN

    def choose(self, alts, env, ind, loop):
        ok = [(gs, d, net) for gs, d, net in alts if all(self._guard_ok(g, env, ind, loop) for g in gs)]
        if not ok and self.ex.raising_paths:
            raise RenderRaises('the emitter raises (%s)' % norm(self.ex.raising_paths[0][1]))
        if len(ok) != 1:
            raise RenderError('%d alternatives apply' % len(ok))
        return ok[0]

    # -- rendering --------------------------------------------------------------------------
    def render_node(self, node, ind=0, loop=0, context=None):
        if node.cls not in self.by_class:
            raise RenderError('no template for class %s' % node.cls)
        mname, alts = self.by_class[node.cls]
        m = self.repo.lookup_method(self.gen_cls, mname)
        env = {m.params[1]: node, 'context': context or {}}
        gs, d, net = self.choose(alts, env, ind, loop)
        return self.render_doc(d, env, ind, loop)

    def render_program(self, node, context=None):
        m = self.repo.lookup_method(self.gen_cls, 'generate')
        env = {m.params[1]: node, 'context': context or {}}
        gs, d, net = self.choose(self.entry, env, 0, 0)
        return self.render_doc(d, env, 0, 0)

    def render_doc(self, d, env, ind, loop):
        if isinstance(d, Lit):
            return d.t
        if isinstance(d, Cat):
            return ''.join(self.render_doc(p, env, ind, loop) for p in d.parts)
        if isinstance(d, IndentDoc):
            return ' ' * (d.width * (ind + d.off))
        if isinstance(d, IntDoc):
            base = loop if d.field == 'loop_level' else ind
            return str(base + d.off)
        if isinstance(d, Hole):
            v = self._hole_val(d.expr, env)
            if isinstance(v, (list, Node)):
                raise RenderError('a %s is pasted as text at {%s}' % (type(v).__name__, norm(d.expr)))
            return str(v)
        if isinstance(d, Repr):
            return repr(self._hole_val(d.expr, env))
        if isinstance(d, Sub):
            child = self._val(d.expr, env)
            if not isinstance(child, Node):
                raise RenderError('%s is not a code node' % norm(d.expr))
            return self.render_node(child, ind + d.ind, loop + d.loop, env.get('context'))
        if isinstance(d, Lines):
            parts = []
            for it in d.items:
                if isinstance(it, MapSub):
                    parts.extend(self._render_map(it, env, ind, loop))
                elif isinstance(it, PyList):
                    raise RenderError('TypeError: sequence item: expected str instance, list found (%r)' % (it,))
                else:
                    parts.append(self.render_doc(it, env, ind, loop))
            return d.sep.join(parts)
        if isinstance(d, (PyList, MapSub)):
            raise RenderError('a Python list is pasted as text')
        raise RenderError('cannot render %r' % (d,))

    def _hole_val(self, expr, env):
        if isinstance(expr, ast.Name) and expr.id not in env:
            g = env.get('globals', {})
            if expr.id in g:
                return g[expr.id]
            r = self.repo.module_binding(self.gen_cls.module, expr.id)
            if r and r[0] == 'var' and isinstance(r[2], ast.Constant):
                return r[2].value
            return 'X'        # a local of the emitter method holding some string: sample text
        if isinstance(expr, ast.Call):
            try:
                return self._val(expr, env)
            except RenderError:
                return 'X'
        return self._val(expr, env)

    def _render_map(self, ms, env, ind, loop):
        lst = self._val(ms.listexpr, env)
        out = []
        for item in lst:
            e2 = dict(env)
            e2[ms.var] = item
            out.append(self.render_doc(ms.elem, e2, ind, loop))
        return out


class TreePredicate:
    """evaluates a side-effect-free helper of the emitter (a predicate over the code tree) on a sample
    tree: isinstance tests, loops, any/all, recursion into other helpers, comparisons"""

    class _Ret(Exception):
        def __init__(self, v):
            self.v = v

    def __init__(self, repo, cls):
        self.repo = repo
        self.cls = cls
        self.steps = 0

    def run(self, m, args):
        env = {'self': self}
        params = m.params[1:]
        for p, a in zip(params, args):
            env[p] = a
        try:
            self.block(m.node.body, env, m)
        except TreePredicate._Ret as r:
            return r.v
        return None

    def block(self, stmts, env, m):
        for s in stmts:
            self.steps += 1
            if self.steps > 100000:
                raise RenderError('tree predicate %s does not terminate' % m.name)
            if isinstance(s, ast.Return):
                raise TreePredicate._Ret(self.ev(s.value, env, m) if s.value is not None else None)
            elif isinstance(s, ast.If):
                self.block(s.body if self.ev(s.test, env, m) else s.orelse, env, m)
            elif isinstance(s, ast.For):
                for item in self.ev(s.iter, env, m):
                    if not isinstance(s.target, ast.Name):
                        raise RenderError('tree predicate: unsupported loop target')
                    env[s.target.id] = item
                    self.block(s.body, env, m)
            elif isinstance(s, ast.Assign) and len(s.targets) == 1 and isinstance(s.targets[0], ast.Name):
                env[s.targets[0].id] = self.ev(s.value, env, m)
            elif isinstance(s, ast.Expr) and isinstance(s.value, ast.Constant):
                pass
            elif isinstance(s, ast.Pass):
                pass
            else:
                raise RenderError('tree predicate %s: unsupported statement %s' % (m.name, type(s).__name__))

    def ev(self, e, env, m):
        if isinstance(e, ast.Constant):
            return e.value
        if isinstance(e, ast.Name):
            if e.id in env:
                return env[e.id]
            r = self.repo.resolve_name(m, e.id)
            if r and r[0] == 'class':
                return r[1]
            if e.id in ('True', 'False', 'None'):
                return {'True': True, 'False': False, 'None': None}[e.id]
            raise RenderError('tree predicate: unbound name %s' % e.id)
        if isinstance(e, ast.Attribute):
            b = self.ev(e.value, env, m)
            if isinstance(b, Node):
                if e.attr in b.fields:
                    return b.fields[e.attr]
                raise RenderError('tree predicate: %s has no field %s' % (b.cls, e.attr))
            raise RenderError('tree predicate: attribute %s of %r' % (e.attr, b))
        if isinstance(e, ast.BoolOp):
            if isinstance(e.op, ast.And):
                v = True
                for x in e.values:
                    v = self.ev(x, env, m)
                    if not v:
                        return v
                return v
            v = False
            for x in e.values:
                v = self.ev(x, env, m)
                if v:
                    return v
            return v
        if isinstance(e, ast.UnaryOp) and isinstance(e.op, ast.Not):
            return not self.ev(e.operand, env, m)
        if isinstance(e, ast.Compare) and len(e.ops) == 1:
            a, b = self.ev(e.left, env, m), self.ev(e.comparators[0], env, m)
            op = e.ops[0]
            if isinstance(op, ast.Eq):
                return a == b
            if isinstance(op, ast.NotEq):
                return a != b
            if isinstance(op, ast.Is):
                return a is b
            if isinstance(op, ast.IsNot):
                return a is not b
            if isinstance(op, ast.In):
                return a in b
            if isinstance(op, ast.NotIn):
                return a not in b
            if isinstance(op, (ast.Lt, ast.Gt, ast.LtE, ast.GtE)):
                return _cmp(op, a, b)
        if isinstance(e, (ast.List, ast.Tuple)):
            return [self.ev(x, env, m) for x in e.elts]
        if isinstance(e, ast.Subscript):
            b = self.ev(e.value, env, m)
            i = self.ev(e.slice, env, m) if not isinstance(e.slice, ast.Slice) else None
            try:
                return b[i] if i is not None else list(b)
            except (IndexError, TypeError, KeyError):
                raise RenderError('tree predicate: subscript out of range')
        if isinstance(e, ast.UnaryOp) and isinstance(e.op, ast.USub):
            return -self.ev(e.operand, env, m)
        if isinstance(e, (ast.GeneratorExp, ast.ListComp)) and len(e.generators) == 1:
            g = e.generators[0]
            out = []
            for item in self.ev(g.iter, env, m):
                e2 = dict(env)
                e2[g.target.id] = item
                if all(self.ev(c, e2, m) for c in g.ifs):
                    out.append(self.ev(e.elt, e2, m))
            return out
        if isinstance(e, ast.Call):
            if isinstance(e.func, ast.Name):
                n = e.func.id
                args = [self.ev(a, env, m) for a in e.args]
                if n == 'isinstance':
                    obj, cls = args
                    classes = cls if isinstance(cls, list) else [cls]
                    if not isinstance(obj, Node):
                        return False
                    oc = None
                    for c in self.repo.all_classes():
                        if c.name == obj.cls:
                            oc = c
                    return oc is not None and any(k in self.repo.mro(oc) for k in classes)
                if n == 'len':
                    return len(args[0])
                if n == 'any':
                    return any(args[0])
                if n == 'all':
                    return all(args[0])
                if n == 'bool':
                    return bool(args[0])
            if isinstance(e.func, ast.Attribute) and is_name(e.func.value, 'self'):
                target = self.repo.lookup_method(self.cls, e.func.attr)
                if target is not None:
                    return self.run(target, [self.ev(a, env, m) for a in e.args])
        raise RenderError('tree predicate %s: unsupported expression %s' % (m.name, norm(e)[:50]))


def walk_doc(d):
    yield d
    if isinstance(d, Cat):
        for p in d.parts:
            yield from walk_doc(p)
    elif isinstance(d, Lines):
        for p in d.items:
            yield from walk_doc(p)
    elif isinstance(d, PyList):
        for p in d.items:
            if isinstance(p, Doc):
                yield from walk_doc(p)
    elif isinstance(d, MapSub):
        yield from walk_doc(d.elem)
