"""E2 - control-flow graphs with generator exits.

Nodes are *events* in evaluation order (calls, yields, stores, tests, loop heads, raises); every
``yield`` has three out-edges (resume, throw, close), ``finally`` bodies are duplicated per
continuation, ``for`` loops over short literal lists are unrolled (``for _ in [1]:`` runs its body
exactly once), and exits are typed (return / fall / exc / close).
"""
import ast
import builtins
from collections import deque

from .model import AnalysisError

ANY = '*'            # an exception of unknown class
GENEXIT = 'GeneratorExit'


class Node:
    __slots__ = ('id', 'kind', 'ast', 'stmt', 'info', 'tag')

    def __init__(self, id, kind, astnode=None, stmt=None, info=None, tag=None):
        self.id = id
        self.kind = kind
        self.ast = astnode
        self.stmt = stmt
        self.info = info
        self.tag = tag

    @property
    def lineno(self):
        for a in (self.ast, self.stmt):
            if a is not None and hasattr(a, 'lineno'):
                return a.lineno
        return 0

    def __repr__(self):
        txt = ''
        if self.ast is not None:
            try:
                txt = ' '.join(ast.unparse(self.ast).split())[:50]
            except Exception:
                txt = type(self.ast).__name__
        return '<%d %s%s L%d %s>' % (self.id, self.kind, '(%s)' % self.info if self.info else '', self.lineno, txt)


class Graph:
    """A labelled digraph with the handful of queries the rules need."""

    def __init__(self):
        self.nodes = []
        self.succ = {}
        self.pred = {}

    def add_edge(self, a, b, label='next'):
        if (label, b) not in self.succ.setdefault(a, []):
            self.succ[a].append((label, b))
            self.pred.setdefault(b, []).append((label, a))
        self.succ.setdefault(b, [])
        self.pred.setdefault(a, [])

    def successors(self, n, edge_ok=None):
        for lbl, m in self.succ.get(n, ()):
            if edge_ok is None or edge_ok(lbl, n, m):
                yield lbl, m

    def reach(self, starts, avoid=None, edge_ok=None, include_starts=False):
        """Nodes reachable from ``starts`` (exclusive unless include_starts) without *entering*
        a node for which ``avoid`` holds."""
        seen = set()
        dq = deque()
        for s in starts:
            if include_starts:
                if avoid is None or not avoid(s):
                    seen.add(s)
                    dq.append(s)
            else:
                dq.append(s)
        first = set(starts)
        while dq:
            n = dq.popleft()
            for lbl, m in self.successors(n, edge_ok):
                if m in seen:
                    continue
                if avoid is not None and avoid(m):
                    continue
                seen.add(m)
                dq.append(m)
        return seen

    def find_path(self, start, goal, avoid=None, edge_ok=None):
        """Shortest path (list of (label, node)) from start to a node satisfying goal."""
        prev = {start: None}
        dq = deque([start])
        while dq:
            n = dq.popleft()
            for lbl, m in self.successors(n, edge_ok):
                if m in prev:
                    continue
                if avoid is not None and avoid(m) and not goal(m):
                    continue
                prev[m] = (n, lbl)
                if goal(m):
                    path = [(lbl, m)]
                    cur = n
                    while prev[cur] is not None:
                        p, l = prev[cur]
                        path.append((l, cur))
                        cur = p
                    path.reverse()
                    return path
                dq.append(m)
        return None

    def dominators(self, entry):
        """dom[n] = set of nodes dominating n (iterative; graphs are tiny)."""
        nodes = list(self.reach([entry], include_starts=True))
        allset = set(nodes)
        dom = {n: set(allset) for n in nodes}
        dom[entry] = {entry}
        changed = True
        while changed:
            changed = False
            for n in nodes:
                if n is entry:
                    continue
                preds = [p for _, p in self.pred.get(n, ()) if p in allset]
                if not preds:
                    new = {n}
                else:
                    new = set.intersection(*[dom[p] for p in preds]) | {n}
                if new != dom[n]:
                    dom[n] = new
                    changed = True
        return dom


_BUILTIN_EXC = {n: getattr(builtins, n) for n in dir(builtins)
                if isinstance(getattr(builtins, n), type) and issubclass(getattr(builtins, n), BaseException)}


class ExcMatcher:
    """Does an exception of class X reach a handler for class H?  Repository exception classes
    are resolved through the model, builtin ones through Python's own hierarchy."""

    def __init__(self, repo=None, func=None):
        self.repo = repo
        self.func = func

    def ancestors(self, name):
        """Names of all ancestor classes (inclusive), or None if unknown."""
        name = name.split('.')[-1]
        if name in _BUILTIN_EXC:
            return {c.__name__ for c in _BUILTIN_EXC[name].__mro__}
        if self.repo is not None:
            for ci in self.repo.all_classes():
                if ci.name == name:
                    out = set()
                    for c in self.repo.mro(ci):
                        out.add(c.name)
                        for b in c.base_exprs:
                            bn = b.split('.')[-1]
                            if bn in _BUILTIN_EXC:
                                out |= {k.__name__ for k in _BUILTIN_EXC[bn].__mro__}
                            else:
                                out.add(bn)
                    return out
        return None

    def handler_names(self, h):
        if h.type is None:
            return ['BaseException']
        if isinstance(h.type, ast.Tuple):
            return [ast.unparse(e).split('.')[-1] for e in h.type.elts]
        return [ast.unparse(h.type).split('.')[-1]]

    def match(self, exc, handler):
        """'yes' | 'no' | 'maybe'"""
        hn = self.handler_names(handler)
        if 'BaseException' in hn:
            return 'yes'
        if exc == ANY:
            return 'maybe'
        anc = self.ancestors(exc)
        if anc is None:
            return 'yes' if 'Exception' in hn and exc != GENEXIT else 'maybe'
        for h in hn:
            if h in anc:
                return 'yes'
        # a handler for a subclass may match an instance of a subclass of exc: exc names an exact
        # raise site class in our uses, so 'no'
        return 'no'


def _const_list_len(it):
    if isinstance(it, (ast.List, ast.Tuple)) and len(it.elts) <= 4 and \
            all(isinstance(e, ast.Constant) for e in it.elts):
        return len(it.elts)
    return None


class _Frame:
    def __init__(self, parent):
        self.parent = parent

    def on_break(self):
        return self.parent.on_break()

    def on_continue(self):
        return self.parent.on_continue()

    def on_return(self):
        return self.parent.on_return()

    def on_raise(self, exc):
        return self.parent.on_raise(exc)


class _FuncFrame(_Frame):
    def __init__(self, b):
        self.parent = None
        self.b = b

    def on_break(self):
        raise AnalysisError('break outside loop')

    on_continue = on_break

    def on_return(self):
        return self.b.exit('return')

    def on_raise(self, exc):
        if exc == GENEXIT:
            return [self.b.exit('close')]
        return [self.b.exit('exc')]


class _LoopFrame(_Frame):
    def __init__(self, parent, brk, cont):
        self.parent = parent
        self.brk = brk
        self.cont = cont

    def on_break(self):
        return self.brk

    def on_continue(self):
        return self.cont


class _ExceptFrame(_Frame):
    """the body of a try with handlers"""

    def __init__(self, parent, b, handlers):
        self.parent = parent
        self.b = b
        self.handlers = handlers     # list of (ast handler, entry node)

    def on_raise(self, exc):
        out = []
        for h, entry in self.handlers:
            m = self.b.matcher.match(exc, h)
            if m in ('yes', 'maybe'):
                out.append(entry)
            if m == 'yes':
                return out
        return out + self.parent.on_raise(exc)


class _FinallyFrame(_Frame):
    """anything protected by a finally body (or a with block's __exit__)"""

    def __init__(self, parent, b, final_stmts, with_item=None, stmt=None):
        self.parent = parent
        self.b = b
        self.final = final_stmts
        self.with_item = with_item
        self.stmt = stmt
        self.memo = {}

    def _copy(self, key, cont_fn):
        """entry node of a copy of the finally body that continues with cont_fn() targets"""
        if key in self.memo:
            return self.memo[key]
        head = self.b.new('join', stmt=self.stmt, info='finally:' + str(key))
        self.memo[key] = head
        # the body of the finally runs in the parent's context
        if self.with_item is not None:
            n = self.b.new('withexit', self.with_item.context_expr, self.stmt, info=str(key))
            self.b.g.add_edge(head, n)
            ends = [n]
            for t in self.parent.on_raise(ANY):
                self.b.g.add_edge(n, t, 'exc')
        else:
            ends = self.b.seq(self.final, [head], self.parent)
        targets = cont_fn()
        for e in ends:
            for t in targets:
                self.b.g.add_edge(e, t, 'next')
        return head

    def on_break(self):
        return self._copy('break', lambda: [self.parent.on_break()])

    def on_continue(self):
        return self._copy('continue', lambda: [self.parent.on_continue()])

    def on_return(self):
        return self._copy('return', lambda: [self.parent.on_return()])

    def on_raise(self, exc):
        return [self._copy('raise:' + exc, lambda: self.parent.on_raise(exc))]

    def normal(self, after):
        return self._copy('normal', lambda: [after])


class CFGBuilder:
    def __init__(self, fnode, repo=None, func=None, unroll_literal=True, calls_raise=True):
        self.fnode = fnode
        self.g = Graph()
        self.matcher = ExcMatcher(repo, func)
        self.unroll = unroll_literal
        self.calls_raise = calls_raise
        self._exits = {}
        self.is_generator = any(isinstance(n, (ast.Yield, ast.YieldFrom)) for n in _own(fnode))
        self.entry = self.new('entry')
        frame = _FuncFrame(self)
        ends = self.seq(fnode.body, [self.entry], frame)
        for e in ends:
            self.g.add_edge(e, self.exit('fall'), 'next')

    # -- node helpers ---------------------------------------------------------------------
    def new(self, kind, astnode=None, stmt=None, info=None):
        n = Node(len(self.g.nodes), kind, astnode, stmt, info)
        self.g.nodes.append(n)
        self.g.succ.setdefault(n, [])
        self.g.pred.setdefault(n, [])
        return n

    def exit(self, kind):
        if kind not in self._exits:
            self._exits[kind] = self.new('exit', info=kind)
        return self._exits[kind]

    def link(self, froms, to, label='next'):
        for f in froms:
            self.g.add_edge(f, to, label)

    # -- expressions ----------------------------------------------------------------------
    def expr(self, e, cur, frame, stmt):
        """Append the events of expression e after the nodes ``cur``; returns the new ends."""
        if e is None:
            return cur
        for kind, node in _events(e):
            n = self.new(kind, node, stmt)
            self.link(cur, n)
            cur = [n]
            if kind in ('yield', 'yieldfrom'):
                for t in frame.on_raise(ANY):
                    self.g.add_edge(n, t, 'throw')
                for t in frame.on_raise(GENEXIT):
                    self.g.add_edge(n, t, 'close')
            elif kind in ('call', 'comp', 'subscr') and self.calls_raise and not _no_raise(node):
                for t in frame.on_raise(ANY):
                    self.g.add_edge(n, t, 'exc')
        return cur

    def stores(self, target, cur, stmt, value=None):
        for t in _store_targets(target):
            n = self.new('store', t, stmt, info=value)
            self.link(cur, n)
            cur = [n]
        return cur

    # -- statements -----------------------------------------------------------------------
    def seq(self, stmts, cur, frame):
        for s in stmts:
            if not cur:
                break
            cur = self.stmt(s, cur, frame)
        return cur

    def stmt(self, s, cur, frame):
        g = self.g
        if isinstance(s, ast.Expr):
            return self.expr(s.value, cur, frame, s)
        if isinstance(s, ast.Assign):
            cur = self.expr(s.value, cur, frame, s)
            for t in s.targets:
                cur = self.stores(t, cur, s, s.value)
            return cur
        if isinstance(s, ast.AugAssign):
            cur = self.expr(s.value, cur, frame, s)
            return self.stores(s.target, cur, s, s)
        if isinstance(s, ast.AnnAssign):
            if s.value is not None:
                cur = self.expr(s.value, cur, frame, s)
                cur = self.stores(s.target, cur, s, s.value)
            return cur
        if isinstance(s, ast.Return):
            cur = self.expr(s.value, cur, frame, s)
            n = self.new('return', s.value, s)
            self.link(cur, n)
            g.add_edge(n, frame.on_return(), 'return')
            return []
        if isinstance(s, ast.Raise):
            cur = self.expr(s.exc, cur, frame, s)
            n = self.new('raise', s.exc, s)
            self.link(cur, n)
            exc = ANY
            if s.exc is not None:
                e = s.exc.func if isinstance(s.exc, ast.Call) else s.exc
                if isinstance(e, (ast.Name, ast.Attribute)):
                    exc = ast.unparse(e).split('.')[-1]
                    if isinstance(s.exc, ast.Name) and not s.exc.id[:1].isupper():
                        exc = ANY       # re-raising a caught exception object
            for t in frame.on_raise(exc):
                g.add_edge(n, t, 'exc')
            return []
        if isinstance(s, ast.Pass):
            return cur
        if isinstance(s, (ast.Global, ast.Nonlocal)):
            return cur
        if isinstance(s, ast.Break):
            n = self.new('break', None, s)
            self.link(cur, n)
            g.add_edge(n, frame.on_break(), 'break')
            return []
        if isinstance(s, ast.Continue):
            n = self.new('continue', None, s)
            self.link(cur, n)
            g.add_edge(n, frame.on_continue(), 'continue')
            return []
        if isinstance(s, ast.Delete):
            for t in s.targets:
                n = self.new('del', t, s)
                self.link(cur, n)
                cur = [n]
            return cur
        if isinstance(s, ast.Assert):
            cur = self.expr(s.test, cur, frame, s)
            n = self.new('test', s.test, s, info='assert')
            self.link(cur, n)
            for t in frame.on_raise('AssertionError'):
                g.add_edge(n, t, 'false')
            return [n]
        if isinstance(s, (ast.Import, ast.ImportFrom)):
            return cur
        if isinstance(s, (ast.FunctionDef, ast.AsyncFunctionDef, ast.ClassDef)):
            n = self.new('store', ast.Name(id=s.name, ctx=ast.Store(), lineno=s.lineno, col_offset=0), s, info=s)
            self.link(cur, n)
            return [n]
        if isinstance(s, ast.If):
            return self._if(s, cur, frame)
        if isinstance(s, ast.While):
            return self._while(s, cur, frame)
        if isinstance(s, ast.For):
            return self._for(s, cur, frame)
        if isinstance(s, ast.Try):
            return self._try(s, cur, frame)
        if isinstance(s, ast.With):
            return self._with(s, cur, frame)
        raise AnalysisError('unsupported statement %s at line %d' % (type(s).__name__, s.lineno))

    def _test(self, test, cur, frame, stmt):
        cur = self.expr(test, cur, frame, stmt)
        n = self.new('test', test, stmt)
        self.link(cur, n)
        return n

    def _if(self, s, cur, frame):
        t = self._test(s.test, cur, frame, s)
        cv = _const_truth(s.test)
        ends = []
        if cv is not False:
            j = self.new('join', stmt=s, info='then')
            self.g.add_edge(t, j, 'true')
            ends += self.seq(s.body, [j], frame)
        if cv is not True:
            j = self.new('join', stmt=s, info='else')
            self.g.add_edge(t, j, 'false')
            ends += self.seq(s.orelse, [j], frame)
        return ends

    def _while(self, s, cur, frame):
        head = self.new('join', stmt=s, info='while')
        self.link(cur, head)
        t = self._test(s.test, [head], frame, s)
        after = self.new('join', stmt=s, info='endwhile')
        cv = _const_truth(s.test)
        if cv is not False:
            j = self.new('join', stmt=s, info='body')
            self.g.add_edge(t, j, 'true')
            ends = self.seq(s.body, [j], _LoopFrame(frame, after, head))
            self.link(ends, head, 'loop')
        if cv is not True:
            j = self.new('join', stmt=s, info='else')
            self.g.add_edge(t, j, 'false')
            ends = self.seq(s.orelse, [j], frame)
            self.link(ends, after)
        return [after]

    def _for(self, s, cur, frame):
        k = _const_list_len(s.iter) if self.unroll else None
        after = self.new('join', stmt=s, info='endfor')
        if k is not None:
            # exact unrolling of loops over a short literal list
            heads = [self.new('join', stmt=s, info='iter%d' % i) for i in range(k)]
            exhausted = self.new('join', stmt=s, info='exhausted')
            self.link(cur, heads[0] if k else exhausted)
            for i in range(k):
                nxt = heads[i + 1] if i + 1 < k else exhausted
                c = self.stores(s.target, [heads[i]], s)
                ends = self.seq(s.body, c, _LoopFrame(frame, after, nxt))
                self.link(ends, nxt, 'loop')
            ends = self.seq(s.orelse, [exhausted], frame)
            self.link(ends, after)
            return [after]
        cur = self.expr(s.iter, cur, frame, s)
        it = self.new('iter', s.iter, s)
        self.link(cur, it)
        head = self.new('fornext', s.iter, s)
        self.g.add_edge(it, head)
        if self.calls_raise:
            for t in frame.on_raise(ANY):
                self.g.add_edge(head, t, 'exc')
        body = self.new('join', stmt=s, info='body')
        self.g.add_edge(head, body, 'body')
        c = self.stores(s.target, [body], s)
        ends = self.seq(s.body, c, _LoopFrame(frame, after, head))
        self.link(ends, head, 'loop')
        ex = self.new('join', stmt=s, info='exhausted')
        self.g.add_edge(head, ex, 'exhausted')
        ends = self.seq(s.orelse, [ex], frame)
        self.link(ends, after)
        return [after]

    def _try(self, s, cur, frame):
        if getattr(s, 'handlers', None) is None:
            raise AnalysisError('unsupported try form')
        after = self.new('join', stmt=s, info='endtry')
        outer = frame
        fin = None
        if s.finalbody:
            fin = _FinallyFrame(frame, self, s.finalbody, stmt=s)
            outer = fin
        body_frame = outer
        handler_entries = []
        if s.handlers:
            for h in s.handlers:
                handler_entries.append((h, self.new('handler', h.type, h, info=h.name)))
            body_frame = _ExceptFrame(outer, self, handler_entries)
        ends = self.seq(s.body, cur, body_frame)
        ends = self.seq(s.orelse, ends, outer)
        for h, entry in handler_entries:
            ends += self.seq(h.body, [entry], outer)
        if fin is not None:
            if ends:
                self.link(ends, fin.normal(after))
        else:
            self.link(ends, after)
        return [after] if self.g.pred.get(after) else []

    def _with(self, s, cur, frame):
        after = self.new('join', stmt=s, info='endwith')
        frames = []
        f = frame
        for item in s.items:
            cur = self.expr(item.context_expr, cur, f, s)
            n = self.new('withenter', item.context_expr, s)
            self.link(cur, n)
            cur = [n]
            if item.optional_vars is not None:
                cur = self.stores(item.optional_vars, cur, s)
            f = _FinallyFrame(f, self, [], with_item=item, stmt=s)
            frames.append(f)
        ends = self.seq(s.body, cur, f)
        if ends:
            # normal exit: the innermost manager exits first, the outermost last
            target = after
            for fr in frames:
                target = fr.normal(target)
            self.link(ends, target)
        return [after] if self.g.pred.get(after) else []


_NO_RAISE = {'hasattr', 'isinstance', 'callable', 'id', 'issubclass'}


def _no_raise(node):
    """calls that cannot raise whatever their arguments are"""
    return isinstance(node, ast.Call) and isinstance(node.func, ast.Name) and node.func.id in _NO_RAISE


def _own(fnode):
    stack = list(fnode.body)
    while stack:
        n = stack.pop()
        yield n
        for c in ast.iter_child_nodes(n):
            if isinstance(c, (ast.FunctionDef, ast.AsyncFunctionDef, ast.Lambda, ast.ClassDef)):
                continue
            stack.append(c)


def _const_truth(test):
    if isinstance(test, ast.Constant):
        return bool(test.value)
    return None


def _store_targets(t):
    if isinstance(t, (ast.Tuple, ast.List)):
        for e in t.elts:
            yield from _store_targets(e)
    elif isinstance(t, ast.Starred):
        yield from _store_targets(t.value)
    else:
        yield t


def _events(e):
    """(kind, node) for calls, yields and comprehensions of expression e, in evaluation order."""
    if e is None:
        return
    if isinstance(e, ast.Lambda):
        return
    if isinstance(e, (ast.ListComp, ast.SetComp, ast.DictComp, ast.GeneratorExp)):
        # the outermost iterable is evaluated eagerly, the rest belongs to the comprehension
        yield from _events(e.generators[0].iter)
        yield ('comp', e)
        return
    if isinstance(e, ast.Call):
        yield from _events(e.func)
        for a in e.args:
            yield from _events(a.value if isinstance(a, ast.Starred) else a)
        for k in e.keywords:
            yield from _events(k.value)
        yield ('call', e)
        return
    if isinstance(e, ast.Yield):
        yield from _events(e.value)
        yield ('yield', e)
        return
    if isinstance(e, ast.YieldFrom):
        yield from _events(e.value)
        yield ('yieldfrom', e)
        return
    if isinstance(e, ast.Await):
        raise AnalysisError('await is not supported')
    if isinstance(e, ast.Subscript) and isinstance(e.ctx, ast.Load):
        yield from _events(e.value)
        yield from _events(e.slice)
        yield ('subscr', e)
        return
    for c in ast.iter_child_nodes(e):
        if isinstance(c, ast.expr):
            yield from _events(c)
        elif isinstance(c, ast.keyword):
            yield from _events(c.value)
        elif isinstance(c, ast.FormattedValue):
            yield from _events(c.value)


class CFG:
    def __init__(self, fnode, repo=None, func=None, **kw):
        b = CFGBuilder(fnode, repo, func, **kw)
        self.fnode = fnode
        self.g = b.g
        self.entry = b.entry
        self.exits = dict(b._exits)
        self.is_generator = b.is_generator
        live = self.g.reach([self.entry], include_starts=True)
        self.live = live

    @property
    def nodes(self):
        return [n for n in self.g.nodes if n in self.live]

    def exit_nodes(self, kinds=None):
        return [n for k, n in self.exits.items() if (kinds is None or k in kinds) and n in self.live]

    def nodes_of(self, pred):
        return [n for n in self.nodes if pred(n)]

    def describe_path(self, path, limit=12):
        out = []
        for lbl, n in path:
            if n.kind in ('join',):
                if lbl not in ('next',):
                    out.append('--%s-->' % lbl)
                continue
            out.append(('--%s--> ' % lbl if lbl != 'next' else '') + _short(n))
        if len(out) > limit:
            out = out[:limit // 2] + ['...'] + out[-limit // 2:]
        return ' ; '.join(out)


def _short(n):
    if n.kind == 'exit':
        return 'EXIT(%s)' % n.info
    t = ''
    if n.ast is not None:
        try:
            t = ' '.join(ast.unparse(n.ast).split())[:60]
        except Exception:
            t = ''
    return 'L%d:%s %s' % (n.lineno, n.kind, t)


# ---------------------------------------------------------------------------------------------
# flag-product graph


def bool_flags(fnode):
    """locals that are only ever assigned boolean constants (and are not parameters)"""
    params = {a.arg for a in fnode.args.posonlyargs + fnode.args.args + fnode.args.kwonlyargs}
    ok, bad = set(), set()
    for n in _own(fnode):
        if isinstance(n, ast.Assign):
            for t in n.targets:
                for x in _store_targets(t):
                    if isinstance(x, ast.Name):
                        if isinstance(n.value, ast.Constant) and isinstance(n.value.value, bool) \
                                and isinstance(t, ast.Name):
                            ok.add(x.id)
                        else:
                            bad.add(x.id)
        elif isinstance(n, (ast.AugAssign, ast.AnnAssign)):
            for x in _store_targets(n.target):
                if isinstance(x, ast.Name):
                    bad.add(x.id)
        elif isinstance(n, (ast.For, ast.comprehension)):
            for x in ast.walk(n.target):
                if isinstance(x, ast.Name):
                    bad.add(x.id)
        elif isinstance(n, ast.withitem) and n.optional_vars is not None:
            for x in ast.walk(n.optional_vars):
                if isinstance(x, ast.Name):
                    bad.add(x.id)
        elif isinstance(n, ast.ExceptHandler) and n.name:
            bad.add(n.name)
        elif isinstance(n, (ast.Global, ast.Nonlocal)):
            bad.update(n.names)
        elif isinstance(n, ast.NamedExpr):
            bad.add(n.target.id)
    return (ok - bad) - params


def _eval_flag_expr(e, val):
    """three-valued evaluation of a boolean expression over known flags: True/False/None"""
    if isinstance(e, ast.Constant):
        return bool(e.value)
    if isinstance(e, ast.Name):
        return val.get(e.id)
    if isinstance(e, ast.UnaryOp) and isinstance(e.op, ast.Not):
        v = _eval_flag_expr(e.operand, val)
        return None if v is None else (not v)
    if isinstance(e, ast.BoolOp):
        vs = [_eval_flag_expr(x, val) for x in e.values]
        if isinstance(e.op, ast.And):
            if any(v is False for v in vs):
                return False
            return True if all(v is True for v in vs) else None
        if any(v is True for v in vs):
            return True
        return False if all(v is False for v in vs) else None
    return None


class ProductCFG:
    """CFG x valuations of boolean-constant locals; branches on known flags are deterministic."""

    def __init__(self, cfg, flags=None):
        self.cfg = cfg
        self.flags = sorted(bool_flags(cfg.fnode) if flags is None else flags)
        self.g = Graph()
        self.entry = (cfg.entry, ())
        self._build()

    def _val(self, state):
        return dict(state)

    def _build(self):
        seen = {self.entry}
        dq = deque([self.entry])
        self.g.succ.setdefault(self.entry, [])
        self.g.pred.setdefault(self.entry, [])
        while dq:
            st = dq.popleft()
            n, vt = st
            val = dict(vt)
            if n.kind == 'store' and isinstance(n.ast, ast.Name) and n.ast.id in self.flags:
                v = n.info
                if isinstance(v, ast.Constant) and isinstance(v.value, bool):
                    val[n.ast.id] = v.value
                else:
                    val.pop(n.ast.id, None)
            nv = tuple(sorted(val.items()))
            decided = None
            if n.kind == 'test':
                decided = _eval_flag_expr(n.ast, val)
            for lbl, m in self.cfg.g.succ.get(n, ()):
                if decided is True and lbl == 'false':
                    continue
                if decided is False and lbl == 'true':
                    continue
                st2 = (m, nv)
                self.g.add_edge(st, st2, lbl)
                if st2 not in seen:
                    seen.add(st2)
                    dq.append(st2)
        self.states = seen

    def states_of(self, pred):
        return [s for s in self.states if pred(s[0])]
