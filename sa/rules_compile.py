"""Rules about the compiler proper: rewrite rules of compile_body (C05, C06, C01), the block/flag
protocol of the emitted code, grammar precedence and operator mapping."""
import ast
import itertools

from .model import AnalysisError, own_nodes, own_nodes_ordered, is_name, is_self_attr, norm
from .symex import SymEx, Sym, Const, New, ListV, CatV, CallV, Fresh, Opaque, PathState, SelfV
from . import sem
from .templates import TemplateSet, Node, RenderError, walk_doc, Sub, MapSub, Hole, Repr, Lit, Lines, Cat
from .rules_front import load_grammar

BODY_ROLES = {'ConjunctionPredicate': 'Conj', 'DisjunctionPredicate': 'Disj', 'IfThenPredicate': 'IfThen',
              'NegationPredicate': 'Neg', 'TruePredicate': 'True', 'FailPredicate': 'Fail', 'CutPredicate': 'Cut',
              'Predicate': 'call'}
CODE_ROLES = {'YPCodeForeach': 'Foreach', 'YPCodeYieldFalse': 'Yield', 'YPCodeYieldTrue': 'Yield',
              'YPCodeYieldBreak': 'YieldBreak', 'YPCodeBreakableBlock': 'Block', 'YPCodeBreakBlock': 'BreakBlock'}
MARKER_NAME = '$CUTIF'


class CompilerModel:
    def __init__(self, repo):
        self.repo = repo
        self.comp = repo.cls('yp_generator', 'YPPrologCompiler')
        self.g, self.gp = load_grammar(repo)
        self._flow = None
        self._ts = None
        self._rules = None
        self._alloc = {}
        self._renderer = None
        self.renderer_note = None
        self.context_threaded = False

    @property
    def flow(self):
        if self._flow is None:
            from .flow import Flow
            self._flow = Flow(self.repo, self.g, self.gp)
        return self._flow

    @property
    def templates(self):
        if self._ts is None:
            self._ts = TemplateSet(self.repo)
        return self._ts

    @property
    def renderer(self):
        """what turns a sample code tree into the text the emitter describes for it: the extracted templates, or - when
        the emitter does not decompose into per-class templates - its source evaluated on each tree (sa/emit_eval.py)"""
        if self._renderer is None:
            try:
                self._renderer = self.templates
            except AnalysisError as e:
                from .emit_eval import ConcreteEmitter
                self._renderer = ConcreteEmitter(self.repo, why=str(e))
                self.renderer_note = 'the emitter is not decomposable into templates (%s): its source is evaluated on every sample tree instead' % e
        return self._renderer

    # -- body classes ---------------------------------------------------------------------
    def body_classes(self):
        """classes of the values that reach compile_body's argument (E4)"""
        cb = self.comp.methods.get('compile_body')
        if cb is None:
            raise AnalysisError('anchor vanished: YPPrologCompiler.compile_body')
        p = cb.params[1]
        vals = self.flow.pts.get(('L', cb.qname, p), {})
        out = sorted({v[1].split('.', 1)[1] for v in vals if v[0] == 'inst'})
        if not out:
            raise AnalysisError('no class reaches compile_body (flow analysis)')
        return out

    def marker_classes(self):
        """body classes that are not produced by the visitor: internal markers of the compiler"""
        vis = self.repo.cls('yp_prolog_visitor', 'YPPrologVisitor')
        produced = set()
        for name in ('visitPredicateexpression', 'visitSimplepredicate', 'visitTermpredicate', 'visitClause'):
            m = vis.methods.get(name)
            if m is not None:
                for v in self.flow.pts.get(('R', m.qname), {}):
                    if v[0] == 'inst':
                        produced.add(v[1].split('.', 1)[1])
        out = [c for c in self.body_classes() if c not in produced and c not in BODY_ROLES]
        # body-like classes (they have a variables property) that only the compiler constructs
        for m in self.comp.methods.values():
            for n in own_nodes(m.node):
                if isinstance(n, ast.Call) and isinstance(n.func, ast.Name):
                    ci = self._class(n.func.id)
                    if ci is not None and 'variables' in ci.methods and ci.name not in BODY_ROLES and ci.name not in produced \
                            and ci.name not in out and ci.module.name in ('yp_generator', 'yp_prolog_visitor') and \
                            not ci.name.endswith('Term') and ci.name not in ('Atom', 'Functor', 'Clause'):
                        out.append(ci.name)
        return out

    def is_allocator(self, m):
        """a parameterless method of the compiler that gives a different string on every call (a counter-numbered
        name): decided by evaluating it twice from the state __init__ describes; -> the common prefix, or None"""
        if m.qname in self._alloc:
            return self._alloc[m.qname]
        res = None
        if m.cls is self.comp and len(m.params) == 1 and not m.is_generator and m.name != '__init__':
            try:
                sx = SymEx(self.repo, inline=lambda f: f.module.name in ('yp_generator', 'yp_prolog_visitor') and f.name != '_debug', max_depth=6)
                sx.max_steps = 2000
                st = PathState()
                init = self.repo.lookup_method(self.comp, '__init__')
                if init is not None:
                    o = sx.run(init, [Sym('context')], st)
                    st = o[0][0] if len(o) == 1 else None
                if st is not None:
                    o1 = sx.run(m, [], st)
                    if len(o1) == 1 and isinstance(o1[0][1], Const) and isinstance(o1[0][1].v, str):
                        o2 = sx.run(m, [], o1[0][0])
                        if len(o2) == 1 and isinstance(o2[0][1], Const) and isinstance(o2[0][1].v, str) and o2[0][1].v != o1[0][1].v:
                            a, b = o1[0][1].v, o2[0][1].v
                            k = 0
                            while k < min(len(a), len(b)) and a[k] == b[k]:
                                k += 1
                            res = a[:k]
            except AnalysisError:
                res = None
        self._alloc[m.qname] = res
        return res

    # -- rule extraction ------------------------------------------------------------------
    def body_rules(self):
        if self._rules is not None:
            return self._rules
        universe = sorted(set(self.body_classes()) | set(self.marker_classes()))
        cb = self.comp.methods['compile_body']
        child_fields = set()
        for cn in universe:
            ci = self._class(cn)
            init = self.repo.lookup_method(ci, '__init__') if ci else None
            if init is not None:
                for n in own_nodes(init.node):
                    if isinstance(n, ast.Assign):
                        for t in n.targets:
                            if is_self_attr(t):
                                child_fields.add(t.attr)

        def uni(path):
            last = path.split('.')[-1]
            if path == cb.params[1]:
                return self.body_classes()
            if last in child_fields and '[' not in last:
                # a field of a body node holds a body node if some body class reaches it
                vals = set()
                for cn in universe:
                    for v in self.flow.pts.get(('F', 'yp_prolog_visitor.' + cn, last), {}):
                        if v[0] == 'inst':
                            vals.add(v[1].split('.', 1)[1])
                    for v in self.flow.pts.get(('F', 'yp_generator.' + cn, last), {}):
                        if v[0] == 'inst':
                            vals.add(v[1].split('.', 1)[1])
                body_like = [c for c in vals if c in universe]
                if body_like and len(body_like) == len(vals):
                    return sorted(vals)
            return None
        fresh_counter = [0]
        comp = self.comp
        cm = self

        class SX(SymEx):
            def apply(self, e, f, args, kw, st, func):
                if isinstance(f, tuple) and f[0] == 'bound' and cm.is_allocator(f[1]) is not None:
                    st.fresh += 1
                    return [(st, Fresh(cm.is_allocator(f[1]), st.fresh))]
                return SymEx.apply(self, e, f, args, kw, st, func)
        sx = SX(self.repo, universe=uni,
                inline=lambda f: f.module.name in ('yp_generator', 'yp_prolog_visitor') and f.name not in ('compile_body', 'compile_expression', '_debug'),
                opaque=lambda n: n in ('compile_body', 'compile_expression'), max_depth=4)
        outs = sx.run(cb)
        self._rules = outs
        return outs

    def _class(self, name):
        for m in ('yp_prolog_visitor', 'yp_generator'):
            c = self.repo.modules[m].classes.get(name)
            if c is not None:
                return c
        return None

    # -- translation to the mini-languages -----------------------------------------------
    def operand_fields(self, cname):
        """field names of a body class in constructor-parameter order"""
        ci = self._class(cname)
        init = self.repo.lookup_method(ci, '__init__')
        if init is None:
            return []
        params = init.params[1:]
        out = []
        for p in params:
            for n in own_nodes(init.node):
                if isinstance(n, ast.Assign) and is_name(n.value, p):
                    for t in n.targets:
                        if is_self_attr(t):
                            out.append(t.attr)
        return out

    def src_of_sym(self, st, path, markers, depth=0):
        cls = st.classes.get(path)
        if cls is not None and len(cls) == 1:
            cn = next(iter(cls))
            return self.src_of_class(st, cn, path, markers, depth)
        return ('var', path)

    def src_of_class(self, st, cn, path, markers, depth):
        role = BODY_ROLES.get(cn)
        if cn in markers:
            flds = self.operand_fields(cn)
            return ('CutIf', '%s.%s' % (path, flds[0]) if flds else path)
        if role is None:
            raise AnalysisError('body class %s has no semantic role' % cn)
        if role in ('True', 'Fail', 'Cut'):
            return (role,)
        if role == 'call':
            for k, op, v in st.eqs:
                if k.startswith(path + '.') and v == MARKER_NAME and op == '==':
                    # the compiler takes a predicate of this name for its own marker
                    lab = [k2 for k2 in [path]]
                    return ('CutIf', path + '.functor.args[0].value')
            return ('call', path)
        flds = self.operand_fields(cn)
        return (role,) + tuple(self.src_of_sym(st, '%s.%s' % (path, f), markers, depth + 1) for f in flds)

    def src_of_value(self, st, v, markers):
        if isinstance(v, Sym):
            return self.src_of_sym(st, v.path, markers)
        if isinstance(v, New):
            cn = v.cls.name
            if cn in markers:
                return ('CutIf', self.label_of(v.args[0]))
            role = BODY_ROLES.get(cn)
            if role is None:
                raise AnalysisError('compile_body builds a %s, which has no semantic role' % cn)
            if role in ('True', 'Fail', 'Cut'):
                return (role,)
            if role == 'call':
                # Predicate(Functor(Atom('$CUTIF'), [Atom(label)])): the name-based marker
                f = v.args[0] if v.args else None
                if isinstance(f, New) and f.args and isinstance(f.args[0], New) and f.args[0].args and \
                        isinstance(f.args[0].args[0], Const) and f.args[0].args[0].v == MARKER_NAME:
                    lab = f.args[1].items[0] if len(f.args) > 1 and isinstance(f.args[1], ListV) and f.args[1].items else None
                    if isinstance(lab, New) and lab.args:
                        lab = lab.args[0]
                    return ('CutIf', self.label_of(lab))
                return ('call', repr(v))
            return (role,) + tuple(self.src_of_value(st, a, markers) for a in v.args)
        raise AnalysisError('cannot read %r as a clause body' % (v,))

    def label_of(self, v):
        if isinstance(v, Fresh):
            return 'L%d' % v.n
        if isinstance(v, Sym):
            return v.path
        if isinstance(v, Const):
            return repr(v.v)
        return repr(v)

    def code_of_value(self, st, v, markers, issues):
        if isinstance(v, ListV):
            out = []
            for it in v.items:
                out.extend(self.code_of_value(st, it, markers, issues))
            return out
        if isinstance(v, CatV):
            out = []
            for p in v.parts:
                out.extend(self.code_of_value(st, p, markers, issues))
            return out
        if isinstance(v, CallV) and v.name == 'compile_body':
            if any(not (isinstance(a, Const) and a.v is None) for a in v.args[1:]):
                self.context_threaded = True        # compile_body(body, <context>): the induction hypothesis CB<body> ignores the context
            return [('CB', self.src_of_value(st, v.args[0], markers))]
        if isinstance(v, New):
            role = CODE_ROLES.get(v.cls.name)
            if role is None:
                raise AnalysisError('compile_body emits a %s, which has no role in the target mini-language' % v.cls.name)
            if role in ('Yield', 'YieldBreak'):
                return [(role,)]
            if role == 'BreakBlock':
                return [('BreakBlock', self.label_of(v.args[0]))]
            if role == 'Block':
                return [('Block', self.label_of(v.args[0]), self.code_of_value(st, v.args[1], markers, issues))]
            if role == 'Foreach':
                call, code = v.args[0], v.args[1]
                var = self.call_var(st, call, issues)
                return [('Foreach', var, self.code_of_value(st, code, markers, issues))]
        if isinstance(v, Const) and v.v is None:
            issues.append('returns None where a code list is expected')
            return []
        raise AnalysisError('cannot read %r as target code' % (v,))

    def call_var(self, st, call, issues):
        """the pattern variable whose predicate a YPCodeCall('query', [name, args]) invokes"""
        if not (isinstance(call, New) and call.cls.name == 'YPCodeCall' and call.args):
            issues.append('a loop iterates %r, which is not a call expression' % (call,))
            return repr(call)
        fn = call.args[0]
        if not (isinstance(fn, Const) and fn.v == 'query'):
            issues.append('a goal is compiled to a call of %r instead of query(name, args) (late binding through the engine is lost)' % (fn,))
        args = call.args[1].items if len(call.args) > 1 and isinstance(call.args[1], ListV) else []
        name = args[0] if args else None
        path = None
        if isinstance(name, New) and name.args and isinstance(name.args[0], Const) and isinstance(name.args[0].v, str):
            return name.args[0].v           # a concrete goal (bounded evaluation on concrete bodies)
        if isinstance(name, New) and name.args and isinstance(name.args[0], Sym):
            path = name.args[0].path
        if path is None:
            issues.append('the predicate name passed to query() is %r' % (name,))
            return repr(call)
        # longest class-constrained prefix
        best = None
        for p in st.classes:
            if path.startswith(p + '.') and (best is None or len(p) > len(best)):
                best = p
        if best is None:
            best = path
        # arguments come from the same predicate
        if len(args) > 1:
            a = repr(args[1])
            if best not in a:
                issues.append('the arguments passed to query() (%s) do not come from the goal %s' % (a[:60], best))
        return best


def _feasible(st):
    return all(v for v in st.classes.values())


class NotCompositional(AnalysisError):
    pass


def translate_rules(cm):
    """-> list of dicts(name, constraints, lhs, rhs, issues, state, value) and fall-through cases"""
    if getattr(cm, '_rules_error', None):
        raise NotCompositional(cm._rules_error)
    try:
        outs = cm.body_rules()
    except (AnalysisError, RecursionError) as e:
        cm._rules_error = str(e)[:160] or type(e).__name__
        raise NotCompositional(cm._rules_error)
    if len(outs) > 200:
        cm._rules_error = 'compile_body inspects the code returned by its recursive calls (%d symbolic paths)' % len(outs)
        raise NotCompositional(cm._rules_error)
    markers = cm.marker_classes()
    cb = cm.comp.methods['compile_body']
    p = cb.params[1]
    rules, falls = [], []
    for st, v in outs:
        if v is None or (isinstance(v, Const) and v.v is None):
            falls.append(st)
            continue
        issues = []
        lhs = cm.src_of_sym(st, p, markers)
        # a path that depends on the *shape of the code a recursive call returned* is not a rewrite rule: the
        # induction hypothesis says what that code does, not what it looks like
        shape_dep = [k for k, _ in st.truth if 'compile_body<' in k] + [k for k, _, _ in st.eqs if 'compile_body<' in k]
        if shape_dep:
            rules.append(dict(constraints=st.describe(), lhs=lhs, rhs=None, issues=issues, state=st, value=v, conditional=shape_dep[0]))
            continue
        if isinstance(v, CallV) and v.name == 'raise':
            rules.append(dict(constraints=st.describe(), lhs=lhs, rhs=None, issues=issues, state=st, value=v, raises=True))
            continue
        try:
            rhs = cm.code_of_value(st, v, markers, issues)
        except AnalysisError as e:
            rules.append(dict(constraints=st.describe(), lhs=lhs, rhs=None, issues=[str(e)], state=st, value=v, broken=True))
            continue
        rules.append(dict(constraints=st.describe(), lhs=lhs, rhs=rhs, issues=issues, state=st, value=v))
    return rules, falls, markers


def variants(cm, rule, markers):
    """instantiate class-ambiguous pattern variables whose class matters to their parent:
    a variable directly under Disj.lhs (or alone) that may be an if-then"""
    st = rule['state']
    lhs, rhs = rule['lhs'], rule['rhs']
    amb = {}
    for path, cls in st.classes.items():
        if len(cls) > 1 and 'IfThenPredicate' in cls:
            amb[path] = True
    # unconstrained variables may be anything, including an if-then
    names, _ = sem.leaves(lhs)
    sem.leaves(rhs, names)
    out = [(lhs, rhs, '')]
    for v, kind in names.items():
        if kind != 'var':
            continue
        cls = st.classes.get(v)
        may_ite = (cls is None) or ('IfThenPredicate' in cls)
        if not may_ite:
            continue
        if _under_disj_lhs(lhs, v) or _under_disj_lhs_code(rhs, v) or lhs == ('var', v):
            ite = ('IfThen', ('var', v + '.c'), ('var', v + '.t'))
            out.append((_subst(lhs, v, ite), _subst_code(rhs, v, ite), '%s := (c -> t)' % v))
    return out


def _under_disj_lhs(t, v):
    if not isinstance(t, tuple) or not t:
        return False
    if t[0] == 'Disj' and t[1] == ('var', v):
        return True
    return any(_under_disj_lhs(x, v) for x in t[1:] if isinstance(x, tuple))


def _under_disj_lhs_code(code, v):
    for s in code:
        if s[0] == 'CB' and (_under_disj_lhs(s[1], v) or s[1] == ('var', v)):
            return True
        if s[0] in ('Foreach', 'Block') and _under_disj_lhs_code(s[2], v):
            return True
    return False


def _subst(t, v, r):
    if t == ('var', v):
        return r
    if isinstance(t, tuple) and t and t[0] not in ('var', 'call', 'CutIf'):
        return (t[0],) + tuple(_subst(x, v, r) if isinstance(x, tuple) else x for x in t[1:])
    return t


def _subst_code(code, v, r):
    out = []
    for s in code:
        if s[0] == 'CB':
            out.append(('CB', _subst(s[1], v, r)))
        elif s[0] == 'Foreach':
            out.append(('Foreach', s[1], _subst_code(s[2], v, r)))
        elif s[0] == 'Block':
            out.append(('Block', s[1], _subst_code(s[2], v, r)))
        else:
            out.append(s)
    return out


def mentions(t, kind):
    if isinstance(t, tuple):
        if t and t[0] == kind:
            return True
        return any(mentions(x, kind) for x in t[1:])
    if isinstance(t, list):
        return any(mentions(x, kind) for x in t)
    return False


def concrete_bodies(depth, goals=('p', 'q', 'r', 's')):
    """all clause bodies over calls, true, fail, !, ',', ';', '->', '\\+' up to the given depth;
    no cut inside a condition or a negated goal"""
    def has_cut(t):
        return t == ('Cut',) or (isinstance(t, tuple) and any(has_cut(x) for x in t[1:] if isinstance(x, tuple)))

    def gen(d, gi):
        if d == 1:
            if gi < len(goals):
                yield ('call', goals[gi]), gi + 1
            yield ('True',), gi
            yield ('Fail',), gi
            yield ('Cut',), gi
            return
        yield from gen(d - 1, gi)
        for a, g1 in list(gen(d - 1, gi)):
            if not has_cut(a):
                yield ('Neg', a), g1
            for b, g2 in gen(d - 1, g1):
                yield ('Conj', a, b), g2
                yield ('Disj', a, b), g2
                if not has_cut(a):
                    yield ('IfThen', a, b), g2
    seen = set()
    for t, _ in gen(depth, 0):
        if t not in seen:
            seen.add(t)
            yield t


def comb_bodies(depth, goals=('p', 'q', 'r', 's', 't')):
    """deeper bodies along one spine: at every node at most one operand is compound, the others are a fresh call or true;
    if-then-else counts as one ternary node (so else-if chains, nested conditions and long conjunctions are covered to
    the given depth without the cost of all trees)"""
    def has_cut(t):
        return t == ('Cut',) or (isinstance(t, tuple) and any(has_cut(x) for x in t[1:] if isinstance(x, tuple)))

    def leaves(gi):
        if gi < len(goals):
            yield ('call', goals[gi]), gi + 1
        yield ('True',), gi

    def gen(d, gi):
        if d == 1:
            yield from leaves(gi)
            yield ('Cut',), gi
            yield ('Fail',), gi
            return
        for s, g1 in gen(d - 1, gi):
            if not has_cut(s):
                yield ('Neg', s), g1
            for l, g2 in leaves(g1):
                for op in ('Conj', 'Disj'):
                    yield (op, s, l), g2
                    yield (op, l, s), g2
                yield ('IfThen', l, s), g2
                if not has_cut(s):
                    yield ('IfThen', s, l), g2
                for l2, g3 in leaves(g2):
                    yield ('Disj', ('IfThen', l, l2), s), g3
                    yield ('Disj', ('IfThen', l, s), l2), g3
                    if not has_cut(s):
                        yield ('Disj', ('IfThen', s, l), l2), g3
    seen = set()
    for t, _ in gen(depth, 0):
        if t not in seen:
            seen.add(t)
            yield t


def all_bodies(depth, combs=0):
    seen = set()
    for t in concrete_bodies(depth):
        seen.add(t)
        yield t
    if combs:
        for t in comb_bodies(combs):
            if t not in seen:
                seen.add(t)
                yield t


def body_to_new(cm, t):
    inv = {v: k for k, v in BODY_ROLES.items()}
    k = t[0]
    if k == 'call':
        atom = New(cm._class('Atom'), [Const(t[1])])
        functor = New(cm._class('Functor'), [atom, ListV([])])
        return New(cm._class('Predicate'), [functor])
    cls = cm._class(inv[k])
    if cls is None:
        raise AnalysisError('no class for %s' % k)
    return New(cls, [body_to_new(cm, x) for x in t[1:]])


def _bounded_worker(args):
    """evaluate compile_body on a slice of the concrete bodies; -> (bodies, runs, problems)"""
    repo_root, depth, scope, lo, step, combs = args
    from .model import Repo
    cm = CompilerModel(Repo(repo_root))
    comp = cm.comp
    cb = comp.methods['compile_body']
    markers = cm.marker_classes()

    class SX(SymEx):
        def apply(self, e, f, a, kw, st, func):
            if isinstance(f, tuple) and f[0] == 'bound' and cm.is_allocator(f[1]) is not None:
                st.fresh += 1
                return [(st, Fresh(cm.is_allocator(f[1]), st.fresh))]
            return SymEx.apply(self, e, f, a, kw, st, func)
    sx = SX(cm.repo, inline=lambda f: f.module.name in ('yp_generator', 'yp_prolog_visitor') and f.name not in ('compile_expression', '_debug'),
            opaque=lambda n: n in ('compile_expression',), max_depth=200)
    import sys
    import itertools as _it
    sys.setrecursionlimit(max(sys.getrecursionlimit(), 20000))
    n = runs = 0
    problems = []
    # the body goes the way a clause goes: compile_program on the one-clause program  t :- Body  (so that whatever is done to
    # a body before or after compile_body is part of what is checked); compile_body alone if that cannot be evaluated
    from .symex import DictV
    cp = cm.repo.lookup_method(comp, 'compile_program')
    init = cm.repo.lookup_method(comp, '__init__')
    state0 = None
    whole = cp is not None
    if whole and init is not None:
        try:
            o = sx.run(init, [Sym('context')], PathState())
            state0 = o[0][0] if len(o) == 1 else None
        except AnalysisError:
            state0 = None
        whole = state0 is not None

    def through_program(body):
        head = New(cm._class('Predicate'), [New(cm._class('Functor'), [New(cm._class('Atom'), [Const('t')]), ListV([])])])
        clause = New(cm._class('Clause'), [head, body])
        d = DictV([[ListV([Const('t'), Const(0)], True), ListV([clause])]])
        outs = sx.run(cp, [d], state0.copy())
        if len(outs) != 1:
            return None
        st, v = outs[0]
        if isinstance(v, CallV) and v.name == 'raise':
            return [(st, v)]
        if not (isinstance(v, New) and v.cls.name == 'YPCodeProgram' and v.args):
            return None
        fs = sx.as_sequence(v.args[0])
        if not fs or len(fs) != 1 or not (isinstance(fs[0], New) and fs[0].cls.name == 'YPCodeFunction' and len(fs[0].args) >= 3):
            return None
        b = sx.as_sequence(fs[0].args[2])
        if b is None:
            return None
        return [(st, ListV(b))]
    for i, t in enumerate(all_bodies(depth, combs)):
        if i % step != lo:
            continue
        n += 1
        try:
            outs = None
            if whole:
                try:
                    outs = through_program(body_to_new(cm, t))
                except AnalysisError:
                    outs = None
                if outs is None:
                    whole = False       # not evaluable this way on this tree: compile_body directly, for all bodies
            if outs is None:
                outs = sx.run(cb, [body_to_new(cm, t)])
        except AnalysisError as e:
            return n, runs, [('error', 'bounded evaluation of compile_body on %s: %s' % (sem.show(t), e))]
        if len(outs) != 1:
            return n, runs, [('error', 'compile_body does not evaluate deterministically on the concrete body %s (%d outcomes)' % (sem.show(t), len(outs)))]
        st, v = outs[0]
        if isinstance(v, CallV) and v.name == 'raise':
            continue
        issues = []
        try:
            code = cm.code_of_value(st, v, markers, issues) if v is not None else None
        except AnalysisError as e:
            code = None
            issues.append(str(e))
        if code is None or issues:
            if len(problems) < 3:
                problems.append(('viol', sem.show(t), 'compile_body does not produce target code for the body %s: %s' % (
                    sem.show(t), '; '.join(issues) or 'returns None')))
            continue
        names, conds = sem.leaves(t)
        gs = sorted(names)
        combos = list(_it.product(range(scope + 1), repeat=len(gs)))
        if 'IfThen' in repr(t) and len(gs) <= 3:
            # a goal need not behave the same every time it is called: which answer of a condition is the first one
            # matters where something commits - one goal at a time gets an activation-dependent behaviour
            for i_ in range(len(gs)):
                for dep in ((0, 1), (1, 0)):
                    for rest in _it.product((1, 2), repeat=len(gs) - 1):
                        c_ = list(rest)
                        c_.insert(i_, dep)
                        combos.append(tuple(c_))
        for combo in combos:
            env = {g: (k, False) for g, k in zip(gs, combo)}
            runs += 1
            a = sem.run_src(t, env)
            try:
                b = sem.run_tgt(code, env)
            except KeyError as ke:
                if ke.args and isinstance(ke.args[0], str) and ke.args[0] not in env:
                    # the compiled code calls a goal that does not occur in the body it was compiled from
                    # (what that goal does is defined elsewhere: not decided here, and not an accusation)
                    if len(problems) < 3:
                        problems.append(('error', 'the body  %s  compiles to  %s , which calls the goal %s that is not part of the body: '
                                         'the bounded check cannot run it' % (sem.show(t), sem.show_code(code), ke.args[0]), ''))
                    break
                raise
            if a != b:
                if len(problems) < 3:
                    problems.append(('viol', sem.show(t), 'the body  %s  compiles to  %s , which does not behave like it: with %s the source '
                                     'yields "%s" but the compiled code yields "%s"' % (
                                         sem.show(t), sem.show_code(code), ', '.join('%s: %s solution(s)' % (g, k[0]) for g, k in sorted(env.items()) if g != '#activations'),
                                         sem._show_trace(a), sem._show_trace(b))))
                break
    return n, runs, problems


def rule_compiler_bounded(cm, rep, rid, depth=3, scope=2, jobs=16, combs=0):
    rep.rule(rid, 'bounded whole-function check: compile_body (helpers and recursive calls inlined) is symbolically evaluated on '
                  'every concrete clause body up to depth %d; the resulting target code must have the same trace as the reference '
                  'semantics of the body for every behaviour (0..%d solutions) of its goals' % (depth, scope))
    where = cm.comp.methods['compile_body'].loc()
    import os
    depth = int(os.environ.get('VERIF_BOUNDED_DEPTH') or depth)
    import multiprocessing
    combs = int(os.environ.get('VERIF_BOUNDED_COMBS') or combs)
    total = sum(1 for _ in all_bodies(depth, combs))
    import os
    jobs = int(os.environ.get('VERIF_INNER_JOBS') or jobs)
    jobs = max(1, min(jobs, total // 50 or 1))
    tasks = [(cm.repo.root, depth, scope, i, jobs, combs) for i in range(jobs)]
    if jobs == 1:
        results = [_bounded_worker(tasks[0])]
    else:
        from concurrent.futures import ProcessPoolExecutor
        with ProcessPoolExecutor(max_workers=jobs) as pool:
            results = list(pool.map(_bounded_worker, tasks))
    n = sum(r[0] for r in results)
    runs = sum(r[1] for r in results)
    problems = [p for r in results for p in r[2]]
    errs = [p for p in problems if p[0] == 'error']
    viols = [p for p in problems if p[0] == 'viol']
    for _, body, msg in sorted(viols, key=lambda p: len(p[1]))[:4]:
        rep.violation(rid, 'compile_body(%s)' % body, msg, where)
    if errs and not viols:
        raise AnalysisError(errs[0][1])
    rep.extra['bounded_bodies'] = n
    rep.extra['bounded_runs'] = runs
    if not viols:
        rep.ok(rid, 'compile_body:bounded', '%d concrete bodies x behaviours = %d runs agree with the reference semantics' % (n, runs), where)
    rep.minimum('concrete bodies evaluated', n, 50)


def rule_body_rules(cm, rep, rid, which, scope=2):
    """which: 'cut' (rules handling ! or moving a cutting sub-body), 'ctl' (the rest), 'all'"""
    rep.rule(rid, 'every rewrite/base rule extracted from compile_body (pattern => target code, recursive calls kept as '
                  'CB<.> under the induction hypothesis) produces the same trace - yields with the stack of active '
                  '(goal, solution) pairs, and how the clause ended - as the reference semantics of the pattern, for every '
                  'assignment of behaviours (0..%d solutions, then exhausted or cut; no cut in conditions/negations) to its variables' % scope)
    try:
        rules, falls, markers = translate_rules(cm)
    except (AnalysisError, RecursionError) as e:
        rep.note(rid, 'rule extraction is not possible (%s): compile_body is not a set of compositional rewrite rules; only the bounded '
                      'whole-function check decides this tree' % (str(e)[:120] or type(e).__name__))
        rep.ok(rid, 'compile_body:rules', 'not compositional - see the bounded check', None, nontrivial=False)
        return [], [], []
    if cm.context_threaded:
        rep.note(rid, 'compile_body passes a context argument down its recursion: the per-rule induction (recursive results taken as correct '
                      'for their sub-body alone) does not cover what that argument changes; this is decided by the bounded whole-function '
                      'check only, to the depth stated there')
    rep.minimum('rules extracted from compile_body', len(rules), 18)
    n = 0
    total_models = 0
    for r in rules:
        name = sem.show(r['lhs'])
        is_cut = mentions(r['lhs'], 'Cut') or (r['rhs'] is not None and mentions(r['rhs'], 'YieldBreak'))
        if which == 'cut' and not (is_cut or _moves_subbody(r)):
            continue
        if which == 'ctl' and is_cut:
            continue
        n += 1
        key = 'compile_body:%s' % name
        where = '%s:%d' % (cm.comp.module.relpath, cm.comp.methods['compile_body'].node.lineno)
        if r.get('raises'):
            rep.ok(rid, key, 'raises (nothing is emitted)', where)
            continue
        if r.get('conditional'):
            rep.note(rid, 'case %s of compile_body depends on the shape of recursively compiled code (%s): not a rewrite rule, decided by '
                          'the bounded whole-function check only' % (name, r['conditional'][:70]), where)
            continue
        if r.get('broken'):
            if _reachable_from_source(cm, r, markers):
                text = '; '.join(r['issues'])
                if any(w in text for w in ('getitem<', 'cannot read ', '<?', 'attr:', 'call of ')) and 'has no role' not in text:
                    # the checker's evaluator could not follow the code (a value it does not model): not a verdict on the code
                    raise AnalysisError('case %s of compile_body cannot be read as a rewrite rule: %s' % (name, text[:120]))
                rep.violation(rid, key, 'this case of compile_body cannot produce code: %s' % text, where)
            else:
                rep.note(rid, 'case %s of compile_body is broken (%s) but no source program reaches it' % (name, '; '.join(r['issues'])), where)
            continue
        for iss in r['issues']:
            rep.violation(rid, key + ':shape', iss, where)
        bad = None
        for lhs, rhs, tag in variants(cm, r, markers):
            cnt, cex = sem.check_rule(lhs, rhs, scope)
            total_models += cnt
            if cex is not None:
                bad = (lhs, rhs, tag, cex)
                break
        if bad:
            lhs, rhs, tag, cex = bad
            rep.violation(rid, key, 'the rule  %s  =>  %s  %sis not sound: with %s the source yields "%s" but the compiled code '
                          'yields "%s"' % (sem.show(lhs), sem.show_code(rhs), ('(%s) ' % tag) if tag else '',
                                           ', '.join('%s: %s' % kv for kv in sorted(cex['behaviours'].items())), cex['source'], cex['compiled']), where)
        else:
            rep.ok(rid, key, '=> %s' % sem.show_code(r['rhs']), where)
    rep.extra['behaviour_assignments_checked'] = rep.extra.get('behaviour_assignments_checked', 0) + total_models
    rep.exhaustive = True
    return rules, falls, markers


def _moves_subbody(r):
    """distribution / associativity rules: a sub-body that may cut is moved across ; or ->"""
    return r['rhs'] is not None and len(r['rhs']) == 1 and r['rhs'][0][0] == 'CB' and r['lhs'][0] == 'Conj' and \
        isinstance(r['lhs'][1], tuple) and r['lhs'][1][0] in ('Disj', 'Conj', 'IfThen')


def _reachable_from_source(cm, r, markers):
    """a bare marker body is only reachable if source text can produce the marker"""
    st = r['state']
    for k, op, v in st.eqs:
        if v == MARKER_NAME and op == '==':
            return False
    return True


def rule_exhaustive(cm, rep, rid):
    rep.rule(rid, 'compile_body is exhaustive over the body classes the flow analysis says can reach it (and, under a '
                  'conjunction, over the classes of its left operand): the implicit "return None" is unreachable')
    try:
        rules, falls, markers = translate_rules(cm)
    except (AnalysisError, RecursionError):
        rules, falls, markers = [], [], []
    cb = cm.comp.methods['compile_body']
    where = '%s:%d' % (cm.comp.module.relpath, cb.node.lineno)
    classes = cm.body_classes()
    rep.minimum('body classes reaching compile_body', len(classes), 8)
    feasible = [st for st in falls if _feasible(st)]
    for st in feasible:
        rep.violation(rid, 'compile_body:fallthrough:%s' % st.describe(), 'no case of compile_body applies when %s: it returns None, '
                      'which is then concatenated or iterated (TypeError) or silently drops the goal' % st.describe(), where)
    if not feasible:
        rep.ok(rid, 'compile_body', 'all %d body classes (x left-operand classes under a conjunction) are covered' % len(classes), where)
    # compile_expression over the term classes
    ce = cm.comp.methods.get('compile_expression')
    if ce is None:
        raise AnalysisError('anchor vanished: compile_expression')
    p = ce.params[1]
    tcls = sorted({v[1].split('.', 1)[1] for v in cm.flow.pts.get(('L', ce.qname, p), {}) if v[0] == 'inst'})
    rep.minimum('term classes reaching compile_expression', len(tcls), 6)
    sx = SymEx(cm.repo, universe=lambda path: tcls if path == p else None, inline=lambda f: False,
               opaque=lambda n: True)
    outs = sx.run(ce)
    fall = [st for st, v in outs if (v is None or (isinstance(v, Const) and v.v is None)) and _feasible(st)]
    w2 = '%s:%d' % (cm.comp.module.relpath, ce.node.lineno)
    for st in fall:
        rep.violation(rid, 'compile_expression:fallthrough:%s' % st.describe(), 'compile_expression has no case for %s: the term is '
                      'compiled to None' % st.describe(), w2)
    if not fall:
        rep.ok(rid, 'compile_expression', 'all %d term classes are covered: %s' % (len(tcls), ', '.join(tcls)), w2)
    return tcls


# ---------------------------------------------------------------------------------------------
# layer B: do the templates implement the mini-language?


class _Brk(Exception):
    pass


class _Cont(Exception):
    pass


class _RetPy(Exception):
    pass


def interpret_function(fdef, env_beh):
    """interpret an emitted generator function (the statement forms the templates use) and return
    the trace of yields with the stack of active (goal, solution) pairs"""
    out = []
    stack = []
    names = {}
    steps = [0]
    env_beh.pop('#activations', None)

    def ev(e):
        if isinstance(e, ast.Constant):
            return e.value
        if isinstance(e, ast.Name):
            if e.id in names:
                return names[e.id]
            if e.id in ('True', 'False'):
                return e.id == 'True'
            raise AnalysisError('emitted code reads the unassigned name %s' % e.id)
        if isinstance(e, ast.UnaryOp) and isinstance(e.op, ast.Not):
            return not ev(e.operand)
        if isinstance(e, ast.BoolOp):
            v = None
            for x in e.values:
                v = ev(x)
                if bool(v) == isinstance(e.op, ast.Or):
                    return v
            return v
        if isinstance(e, ast.Compare) and len(e.ops) == 1 and isinstance(e.ops[0], (ast.Eq, ast.NotEq, ast.Is, ast.IsNot)):
            a, b = ev(e.left), ev(e.comparators[0])
            return (a == b) if isinstance(e.ops[0], (ast.Eq, ast.Is)) else (a != b)
        raise AnalysisError('emitted code uses an expression form outside the supported subset: %s' % norm(e))

    def run(stmts):
        for s in stmts:
            steps[0] += 1
            if steps[0] > 20000:
                raise sem.StepLimit()
            if isinstance(s, ast.Assign) and all(isinstance(t, ast.Name) for t in s.targets):
                v = s.value
                val = ('obj', norm(v)) if isinstance(v, ast.Call) else ev(v)
                for t in s.targets:
                    names[t.id] = val
            elif isinstance(s, ast.For):
                it = s.iter
                if isinstance(it, (ast.List, ast.Tuple)):
                    seq = [('lit', ev(x)) for x in it.elts]
                elif isinstance(it, ast.Call) and isinstance(it.func, ast.Name) and it.args and isinstance(it.args[0], ast.Constant):
                    goal = it.args[0].value
                    if goal not in env_beh:
                        raise AnalysisError('emitted loop over an unknown goal %r' % goal)
                    seq = [('goal', goal, i) for i in range(sem.nsol(env_beh, goal))]
                else:
                    raise AnalysisError('emitted loop iterates %s' % norm(it))
                broke = False
                for item in seq:
                    if item[0] == 'goal':
                        stack.append((item[1], item[2]))
                    if isinstance(s.target, ast.Name):
                        names[s.target.id] = False
                    try:
                        run(s.body)
                    except _Brk:
                        broke = True
                    except _Cont:
                        pass
                    finally:
                        if item[0] == 'goal':
                            stack.pop()
                    if broke:
                        break
                if not broke:
                    run(s.orelse)
            elif isinstance(s, ast.If):
                run(s.body if ev(s.test) else s.orelse)
            elif isinstance(s, ast.Break):
                raise _Brk()
            elif isinstance(s, ast.Continue):
                raise _Cont()
            elif isinstance(s, ast.Return):
                raise _RetPy()
            elif isinstance(s, ast.Expr) and isinstance(s.value, ast.Yield):
                out.append(('Y', tuple(stack)))
            elif isinstance(s, ast.Pass):
                pass
            else:
                raise AnalysisError('emitted code uses a statement form outside the supported subset: %s' % norm(s)[:60])
    try:
        run(fdef.body)
        out.append('END')
    except _RetPy:
        out.append('END')
    except (_Brk, _Cont):
        raise AnalysisError('break/continue outside a loop in emitted code')
    return out


def mini_trees(depth, width, labels=(), goals=('p', 'q', 'r'), top=True):
    """all code lists of the target mini-language up to the given nesting depth"""
    def stmts(d, open_labels, gi):
        yield ('Yield',)
        yield ('YieldBreak',)
        for L in open_labels:
            yield ('BreakBlock', L)
        if d > 1 and gi < len(goals):
            for c in codes(d - 1, open_labels, gi + 1):
                yield ('Foreach', goals[gi], c)
        if d > 1:
            L = 'cutIf%d' % (len(open_labels) + 1)
            for c in codes(d - 1, open_labels + (L,), gi):
                yield ('Block', L, c)

    def codes(d, open_labels, gi):
        yield []
        all_s = list(stmts(d, open_labels, gi))
        non_term = [s for s in all_s if s[0] in ('Yield', 'Foreach', 'Block')]
        for s in all_s:
            yield [s]
        w = width.get(d, 1) if isinstance(width, dict) else width
        if w == 'y':
            # one nested statement, optionally preceded or followed by a plain yield
            for st_ in all_s:
                if st_[0] in ('Foreach', 'Block'):
                    yield [st_, ('Yield',)]
                    yield [('Yield',), st_]
            return
        if w >= 2:
            for a in non_term:
                for b in all_s:
                    yield [a, b]
    return codes(depth, tuple(labels), 0)


def uniquify(code):
    """the same code with a label of its own for every block (the compiler numbers its labels per program)"""
    counter = [0]

    def rec(c, ren):
        out = []
        for s in c:
            if s[0] == 'Block':
                counter[0] += 1
                new = 'cutIf%d' % counter[0]
                r2 = dict(ren)
                r2[s[1]] = new
                out.append(('Block', new, rec(s[2], r2)))
            elif s[0] == 'BreakBlock':
                out.append(('BreakBlock', ren.get(s[1], s[1])))
            elif s[0] == 'Foreach':
                out.append(('Foreach', s[1], rec(s[2], ren)))
            else:
                out.append(s)
        return out
    return rec(code, {})


def to_nodes(code):
    """mini-language code -> sample code tree for the emitter templates"""
    out = []
    for s in code:
        t = s[0]
        if t == 'Yield':
            out.append(Node('YPCodeYieldFalse'))
        elif t == 'YieldTrue':
            out.append(Node('YPCodeYieldTrue'))
        elif t == 'YieldBreak':
            out.append(Node('YPCodeYieldBreak'))
        elif t == 'BreakBlock':
            out.append(Node('YPCodeBreakBlock', label=s[1]))
        elif t == 'Block':
            out.append(Node('YPCodeBreakableBlock', label=s[1], body=to_nodes(s[2])))
        elif t == 'Foreach':
            call = Node('YPCodeCall', func='query', args=[Node('YPCodeExpr', expr=s[1]), Node('YPCodeList', l=[])])
            out.append(Node('YPCodeForeach', loop_expression=call, loop_code=to_nodes(s[2])))
        else:
            raise ValueError(s)
    return out


def _block_in_loop(code, inside=False):
    for s in code:
        if s[0] == 'Block':
            if inside or _block_in_loop(s[2], inside):
                return True
        elif s[0] == 'Foreach':
            if _block_in_loop(s[2], True):
                return True
    return False


def goals_in(code, acc=None):
    acc = acc if acc is not None else []
    for s in code:
        if s[0] == 'Foreach':
            if s[1] not in acc:
                acc.append(s[1])
            goals_in(s[2], acc)
        elif s[0] == 'Block':
            goals_in(s[2], acc)
    return acc


def rule_templates_implement_minilanguage(cm, rep, rid, depth=3, width=2, scope=2, limit=None):
    rep.rule(rid, 'for every tree of the target mini-language up to depth %d (code lists up to %d statements, a sentinel '
                  '"next clause" appended) the extracted emitter templates are instantiated, the text is parsed with ast, '
                  'and a small interpreter of the statement forms that occur is compared with the mini-language semantics '
                  'for every behaviour (0..%d solutions) of the goals' % (depth, width, scope))
    ts = cm.renderer
    if cm.renderer_note:
        rep.note(rid, cm.renderer_note)
    n_trees = n_runs = 0
    where = cm.comp.module.relpath
    seen_problem = set()
    def family():
        # quick: everything of depth 2, long narrow chains (a commit travelling through several blocks and
        # loops), and depth 3 with one wide level; thorough adds depth 3 with two wide levels (47 090 trees) and chains to depth 6
        seen = set()
        extra = (mini_trees(3, {3: 2, 2: 2, 1: 1}), mini_trees(6, 1)) if limit is None else ()
        for fam in extra + (mini_trees(2, 2), mini_trees(5, 1), mini_trees(3, {3: 2, 2: 1, 1: 1}), mini_trees(3, {3: 1, 2: 2, 1: 1}),
                    mini_trees(5, {5: 1, 4: 'y', 3: 'y', 2: 1, 1: 1}), mini_trees(4, {4: 'y', 3: 'y', 2: 'y', 1: 1}),
                    mini_trees(5, {5: 1, 4: 'y', 3: 1, 2: 2, 1: 1})):
            for c in fam:
                k = repr(c)
                if k not in seen:
                    seen.add(k)
                    yield c
    for code in family():
        n_trees += 1
        full = uniquify(list(code) + [('Yield',)])          # the "next clause" of the same predicate
        fn = Node('YPCodeFunction', name='t', args=[], body=to_nodes(full))
        try:
            text = ts.render_node(fn)
        except RenderError as e:
            k = str(e)[:80]
            if k not in seen_problem:
                seen_problem.add(k)
                rep.violation(rid, 'render:%s' % k, 'the emitter fails on the code tree [%s]: %s' % (sem.show_code(full), e), where)
            continue
        try:
            mod = ast.parse(text)
            compile(text, '<emitted text>', 'exec', dont_inherit=True)       # compiled only (break outside loop, ...), never executed
        except SyntaxError as e:
            k = 'syntax:%s' % e.msg
            if k not in seen_problem:
                seen_problem.add(k)
                rep.violation(rid, k, 'the text emitted for [%s] is not valid Python (%s, line %d):\n%s' % (sem.show_code(full), e.msg, e.lineno or 0, text), where)
            continue
        fdefs = [x for x in mod.body if isinstance(x, ast.FunctionDef)]
        if len(fdefs) != 1:
            rep.violation(rid, 'shape:defs', 'one function template yields %d definitions' % len(fdefs), where)
            continue
        gs = goals_in(full)
        dom = list(range(scope + 1))
        if _block_in_loop(full):
            # a block that is entered once per solution of an enclosing goal: the goals inside it need not behave the same
            # on every entry (state left over from an earlier pass would show)
            dom = dom + [(1, 0), (0, 1)]
        for combo in itertools.product(dom, repeat=len(gs)):
            env = {g: (n, False) for g, n in zip(gs, combo)}
            n_runs += 1
            want = sem.run_tgt(full, env)
            want = ['END' if x == 'CUT' else x for x in want]
            got = interpret_function(fdefs[0], env)
            if want != got:
                k = 'sem:%s' % sem.show_code(full)
                if len(seen_problem) < 6 and k not in seen_problem:
                    seen_problem.add(k)
                    rep.violation(rid, k, 'the emitted Python for [%s] does not behave as the mini-language says, with %s: expected "%s", '
                                  'the emitted code does "%s"\n%s' % (sem.show_code(full), env, sem._show_trace(want), sem._show_trace(got), text), where)
                break
    rep.extra['template_trees'] = n_trees
    rep.extra['template_runs'] = n_runs
    if not seen_problem:
        rep.ok(rid, 'templates', '%d mini-language trees x behaviours = %d runs agree' % (n_trees, n_runs), where)
    return n_trees, n_runs


# ---------------------------------------------------------------------------------------------
# protocol invariants on the skeletons (unbounded nesting argument)


def _skeleton(ts, cls, **fields):
    try:
        text = ts.render_node(Node(cls, **fields), ind=0, loop=0)
    except RenderError as e:
        return None, str(e)
    try:
        return ast.parse(text), text
    except SyntaxError as e:
        return None, '%s in %r' % (e.msg, text)


def rule_protocol_invariants(cm, rep, rid, semantic_ok=True):
    rep.rule(rid, 'P1 every loop template except the function wrapper is followed by "if FLAG: break"; P2 BreakBlock is '
                  '"label = True; FLAG = True; break"; P3 Block sets its label False, runs its body in a one-element loop, then '
                  '"if label: FLAG = False", then P1; P4 the wrapper sets FLAG False and runs the body in a one-element loop; '
                  'P5 nothing else writes FLAG or a label; P6 YieldBreak is "return", Yield* is "yield" (carries the bounded '
                  'semantic check to unbounded nesting)')
    ts = cm.renderer
    where = cm.comp.module.relpath
    probs = []
    ph = [Node('YPCodeYieldFalse')]
    call = Node('YPCodeCall', func='query', args=[Node('YPCodeExpr', expr='p'), Node('YPCodeList', l=[])])
    f_ast, f_txt = _skeleton(ts, 'YPCodeFunction', name='t', args=['arg1'], body=ph)
    flag = None
    if f_ast is None:
        probs.append('P4: the function template does not render: %s' % f_txt)
    else:
        fd = f_ast.body[0]
        if isinstance(fd, ast.FunctionDef) and fd.body and isinstance(fd.body[0], ast.Assign) and isinstance(fd.body[0].value, ast.Constant) \
                and fd.body[0].value.value is False:
            flag = fd.body[0].targets[0].id
            rest = fd.body[1:]
            ok4 = rest and isinstance(rest[0], ast.For) and isinstance(rest[0].iter, (ast.List, ast.Tuple)) and len(rest[0].iter.elts) == 1
            tail = rest[1:]
            dead = all(isinstance(s, ast.If) and isinstance(s.test, ast.Constant) and not s.test.value for s in tail)
            if not ok4 or not dead:
                probs.append('P4: the wrapper is not "FLAG = False; for _ in [1]: body" followed only by dead code')
        else:
            probs.append('P4: the function template does not start by clearing the break flag')
    if flag:
        def is_prop(s):
            return isinstance(s, ast.If) and is_name(s.test, flag) and len(s.body) == 1 and isinstance(s.body[0], ast.Break) and not s.orelse
        a, t = _skeleton(ts, 'YPCodeForeach', loop_expression=call, loop_code=ph)
        if a is None or not (len(a.body) == 2 and isinstance(a.body[0], ast.For) and is_prop(a.body[1])):
            probs.append('P1: the loop template is not "for ...: body" followed by "if %s: break"' % flag)
        a, t = _skeleton(ts, 'YPCodeBreakBlock', label='cutIf1')
        ok2 = a is not None and len(a.body) == 3 and isinstance(a.body[0], ast.Assign) and norm(a.body[0]) == 'cutIf1 = True' and \
            norm(a.body[1]) == '%s = True' % flag and isinstance(a.body[2], ast.Break)
        if not ok2:
            probs.append('P2: BreakBlock is not "label = True; %s = True; break"' % flag)
        a, t = _skeleton(ts, 'YPCodeBreakableBlock', label='cutIf1', body=ph)
        ok3 = False
        if a is not None and len(a.body) == 4:
            s0, s1, s2, s3 = a.body
            ok3 = norm(s0) == 'cutIf1 = False' and isinstance(s1, ast.For) and isinstance(s1.iter, (ast.List, ast.Tuple)) and len(s1.iter.elts) == 1 \
                and isinstance(s2, ast.If) and is_name(s2.test, 'cutIf1') and len(s2.body) == 1 and norm(s2.body[0]) == '%s = False' % flag \
                and not s2.orelse and is_prop(s3)
        if not ok3:
            probs.append('P3: Block is not "label = False; for _ in [1]: body; if label: %s = False; if %s: break"' % (flag, flag))
        for cls, want in (('YPCodeYieldBreak', ast.Return), ('YPCodeYieldFalse', ast.Yield), ('YPCodeYieldTrue', ast.Yield)):
            a, t = _skeleton(ts, cls)
            okc = a is not None and len(a.body) == 1 and (isinstance(a.body[0], want) or
                                                          (isinstance(a.body[0], ast.Expr) and isinstance(a.body[0].value, want)))
            if not okc:
                probs.append('P6: %s is not a single %s statement' % (cls, want.__name__.lower()))
        # P5: no other template assigns the flag or a label-like name
        for cls in ('YPCodeAssign', 'YPCodeIf'):
            pass
    key = 'protocol'
    if not probs:
        rep.ok(rid, key, 'P1-P6 hold for flag %s' % flag, where)
    elif semantic_ok:
        for p in probs:
            rep.note(rid, 'protocol shape not recognised (%s); the bounded semantic check passes, the argument for unbounded nesting is not available' % p, where)
        rep.ok(rid, key, 'bounded semantic check only', where, nontrivial=False)
    else:
        for p in probs:
            rep.violation(rid, key + ':' + p[:2], p, where)


# ---------------------------------------------------------------------------------------------
# grammar precedence and operator mapping


def rule_precedence(cm, rep, rid):
    rep.rule(rid, 'in prolog.g4 and in the generated parser: "," binds tighter than "->" tighter than ";", each right '
                  'operand is parsed at the operator\'s own level (right-associative), "\\+" is a prefix alternative above all three')
    g, gp = cm.g, cm.gp
    rule = 'predicateexpression'
    if rule not in g.rules:
        raise AnalysisError('anchor vanished: grammar rule %s' % rule)
    alts = g.operator_alternatives(rule)
    where = 'src/yldprolog/prolog.g4'
    binary = [(op, assoc, idx) for op, kind, assoc, idx in alts if kind == 'binary']
    order = [op for op, _, _ in sorted(binary, key=lambda x: x[2])]
    rep.minimum('operator alternatives of predicateexpression', len(alts), 4)
    if order == [',', '->', ';']:
        rep.ok(rid, 'g4:order', 'alternatives in the order , -> ; (earlier = tighter)', where)
    else:
        rep.violation(rid, 'g4:order', 'the binary alternatives of %s come in the order %s: the source is not read with "," tighter than '
                      '"->" tighter than ";"' % (rule, order), where)
    for op, assoc, idx in binary:
        if assoc == 'right':
            rep.ok(rid, 'g4:assoc:%s' % op, 'right-associative', where)
        else:
            rep.violation(rid, 'g4:assoc:%s' % op, 'operator %s is not declared <assoc=right>' % op, where)
    prefix = [(op, idx) for op, kind, assoc, idx in alts if kind == 'prefix']
    if prefix and binary and all(idx < min(i for _, _, i in binary) for _, idx in prefix):
        rep.ok(rid, 'g4:prefix', '\\+ is listed before the binary operators', where)
    else:
        rep.violation(rid, 'g4:prefix', 'the prefix operator does not bind tighter than the binary ones', where)
    # generated parser
    w2 = 'src/yldprolog/prologParser.py'
    trip = gp.precedence_triples(rule)
    lv = {op: (p, r) for p, op, r in trip}
    if set(lv) != {',', '->', ';'}:
        raise AnalysisError('cannot read the precedence tests of the generated parser: %s' % trip)
    if lv[','][0] > lv['->'][0] > lv[';'][0]:
        rep.ok(rid, 'parser:levels', 'precpred levels , %d > -> %d > ; %d' % (lv[','][0], lv['->'][0], lv[';'][0]), w2)
    else:
        rep.violation(rid, 'parser:levels', 'generated parser: precedence levels %s are not , > -> > ;' % lv, w2)
    for op, (p, r) in sorted(lv.items()):
        if r == p:
            rep.ok(rid, 'parser:assoc:%s' % op, 'right operand parsed at level %d (right-associative)' % r, w2)
        else:
            rep.violation(rid, 'parser:assoc:%s' % op, 'generated parser: right operand of %s parsed at level %d, operator level %d' % (op, r, p), w2)
    pre = gp.prefix_operand_levels(rule)
    pre = [x for x in pre if x[0] == '\\+']
    if pre and pre[0][1] > max(p for p, _ in lv.values()):
        rep.ok(rid, 'parser:prefix', 'operand of \\+ parsed at level %d' % pre[0][1], w2)
    else:
        rep.violation(rid, 'parser:prefix', 'generated parser: the operand of \\+ is not parsed above the binary operators (%s)' % pre, w2)


def rule_operator_mapping(cm, rep, rid):
    rep.rule(rid, 'visitPredicateexpression maps "," to the conjunction node, "->" to if-then, ";" to disjunction, "\\+" to '
                  'negation, with the first sub-context as left/condition operand and the second as right/action; '
                  'visitSimplepredicate maps true/fail/! to their nodes')
    vis = cm.repo.cls('yp_prolog_visitor', 'YPPrologVisitor')
    m = vis.methods.get('visitPredicateexpression')
    if m is None:
        raise AnalysisError('anchor vanished: visitPredicateexpression')
    sx = SymEx(cm.repo, inline=lambda f: False, opaque=lambda n: True)
    outs = sx.run(m)
    want = {',': 'ConjunctionPredicate', '->': 'IfThenPredicate', ';': 'DisjunctionPredicate', '\\+': 'NegationPredicate'}
    found = {}
    where = m.loc()
    for st, v in outs:
        ops = [val for k, op, val in st.eqs if k.endswith('op.text') and op == '==']
        if len(ops) != 1 or not isinstance(v, New):
            continue
        found.setdefault(ops[0], []).append(v)
    rep.minimum('operator cases in visitPredicateexpression', len(found), 4)
    for op, cname in want.items():
        key = 'visitPredicateexpression:%s' % op
        vs = found.get(op)
        if not vs:
            rep.violation(rid, key, 'operator %s is not mapped to any node' % op, where)
            continue
        for v in vs:
            if v.cls.name != cname:
                rep.violation(rid, key, 'operator %s builds a %s instead of a %s' % (op, v.cls.name, cname), where)
                continue
            idx = []
            for a in v.args:
                t = repr(a)
                i = None
                if 'predicateexpression<0>' in t.replace('ctx.', '').replace(' ', '') or 'predicateexpression<0>' in t:
                    i = 0
                if 'predicateexpression<1>' in t:
                    i = 1
                idx.append(i)
            n_ops = 1 if op == '\\+' else 2
            if idx[:n_ops] == list(range(n_ops)):
                rep.ok(rid, key, '%s(%s)' % (cname, ', '.join('operand %d' % i for i in idx)), where)
            else:
                rep.violation(rid, key, 'the operands of %s reach %s in the order %s (text: %s)' % (op, cname, idx, ', '.join(repr(a) for a in v.args)), where)
    # simple predicates
    sp = vis.methods.get('visitSimplepredicate')
    outs = sx.run(sp)
    wants = {'TRUE': 'TruePredicate', 'FAIL': 'FailPredicate', 'CUT': 'CutPredicate'}
    for tok, cname in wants.items():
        key = 'visitSimplepredicate:%s' % tok
        hit = [v for st, v in outs if isinstance(v, New) and any(('%s<>' % tok) in k and t for k, t in _neg_none(st))]
        if hit and all(h.cls.name == cname for h in hit):
            rep.ok(rid, key, '%s -> %s' % (tok, cname), sp.loc())
        elif hit:
            rep.violation(rid, key, 'the token %s is turned into %s' % (tok, hit[0].cls.name), sp.loc())
        else:
            rep.violation(rid, key, 'the token %s is not mapped to %s' % (tok, cname), sp.loc())


def _neg_none(st):
    """(text, True) for decisions 'X is not None' taken on the path"""
    out = []
    for k, op, v in st.eqs:
        if v is None and op == '!=':
            out.append((k, True))
    for k, t in st.truth:
        if t:
            out.append((k, True))
    return out


# ---------------------------------------------------------------------------------------------
# list literals keep their element order


def _nest(v):
    """flatten ListPairTerm(h, ListPairTerm(h2, t)) / Functor('.', [h, ...]) / listpair<h, t> to ([heads], tail)"""
    heads = []
    cur = v
    while True:
        if isinstance(cur, New) and cur.cls.name == 'ListPairTerm' and len(cur.args) == 2:
            heads.append(cur.args[0])
            cur = cur.args[1]
        elif isinstance(cur, CallV) and cur.name == 'listpair' and len(cur.args) == 2:
            heads.append(cur.args[0])
            cur = cur.args[1]
        elif isinstance(cur, New) and cur.cls.name == 'Functor' and len(cur.args) == 2 and isinstance(cur.args[1], ListV) and len(cur.args[1].items) == 2:
            heads.append(cur.args[1].items[0])
            cur = cur.args[1].items[1]
        else:
            return heads, cur


def rule_list_order(cm, rep, rid):
    rep.rule(rid, 'the folds that build list terms keep the element order: symbolic evaluation of the [t0,t1,t2|T] case of the '
                  'visitor gives pair(t0, pair(t1, pair(t2, T))), and makelist([a,b,c]) gives pair(a, pair(b, pair(c, nil)))')
    vis = cm.repo.cls('yp_prolog_visitor', 'YPPrologVisitor')
    vt = vis.methods.get('visitTerm')
    if vt is None:
        raise AnalysisError('anchor vanished: visitTerm')

    class SX(SymEx):
        def apply(self, e, f, args, kw, st, func):
            if isinstance(f, tuple) and f[0] == 'bound':
                n = f[1].name
                if n == 'visitTermlist':
                    return [(st, ListV([Sym('t1'), Sym('t2')]))]
                if n == 'visitTerm':
                    return [(st, Sym('t0'))]
                if n == 'visitVARIABLE':
                    return [(st, Sym('T'))]
                if n in ('visitAtom', 'visitFunctor', '_debug'):
                    return [(st, Sym(n))]
            return SymEx.apply(self, e, f, args, kw, st, func)
    sx = SX(cm.repo, inline=lambda f: (f.cls is vis and not f.name.startswith('visit') and f.name != '_debug') or
            (f.cls is None and f.module is vis.module), opaque=lambda n: False)
    outs = sx.run(vt)
    found = 0
    for st, v in outs:
        heads, tail = _nest(v) if v is not None else ([], None)
        if not heads or not isinstance(v, New) or v.cls.name != 'ListPairTerm':
            continue
        found += 1
        names = [repr(h) for h in heads]
        want = ['t0', 't1', 't2'] if len(heads) == 3 else ['t0']
        key = 'visitTerm:[%s|T]' % ','.join(want)
        if names == want and repr(tail) == 'T':
            rep.ok(rid, key, 'pair(%s, T) in source order' % ', pair('.join(names), vt.loc())
        else:
            rep.violation(rid, key, 'the list pattern [%s|T] is built as [%s|%s]: the leading elements of a list-pair pattern are '
                          'not in source order' % (','.join(want), ','.join(names), tail), vt.loc())
    rep.minimum('list-pair results of visitTerm', found, 2)
    # makelist
    from .eng import EngineModel
    yp = cm.repo.cls('engine', 'YP')
    ml = yp.methods.get('makelist')
    if ml is None:
        raise AnalysisError('anchor vanished: YP.makelist')

    class SX2(SymEx):
        def apply(self, e, f, args, kw, st, func):
            if isinstance(f, tuple) and f[0] == 'bound' and f[1].name == 'listpair':
                return [(st, CallV('listpair', args))]
            return SymEx.apply(self, e, f, args, kw, st, func)
    sx2 = SX2(cm.repo, inline=lambda f: False, opaque=lambda n: False)
    outs = sx2.run(ml, [ListV([Sym('a'), Sym('b'), Sym('c')])])
    key = 'makelist:[a,b,c]'
    okc = 0
    for st, v in outs:
        heads, tail = _nest(v)
        names = [repr(h) for h in heads]
        if names == ['a', 'b', 'c'] and 'ATOM_NIL' in repr(tail):
            okc += 1
        else:
            rep.violation(rid, key, 'makelist([a,b,c]) builds [%s|%s]: element order or terminator differ from what the list literal denotes' % (
                ','.join(names), tail), ml.loc())
    if okc and okc == len(outs):
        rep.ok(rid, key, 'pair(a, pair(b, pair(c, ATOM_NIL)))', ml.loc())
    # compile_list keeps the order of the items
    cl = cm.comp.methods.get('compile_list')
    if cl is not None:
        src = norm(cl.node)
        if 'reversed(' in src or '[::-1]' in src or 'sorted(' in src:
            rep.violation(rid, 'compile_list', 'the items of a list literal are reordered', cl.loc())
        else:
            rep.ok(rid, 'compile_list', 'items compiled in order', cl.loc())
