"""C09 - call/N, once/1, findall/3, = and \\= agree with their standard definitions."""
from ..eng import EngineModel
from .. import rules_db as rd
from .. import rules_query as rq
from .. import rules_extra as rx


def check(repo, rep, tier):
    em = EngineModel(repo)
    rep.explanation = ('Shape clauses of the meta-call builtins decided on engine.py: goals are looked at through their values; '
                       'atom and compound goals are both handled, by one resolver; extra arguments are appended after the '
                       'goal\'s own; "no answer" cannot turn into an exception (no bare next() in a generator, no engine '
                       'exception escapes, every local definitely assigned); findall exhausts the goal collecting '
                       'get_value(template) and unifies once afterwards; \\= yields only on the no-solution path. That '
                       'findall\'s list holds the right instances as values is not decided.')
    db, other = rd.split_builtins(em)
    rep.minimum('meta-call builtins registered (+call)', len(other), 5)
    funcs = rd.closure_in_engine(em, other)
    funcs = [f for f in funcs if f not in rd.closure_in_engine(em, db) or f in other]
    rep.run(rd.rule_deref_before_inspection, em, rep, 'C09.D1', other)
    rep.run(rd.rule_total_dispatch, em, rep, 'C09.D2', funcs)
    rep.run(rq.rule_no_engine_exception, em, rep, 'C09.D3', other)
    rep.run(rd.rule_no_stopiteration_leak, em, rep, 'C09.S1')
    rep.run(rd.rule_one_goal_resolver, em, rep, 'C09.M1')
    rep.run(rd.rule_call_argument_order, em, rep, 'C09.M2')
    rep.run(rd.rule_findall_shape, em, rep, 'C09.M3')
    rep.run(rd.rule_neq, em, rep, 'C09.M4')
    rep.run(rd.rule_eq_is_unify, em, rep, 'C09.M4e')
    rep.run(rx.rule_derived_tables_follow, em, rep, 'C09.M5')
    rep.run(rx.rule_lookups_agree, em, rep, 'C09.M6')
    from .. import rules_state as rs
    rep.run(rs.rule_deref_closure, em, rep, 'C09.M7')
    # = and the other goals of compiled code are loops over query(name, args): nothing is compiled to a one-way assignment
    from .. import rules_compile as rc
    from .. import rules_clause as rcl
    rep.run(rcl.rule_calls_late_bound, rc.CompilerModel(repo), rep, 'C09.M8')
    from .. import rules_bind as rb
    rep.run(rb.rule_arity_guard, em, rep, 'C09.M9')
