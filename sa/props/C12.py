"""C12 - Prolog text cannot become Python code; loaded code sees only the engine API."""
from .. import rules_compile as rc
from .. import rules_emit as re_
from ..eng import EngineModel
from .. import rules_query as rq
from .. import rules_state as rs
from .. import rules_extra as rx


def check(repo, rep, tier):
    cm = rc.CompilerModel(repo)
    em = EngineModel(repo)
    rep.explanation = ('A complete taint argument: the value-flow analysis enumerates every flow from ANTLR token text (or any '
                       'string that is not a compiler constant) into a raw hole of the extracted emitter templates; each must be '
                       'repr()-quoted or of a lexical class that can only be a harmless identifier or integer, disjoint (DFA '
                       'intersection) from every name the emitted code relies on; callee names are compiler constants present '
                       'in the engine context; internal markers cannot be forged from source; loaded code runs on a copy of the '
                       'context with empty __builtins__; API entries are unreachable through the predicate key format; debug '
                       'output cannot leave its comment. What user-registered Python predicates do is out of scope.')
    rep.run(re_.rule_source_names_disjoint, cm, em, rep, 'C12.T2f')
    rep.run(re_.rule_quote_or_class, cm, rep, 'C12.T1')
    rep.run(re_.rule_no_capture, cm, em, rep, 'C12.T2')
    rep.run(re_.rule_callee_whitelist, cm, em, rep, 'C12.T3')
    rep.run(re_.rule_markers_not_forgeable, cm, rep, 'C12.T4')
    rep.run(rs.rule_script_globals, em, rep, 'C12.T5')
    rep.run(rq.rule_atomic_load, em, rep, 'C12.T5b')
    rep.run(rq.rule_api_unreachable, em, rep, 'C12.T5c')
    rep.run(rx.rule_lookup_confined, em, rep, 'C12.T5d')
    rep.run(re_.rule_comment_safe_writes, cm, rep, 'C12.T6')
    rep.run(rx.rule_clear_restores_context, em, rep, 'C12.T5e')
    rep.run(rq.rule_checked_name_is_looked_up, em, rep, 'C12.T5f')
    rep.run(re_.rule_format_only_on_literals, cm, rep, 'C12.T7')
