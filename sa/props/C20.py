"""C20 - Python predicates are interchangeable with compiled ones."""
from ..eng import EngineModel
from .. import rules_query as rq
from .. import rules_extra as rx


def check(repo, rep, tier):
    em = EngineModel(repo)
    rep.explanation = ('One table and one call protocol for compiled and registered predicates, decided on engine.py and on '
                       'the emitter templates: register_function, the load merge and query() use the same key templates; '
                       'query() calls whatever it finds as f(*args) and delegates; no consumer in the engine or in emitted '
                       'code reads the value a predicate yields; no exception handler sits between a predicate and the '
                       'consumer of the query. That a particular Python predicate has the same solutions as a Prolog one is '
                       'not decided.')
    rep.run(rq.rule_key_templates, em, rep, 'C20.U1')
    rep.run(rq.rule_values_never_inspected, em, rep, 'C20.U2')
    rep.run(rq.rule_exception_transparent, em, rep, 'C20.U3')
    rep.run(rq.rule_argument_order, em, rep, 'C20.U4')
    rep.run(rx.rule_derived_tables_follow, em, rep, 'C20.U5')
    rep.run(rx.rule_lookups_agree, em, rep, 'C20.U6')
    from .. import rules_state as rs
    rep.run(rs.rule_atoms_unify_by_name, em, rep, 'C20.U7')
    # compiled code reaches every predicate - compiled, Python, dynamic facts - through the one dispatcher (query by name):
    # a compiled goal that calls a function of its own module directly would treat a compiled predicate differently from a
    # Python one of the same name
    from .. import rules_compile as rc
    from .. import rules_clause as rcl
    rep.run(rcl.rule_calls_late_bound, rc.CompilerModel(repo), rep, 'C20.U8')
    # clear() treats compiled and Python predicates alike: afterwards neither kind is left
    rep.run(rx.rule_clear_restores_context, em, rep, 'C20.U9')
