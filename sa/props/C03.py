"""C03 - backtracking leaves no trace, however a query ends."""
from ..eng import EngineModel
from .. import rules_bind as rb
from .. import rules_extra as rx
from .. import rules_query as rq
from .. import rules_compile as rc
from .. import rules_emit as re_


def check(repo, rep, tier):
    em = EngineModel(repo)
    rep.explanation = ('Static path and escape rules over engine.py: every store that binds a variable is followed, on '
                       'every CFG path to every exit of the generator frame (return, fall-through, exception, and the '
                       'throw/close edges out of each yield), by the store that unbinds it; only the variable class '
                       'writes the binding cell; generators that may hold bindings never escape the frame that created '
                       'them, are not closed before the yield that reports their answer, and are not exhausted before a '
                       'yield. Decides the structural clauses of the property, not the run-time binding values.')
    rep.assume('CPython finalises an unreferenced suspended generator at once (reference counting) - the '
               'repository relies on the same fact')
    rep.assume('user-supplied Python predicates undo their own side effects')
    rep.run(rb.rule_undo_on_all_exits, em, rep, 'C03.U1')
    rep.run(rb.rule_bind_ownership, em, rep, 'C03.U2')
    rep.run(rb.rule_no_heap_escape, em, rep, 'C03.U3')
    rep.run(rb.rule_manual_advance, em, rep, 'C03.U4')
    rep.run(rb.rule_no_exhaust_then_yield, em, rep, 'C03.U5')
    rep.run(rb.rule_no_exception_capture, em, rep, 'C03.U7')
    rep.run(rx.rule_no_cached_binding_state, em, rep, 'C03.U6')
    rep.run(rq.rule_query_finalised, em, rep, 'C03.U8')
    # generated code: abandoned goal iterators are dropped (and thereby finalised) the moment their loop is left
    cm = rc.CompilerModel(repo)
    rep.run(re_.rule_goal_iterators_unnamed, cm, rep, 'C03.U9')
    # no trace outside the binding cells either: evaluating a query writes no engine state and changes no stored fact, so
    # that running it again gives the same answers
    from .. import rules_state as rs
    rep.run(rs.rule_queries_read_only, em, rep, 'C03.U10')
    rep.run(rx.rule_facts_immutable, em, rep, 'C03.U11')
