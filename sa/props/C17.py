"""C17 - evaluate_bounded returns a prefix of the answers and restores the interpreter."""
from ..eng import EngineModel
from .. import rules_query as rq
from .. import rules_bind as rb
from .. import rules_extra as rx


def check(repo, rep, tier):
    em = EngineModel(repo)
    rep.explanation = ('Acquire/release and finalisation rules on the CFG of YP.evaluate_bounded, with every call treated as '
                       'may-raise: the recursion limit is restored on every exit, the depth error is handled around the whole '
                       'enumeration, the result is only ever appended to in iteration order, and the query generator is '
                       'closed on every exit so that its bindings are undone (which in turn relies on C03.U1, re-checked '
                       'here). Where the limit strikes, and that the prefix is maximal, are run-time matters and not decided.')
    rep.run(rq.rule_limit_restored, em, rep, 'C17.P1')
    rep.run(rq.rule_depth_error_handled, em, rep, 'C17.P2')
    rep.run(rq.rule_prefix, em, rep, 'C17.P3')
    rep.run(rq.rule_query_finalised, em, rep, 'C17.P4')
    rep.run(rb.rule_undo_on_all_exits, em, rep, 'C17.P5')
    rep.run(rb.rule_no_exception_capture, em, rep, 'C17.P6')
    rep.run(rx.rule_depth_error_propagates, em, rep, 'C17.P7')
    # a search that is cut off must not leave anything behind in the engine: queries do not write engine state
    from .. import rules_state as rs
    rep.run(rs.rule_queries_read_only, em, rep, 'C17.P8')
