"""C18 - compilation is a deterministic function of the source text."""
from .. import rules_compile as rc
from .. import rules_emit as re_
from ..eng import EngineModel
from .. import rules_state as rs


def check(repo, rep, tier):
    cm = rc.CompilerModel(repo)
    em = EngineModel(repo)
    rep.explanation = ('Nothing whose value depends on hash seed, object identity, time, environment or earlier calls can flow '
                       'into the returned text: the value-flow analysis records every order-sensitive use of a set-typed value '
                       'and every identity/time/environment-dependent value reaching the return of the pipeline function; the '
                       'compiler modules write no module- or class-level location; every pipeline object and counter is created '
                       'per call. Determinism of CPython and ANTLR themselves is trusted.')
    rep.run(re_.rule_no_hash_order, cm, rep, 'C18.N1')
    rep.run(re_.rule_no_ambient_input, cm, rep, 'C18.N2')
    rep.run(rs.rule_no_module_state, em, rep, 'C18.N3', modules=('compiler', 'yp_generator', 'yp_prolog_visitor', 'errors'))
    rep.run(rs.rule_no_shared_class_attrs, em, rep, 'C18.N3b')
    rep.run(re_.rule_fresh_pipeline, cm, rep, 'C18.N4')
    rep.run(rs.rule_context_not_written, em, rep, 'C18.N3c')
    from .. import rules_extra as rx
    rep.run(rx.rule_stages_per_call, cm, em, rep, 'C18.N5')
    rep.run(rx.rule_no_import_time_container_mutated, cm, rep, 'C18.N6')
    # the environment (locale) is an ambient input too: it must not choose how the bytes of a source are read
    rep.run(re_.rule_codecs_strict, cm, rep, 'C18.N7')
    rep.run(re_.rule_asserts_have_no_effects, cm, rep, 'C18.N8')
    # the returned text does not depend on the debug options (which would also bring object addresses into it)
    rep.run(re_.rule_flags_only_comments, cm, rep, 'C18.N9')
