"""C07 - the fact database behaves as ordered lists for every history."""
from ..eng import EngineModel
from .. import rules_db as rd
from .. import rules_query as rq
from .. import rules_state as rs
from .. import rules_extra as rx


def check(repo, rep, tier):
    em = EngineModel(repo)
    rep.explanation = ('Shape clauses of the database builtins decided on engine.py: zero-argument facts use the same key kind '
                       'as everything else (kind inference Atom object / name string at every call of the store API); goals '
                       'arriving in a bound variable are inspected through get_value; every dispatch on the kind of a goal is '
                       'total (definite assignment); no exception raised by the engine itself can leave a database builtin; '
                       'asserta/assertz select front/back; retractall succeeds exactly once; clear resets what __init__ sets. '
                       'The contents after an arbitrary history (values) are not decided; list discipline under suspension is C14.')
    db, other = rd.split_builtins(em)
    rep.minimum('database builtins registered', len(db), 4)
    funcs = rd.closure_in_engine(em, db)
    rep.run(rd.rule_key_kinds, em, rep, 'C07.K1', funcs)
    rep.run(rd.rule_deref_before_inspection, em, rep, 'C07.D1', db)
    rep.run(rd.rule_total_dispatch, em, rep, 'C07.D2', funcs)
    rep.run(rq.rule_no_engine_exception, em, rep, 'C07.D3', db)
    rep.run(rq.rule_guarded_subscripts, em, rep, 'C07.D3b')
    rep.run(rd.rule_front_back, em, rep, 'C07.O1')
    rep.run(rd.rule_retractall_once, em, rep, 'C07.O2')
    rep.run(rd.rule_clear_resets, em, rep, 'C07.O3')
    rep.run(rd.rule_retractall_filters_by_match, em, rep, 'C07.O2b')
    sm = None           # each rule builds the store model itself, inside its guard
    rep.run(rd.rule_no_read_yield_write, em, rep, 'C07.L2', sm)
    rep.run(rd.rule_remove_by_identity, em, rep, 'C07.L3', sm)
    # each list element is an immutable, independent copy (C13)
    fr = rep.run(rs.rule_store_snapshot, em, rep, 'C07.S1')
    rep.run(rs.rule_fresh_per_use, em, rep, 'C07.S2', fr)
    rep.run(rs.rule_copier_map_shared, em, rep, 'C07.S6', fr)
    rep.run(rx.rule_facts_immutable, em, rep, 'C07.S4')
    rep.run(rx.rule_store_shadows_follow, em, rep, 'C07.S5')
    rep.run(rq.rule_facts_first, em, rep, 'C07.Q1')
    # the list of facts is the only thing a query consults: a query builds no second representation of it (cache, index)
    rep.run(rs.rule_queries_read_only, em, rep, 'C07.Q2')
    rep.run(rx.rule_fact_objects_one_per_assert, em, rep, 'C07.S7')
