"""C10 - text outside the grammar is rejected, never partially compiled."""
from ..eng import EngineModel
from .. import rules_front as rf


def check(repo, rep, tier):
    em = EngineModel(repo)
    rep.explanation = ('Between constructing the lexer/parser and using the parse tree, (1) both get error handling that raises on '
                       'every path (typestate by dominance on the CFG of the pipeline function, and an all-paths-raise check of '
                       'the listener\'s syntaxError), and (2) the input is known to be consumed to end-of-file (EOF in the start '
                       'rule of prolog.g4 and of the generated parser, or a dominating explicit EOF test whose other side always '
                       'raises). With ANTLR trusted to recognise exactly the grammar\'s language these two are necessary and '
                       'sufficient for "complete sentence or exception".')
    rep.assume('ANTLR 4.9.1 recognises exactly the language of prolog.g4; prologParser.py/prologLexer.py are what it generates '
               '(cross-checked as far as their readable tables go)')
    g, gp = rf.load_grammar(repo)
    rep.analysed_add('grammar', dict(rules=[r for r in g.order if not g.is_lexer_rule(r)], tokens=g.tokens()))
    lc = rep.run(rf.rule_raising_recognisers, em, rep, 'C10.G1', g)
    rep.run(rf.rule_end_of_input, em, rep, 'C10.G3', g, gp)
    rep.run(rf.rule_visitor_dispatch, em, rep, 'C10.G4')
    rep.run(rf.rule_cli_exit, em, rep, 'C10.G5', lc or [])
    rep.run(rf.rule_rejections_not_swallowed, em, rep, 'C10.G6', g)
    rep.run(rf.rule_entries_always_run_pipeline, em, rep, 'C10.G7')
    # what is outside the lexicon must reach the lexer: a lenient decoder removes it before any listener can object
    from .. import rules_compile as rc
    from .. import rules_emit as re_
    rep.run(re_.rule_codecs_strict, rc.CompilerModel(repo), rep, 'C10.G8')
    rep.run(rf.rule_everything_is_parsed, em, rep, 'C10.G10', g)
    # the command line judges every source file on its own text
    rep.run(re_.rule_same_path, rc.CompilerModel(repo), em, rep, 'C10.G9')
