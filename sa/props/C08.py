"""C08 - call resolution: facts first, exact arity, load order, late binding."""
from ..eng import EngineModel
from .. import rules_query as rq
from .. import rules_extra as rx


def check(repo, rep, tier):
    em = EngineModel(repo)
    rep.explanation = ('Shape rules on YP.query, register_function, load_script_from_string and chain_functions: facts are '
                       'enumerated before definitions; one key format shared by every writer and the reader; the variadic '
                       'key is only the default of the exact one; an unknown predicate cannot raise; combining keeps '
                       'old-before-new with each definition called separately; a load writes engine state only after the '
                       'script ran successfully on a copy; API names are not addressable as predicates. Answers of arbitrary '
                       'load/register/assert histories as values are not decided.')
    rep.run(rq.rule_facts_first, em, rep, 'C08.Q1')
    rep.run(rq.rule_key_templates, em, rep, 'C08.Q2')
    rep.run(rq.rule_exact_then_variadic, em, rep, 'C08.Q3')
    q = rq._method(em, 'query')
    md = rq._method(em, 'match_dynamic')
    rep.run(rq.rule_no_engine_exception, em, rep, 'C08.Q4', [q, md])
    rep.run(rq.rule_guarded_subscripts, em, rep, 'C08.Q4b')
    rep.run(rq.rule_combine_order, em, rep, 'C08.Q5')
    rep.run(rq.rule_atomic_load, em, rep, 'C08.Q6')
    rep.run(rq.rule_api_unreachable, em, rep, 'C08.Q8')
    rep.run(rx.rule_derived_tables_follow, em, rep, 'C08.Q9')
    rep.run(rx.rule_lookup_confined, em, rep, 'C08.Q10')
    rep.run(rx.rule_lookups_agree, em, rep, 'C08.Q11')
    rep.run(rq.rule_values_never_inspected, em, rep, 'C08.Q12')
    rep.run(rx.rule_load_takes_all, em, rep, 'C08.Q13')
    # after clear() the context is a new mapping: what was loaded or registered before is unknown again
    from .. import rules_db as rd
    rep.run(rd.rule_clear_resets, em, rep, 'C08.Q14')
    rep.run(rx.rule_clear_restores_context, em, rep, 'C08.Q15')
    from .. import rules_compile as rc
    from .. import rules_clause as rcl
    rep.run(rcl.rule_calls_late_bound, rc.CompilerModel(repo), rep, 'C08.Q7')
