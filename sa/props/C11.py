"""C11 - whatever the compiler accepts loads and defines exactly the program's predicates."""
from .. import rules_compile as rc
from .. import rules_emit as re_
from ..eng import EngineModel
from .. import rules_query as rq


def check(repo, rep, tier):
    cm = rc.CompilerModel(repo)
    em = EngineModel(repo)
    rep.explanation = ('The emitter is abstractly interpreted into one template per code-node class; for every code tree the '
                       'compiler can build (bounded depth, empty lists where the flow analysis allows them) the instantiated '
                       'text must parse, hold exactly one generator def per (name, arity) key and nothing else; every raw hole '
                       'that receives source text must have a lexical class inside the Python class its position needs (DFA '
                       'inclusion: decimal integers, ASCII identifiers minus reserved words); nesting depth is bounded or '
                       'checked. What the loaded functions compute is C01.')
    rep.run(re_.rule_emitted_text_parses, cm, rep, 'C11.T1')
    rep.run(rc.rule_exhaustive, cm, rep, 'C11.T1x')
    rep.run(re_.rule_numerals, cm, rep, 'C11.L1')
    rep.run(re_.rule_quote_or_class, cm, rep, 'C11.L2')
    rep.run(re_.rule_program_keys, cm, rep, 'C11.F1')
    from .. import rules_clause as rcl
    rep.run(rcl.rule_program_grouping, cm, rep, 'C11.F1g')
    from .. import rules_extra as rx
    rep.run(rx.rule_load_takes_all, em, rep, 'C11.F2')
    rep.run(rq.rule_key_templates, em, rep, 'C11.F1k')
    rep.run(re_.rule_nesting_bound, cm, rep, 'C11.N1')
