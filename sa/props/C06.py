"""C06 - disjunction, if-then-else and negation follow standard semantics."""
from ..model import Repo
from .. import rules_compile as rc


def check(repo, rep, tier):
    cm = rc.CompilerModel(repo)
    scope = 3 if tier == 'thorough' else 2
    depth = 3
    rep.explanation = ('The compiler is a finite set of syntax-directed rules: compile_body is symbolically evaluated into '
                       '(pattern => target code) rules with recursive calls kept as holes, and each rule is decided against a '
                       'reference semantics of clause bodies for all behaviours of its sub-bodies (induction over the recursion '
                       'tree gives all bodies); exhaustiveness over the body classes the flow analysis finds; the emitter '
                       'templates are extracted by abstract interpretation and shown to implement the target mini-language '
                       '(bounded trees + protocol invariants for unbounded nesting); precedence/associativity are read from '
                       'prolog.g4 and from the generated parser; the visitor\'s operator-to-node mapping is extracted symbolically. '
                       'What is evaluated is the extracted model, never the repository\'s code.')
    rep.assume('the reference semantics (sa/sem.py) is standard Prolog control for , ; -> \\+ ! with cuts in transparent positions')
    rep.run(rc.rule_body_rules, cm, rep, 'C06.R', 'ctl', scope)
    rep.run(rc.rule_exhaustive, cm, rep, 'C06.X1')
    rep.run(rc.rule_templates_implement_minilanguage, cm, rep, 'C06.B1', depth=depth, width=2, scope=2,
            limit=None if tier == 'thorough' else 1500)
    ok = not [v for v in rep.violations if v['rule'] == 'C06.B1']
    rep.run(rc.rule_protocol_invariants, cm, rep, 'C06.P', semantic_ok=ok)
    rep.run(rc.rule_precedence, cm, rep, 'C06.G1')
    rep.run(rc.rule_operator_mapping, cm, rep, 'C06.G2')
    rep.run(rc.rule_compiler_bounded, cm, rep, 'C06.R2', depth=3, scope=3 if tier == 'thorough' else 2, combs=4)
