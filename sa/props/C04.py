"""C04 - engine instances are isolated; interleaved queries do not interfere."""
from ..eng import EngineModel
from .. import rules_state as rs
from .. import rules_query as rq
from .. import rules_extra as rx


def check(repo, rep, tier):
    em = EngineModel(repo)
    rep.explanation = ('Ownership argument over all non-generated modules: there is no location that two engine instances, or two '
                       'suspended queries of one instance over disjoint variables, can both reach and one of them can write: no '
                       'module-level or class-level state is written or mutated, every mutated engine field is bound fresh per '
                       'instance, mutable defaults are only read, loaded scripts get a copy of this instance\'s context made of '
                       'its own members, and the write effects of the query path are confined to the binding cells and atom '
                       'interning. Thread-level atomicity inside CPython and ANTLR\'s prediction caches are trusted.')
    rep.assume('the generated parser/lexer keep ANTLR prediction caches at class level: semantically transparent memoisation, excluded')
    rep.run(rs.rule_no_module_state, em, rep, 'C04.I1')
    rep.run(rs.rule_no_shared_class_attrs, em, rep, 'C04.I2')
    rep.run(rs.rule_fresh_per_instance, em, rep, 'C04.I3')
    rep.run(rs.rule_defaults, em, rep, 'C04.I4')
    rep.run(rs.rule_script_globals, em, rep, 'C04.I6')
    rep.run(rq.rule_atomic_load, em, rep, 'C04.I6b')
    rep.run(rs.rule_queries_read_only, em, rep, 'C04.I7')
    rep.run(rs.rule_context_not_written, em, rep, 'C04.I2b')
    rep.run(rx.rule_no_definition_time_state, em, rep, 'C04.I8')
    rep.run(rx.rule_state_on_engine_only, em, rep, 'C04.I9')
    fr = rs.Freshness(em)
    rep.run(rs.rule_fresh_per_use, em, rep, 'C04.I10', fr)
    # a stored fact shares no variable with the clause (or engine) that asserted it
    rep.run(rs.rule_store_snapshot, em, rep, 'C04.I11', fr)
