"""C02 - unification computes a most general unifier, or fails (claimed in part)."""
from ..eng import EngineModel
from .. import rules_bind as rb
from .. import rules_extra as rx


def check(repo, rep, tier):
    em = EngineModel(repo)
    rep.explanation = ('Structural clauses of unification, decided on the source of engine.py: at most one yield on every '
                       'path of every unifier; the argument-list unifier compares both lengths with !=/== before touching '
                       'an element; only the variable class binds, only when unbound, only to a dereferenced value and '
                       'never to itself; sub-unifications stay open until the yield. Most-generality of the bindings for '
                       'all term pairs is a value-level statement and is NOT decided.')
    rep.run(rb.rule_at_most_one_yield, em, rep, 'C02.Y1')
    rep.run(rb.rule_arity_guard, em, rep, 'C02.A1')
    rep.run(rb.rule_bind_ownership, em, rep, 'C02.B1')
    rep.run(rb.rule_manual_advance, em, rep, 'C02.H1')
    rep.run(rb.rule_no_exhaust_then_yield, em, rep, 'C02.H1x')
    rep.run(rx.rule_no_cached_binding_state, em, rep, 'C02.B6')
    from .. import rules_state as rs
    rep.run(rs.rule_atoms_unify_by_name, em, rep, 'C02.A2')
    rep.run(rb.rule_success_only_against_own_kind, em, rep, 'C02.K1')
