"""C05 - cut commits the clause and nothing else."""
from .. import rules_compile as rc
from .. import rules_emit as re_
from ..eng import EngineModel
from .. import rules_query as rq


def check(repo, rep, tier):
    cm = rc.CompilerModel(repo)
    em = EngineModel(repo)
    scope = 3 if tier == 'thorough' else 2
    rep.explanation = ('Every compiler rule that handles ! (and every rule that moves a sub-body which may cut across ; or ->) is '
                       'extracted from compile_body and decided against the reference semantics for all behaviours of the '
                       'surrounding goals, including how the clause ended; the emitter templates are shown (bounded semantic '
                       'check with a sentinel "next clause") to turn YieldBreak into an exit from the one function that holds all '
                       'clauses of the predicate; the engine never interprets a value yielded by a predicate; combined '
                       'definitions are called as separate generators. Cuts in opaque positions are excluded by the statement.')
    rep.run(rc.rule_body_rules, cm, rep, 'C05.R', 'cut', scope)
    rep.run(rc.rule_templates_implement_minilanguage, cm, rep, 'C05.B1', depth=3, width=2, scope=2, limit=None if tier == 'thorough' else 1500)
    rep.run(re_.rule_program_keys, cm, rep, 'C05.F1')
    rep.run(rq.rule_values_never_inspected, em, rep, 'C05.F2')
    rep.run(rq.rule_combine_order, em, rep, 'C05.F3')
    # what the compiler is given is the body as written: the visitor maps each operator to its node, nothing is simplified away
    rep.run(rc.rule_operator_mapping, cm, rep, 'C05.G2')
    rep.run(rc.rule_compiler_bounded, cm, rep, 'C05.R2', depth=3, scope=3 if tier == 'thorough' else 2, combs=4 if tier == 'thorough' else 0)
