"""C19 - the yldpc command line equals the library; debug options only add comments."""
from .. import rules_compile as rc
from .. import rules_emit as re_
from .. import rules_front as rf
from ..eng import EngineModel


def check(repo, rep, tier):
    cm = rc.CompilerModel(repo)
    em = EngineModel(repo)
    rep.explanation = ('Command line and library produce code through one pipeline function and main() writes its result '
                       'unmodified per source in order (call graph + syntax); every other write to the output stream has a '
                       'lexical class made of whole comment lines (value-flow + DFA inclusion); debug flags control only debug '
                       'writes and comment/blank header lines; all byte-decoding input streams use one encoding; the tracing '
                       'wrapper is transparent; a syntax error is a CompilerError with file, line and column that main() turns '
                       'into a non-zero exit. click\'s option parsing and the operating system are trusted.')
    rep.run(re_.rule_same_path, cm, em, rep, 'C19.B1')
    rep.run(re_.rule_comment_safe_writes, cm, rep, 'C19.B2')
    rep.run(re_.rule_flags_only_comments, cm, rep, 'C19.B3')
    rep.run(re_.rule_one_decoding, cm, rep, 'C19.B4', tier)
    rep.run(re_.rule_codecs_strict, cm, rep, 'C19.B4s')
    rep.run(re_.rule_tracer_transparent, cm, rep, 'C19.B5')
    g, gp = cm.g, cm.gp
    lc = rep.run(rf.rule_raising_recognisers, em, rep, 'C19.B6a', g)
    rep.run(rf.rule_cli_exit, em, rep, 'C19.B6', lc or [])
    rep.run(rf.rule_main_compiles_every_source, em, rep, 'C19.B8')
    from .. import rules_extra as rx
    rep.run(rx.rule_stages_per_call, cm, em, rep, 'C19.B7')
