"""C15 - answers are fully dereferenced and stay valid after backtracking."""
from ..eng import EngineModel
from .. import rules_state as rs
from .. import rules_extra as rx
from .. import rules_db as rd
from .. import rules_bind as rb


def check(repo, rep, tier):
    em = EngineModel(repo)
    rep.explanation = ('Dereference-closure rule on every get_value implementation and the module function: each return is self '
                       '(atomic or on the unbound path), the result of get_value, or a constructor applied to such values - so by '
                       'induction over the term the result of get_value on a ground answer shares no Variable with the live terms; '
                       'to_python reads components only through get_value/to_python; findall exports get_value results. Equality '
                       'of the returned structure with the mathematical instance is a value-level statement and not decided.')
    rep.run(rs.rule_deref_closure, em, rep, 'C15.V1')
    rep.run(rs.rule_to_python_siblings, em, rep, 'C15.V3')
    rep.run(rd.rule_findall_shape, em, rep, 'C15.V3b')
    # what get_value follows is what the binder wrote: nobody else rewrites the cell (no path shortening)
    rep.run(rb.rule_bind_ownership, em, rep, 'C15.V4')
    fr = rs.Freshness(em)
    rep.run(rs.rule_store_snapshot, em, rep, 'C15.V5s', fr)
    rep.run(rs.rule_copier_derefs, em, rep, 'C15.V5', fr)
    rep.run(rx.rule_no_dereferenced_value_cached, em, rep, 'C15.V7')
