"""C14 - changing a predicate while it is being enumerated (logical update view)."""
from ..eng import EngineModel
from .. import rules_db as rd
from .. import rules_extra as rx


def check(repo, rep, tier):
    em = EngineModel(repo)
    rep.explanation = ('The two shapes that make a logical update view possible, decided by alias + CFG analysis of engine.py: '
                       'a suspended enumeration can never observe an in-place change of the list it walks (copy-on-write store or '
                       'snapshot iteration), and no generator writes back to the store a list derived from a read made before '
                       'its last suspension; removals are by identity under a presence test. Termination of particular update '
                       'loops follows from these but is not itself decided.')
    sm, pa = rep.run(rd.rule_frozen_lists, em, rep, 'C14.L1') or (None, None)      # (the rules below build the model themselves)
    rep.run(rd.rule_no_read_yield_write, em, rep, 'C14.L2', sm)
    rep.run(rd.rule_remove_by_identity, em, rep, 'C14.L3', sm)
    rep.run(rx.rule_facts_immutable, em, rep, 'C14.L4')
    rep.run(rx.rule_store_shadows_follow, em, rep, 'C14.L5')
    rep.run(rd.rule_walked_lists_never_changed_in_place, em, rep, 'C14.L6')
    rep.run(rx.rule_fact_objects_one_per_assert, em, rep, 'C14.L7')
