"""C01 - compiled clauses compute exactly Prolog's answers, in order (claimed in part)."""
from .. import rules_compile as rc
from .. import rules_emit as re_
from .. import rules_clause as rcl


def check(repo, rep, tier):
    cm = rc.CompilerModel(repo)
    scope = 3 if tier == 'thorough' else 2
    rep.explanation = ('Decided: (a) fresh variables per activation and distinct "_" (counter discipline, name-class disjointness, '
                       'variables-property coverage, declarations inside the def before the body); (b) left-to-right, depth-first '
                       'nesting: every extracted rule of compile_body is sound w.r.t. the reference semantics, head unification is '
                       'folded around the body with complementary alias/unify tests; (c) the emitter is total on the bodies the '
                       'statement names (exhaustive dispatch, templates parse for every code tree incl. empty bodies). NOT decided: '
                       'that the answer sequence equals SLD resolution\'s for all programs and queries - a value-level statement.')
    rep.run(re_.rule_anonymous_variables, cm, rep, 'C01.V1')
    rep.run(re_.rule_variable_coverage, cm, rep, 'C01.V2')
    rep.run(rcl.rule_clause_scope, cm, rep, 'C01.V3')
    rep.run(rcl.rule_clause_head, cm, rep, 'C01.H1')
    rep.run(rcl.rule_term_code_denotes_term, cm, rep, 'C01.H2')
    rep.run(re_.rule_unquote_delimiters, cm, rep, 'C01.H3')
    rep.run(rcl.rule_program_structure, cm, rep, 'C01.V6')
    rep.run(rcl.rule_program_grouping, cm, rep, 'C01.G0')
    rep.run(rc.rule_body_rules, cm, rep, 'C01.N1', 'all', scope)
    rep.run(rc.rule_exhaustive, cm, rep, 'C01.T1x')
    rep.run(re_.rule_emitted_text_parses, cm, rep, 'C01.T1')
    rep.run(rc.rule_templates_implement_minilanguage, cm, rep, 'C01.B1', depth=3, width=2, scope=2, limit=None if tier == 'thorough' else 1500)
    rep.run(rc.rule_list_order, cm, rep, 'C01.L1')
    # the engine the compiled code runs on: bindings made and undone by the binder only, = and \= as defined
    from ..eng import EngineModel
    from .. import rules_bind as rb
    from .. import rules_db as rd
    em = EngineModel(repo)
    rep.run(rb.rule_undo_on_all_exits, em, rep, 'C01.E1')
    rep.run(rb.rule_bind_ownership, em, rep, 'C01.E2')
    rep.run(rb.rule_at_most_one_yield, em, rep, 'C01.E3')
    rep.run(rd.rule_neq, em, rep, 'C01.E4')
    rep.run(rb.rule_arity_guard, em, rep, 'C01.E5')
    rep.run(rc.rule_compiler_bounded, cm, rep, 'C01.N2', depth=3, scope=3 if tier == 'thorough' else 2, combs=4 if tier == 'thorough' else 0)
