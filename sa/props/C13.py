"""C13 - a stored fact is an independent copy of the asserted term."""
from ..eng import EngineModel
from .. import rules_state as rs
from .. import rules_extra as rx


def check(repo, rep, tier):
    em = EngineModel(repo)
    rep.explanation = ('Allocation-freshness analysis of engine.py: a function is a renaming copy if every return is an immutable '
                       'value (parameter narrowed to neither Variable nor Functor, atom, constant), a freshly allocated Variable '
                       '(directly or through a memo all of whose entries are fresh), or a Functor rebuilt from recursive copies '
                       '(greatest fix-point). What assert stores in a fact, and what a use of the fact hands to unification, must '
                       'both come out of such a copy with one memo per fact. That the copy equals the dereferenced original is C15.')
    fr = rep.run(rs.rule_store_snapshot, em, rep, 'C13.S1')
    rep.run(rs.rule_fresh_per_use, em, rep, 'C13.S2', fr)
    rep.run(rs.rule_copier_derefs, em, rep, 'C13.S3', fr)
    rep.run(rs.rule_copier_map_shared, em, rep, 'C13.S5', fr)
    rep.run(rx.rule_facts_immutable, em, rep, 'C13.S4')
    rep.run(rx.rule_no_dereferenced_value_cached, em, rep, 'C13.S6')
