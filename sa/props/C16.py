"""C16 - source literals and Python values denote the same terms (claimed in part)."""
from .. import rules_compile as rc
from .. import rules_emit as re_
from ..eng import EngineModel
from .. import rules_state as rs
from .. import rules_db as rd
from .. import rules_bind as rb


def check(repo, rep, tier):
    cm = rc.CompilerModel(repo)
    em = EngineModel(repo)
    rep.explanation = ('The agreements the statement depends on, read from the code: compiler and engine context use the same '
                       'constructor names; string contents travel only through repr() (so the run-time string is the syntax-tree '
                       'string for every character); the literal kinds the visitor can build are exactly the ones '
                       'compile_expression handles; list constants agree between listpair/makelist/ATOM_NIL and the to_python '
                       'implementations; every term class implements the whole interface; atoms unify by name and are interned '
                       'per instance, with the engine\'s constant atoms re-interned whenever the table is reset. That '
                       'unquoteString inverts the lexer\'s quoting, numeric values and to_python results as values are NOT decided.')
    rep.run(rs.rule_constant_agreement, em, rep, 'C16.A1')
    rep.run(rs.rule_interface_complete, em, rep, 'C16.A2')
    rep.run(rc.rule_exhaustive, cm, rep, 'C16.A3')
    rep.run(rd.rule_clear_resets, em, rep, 'C16.A4')
    rep.run(re_.rule_callee_whitelist, cm, em, rep, 'C16.A5')
    # strings only via repr: the hole of YPCodeExpr
    table = [(m, h, pos, ms) for m, h, pos, ms in re_.hole_table(cm) if m == 'generate_expr']
    rep.rule('C16.A6', 'the text of atoms and functor names reaches the generated code only through repr()')
    from ..templates import Repr
    for m, h, pos, ms in table:
        if isinstance(h, Repr):
            rep.ok('C16.A6', 'generate_expr:%s' % h, 'quoted with repr()', h.func.loc())
        else:
            rep.violation('C16.A6', 'generate_expr:%s' % h, 'atom text is pasted without repr(): the run-time string differs from the source string', h.func.loc())
    rep.minimum('string literal templates', len(table), 1)
    rep.run(rc.rule_list_order, cm, rep, 'C16.A7')
    rep.run(re_.rule_unquote_delimiters, cm, rep, 'C16.A8')
    rep.run(re_.rule_anonymous_variables, cm, rep, 'C16.A9')
    from .. import rules_extra as rx
    rep.run(rx.rule_source_reaches_lexer_unchanged, em, rep, 'C16.A10')
    # every literal of a clause is compiled to the code of that very term (sample clauses incl. terms that print alike)
    from .. import rules_clause as rcl
    rep.run(rcl.rule_clause_head, cm, rep, 'C16.A11')
    rep.run(rcl.rule_term_code_denotes_term, cm, rep, 'C16.A12')
    rep.run(re_.rule_token_kinds_keep_their_class, cm, rep, 'C16.A13')
    # to_python converts what a term stands for now: every component it reads goes through to_python/get_value
    rep.run(rs.rule_to_python_siblings, em, rep, 'C16.A14')
    rep.run(rs.rule_constructors_leave_arguments, em, rep, 'C16.A15')
