"""E6 (second half) - reference semantics of clause bodies and of the compiler's target
mini-language, and the soundness check of extracted rewrite rules.

Source terms:  ('var', name) | ('call', name) | ('Conj', a, b) | ('Disj', a, b) | ('IfThen', c, t)
               | ('Neg', g) | ('True',) | ('Fail',) | ('Cut',) | ('CutIf', label)
Target code:   list of ('CB', source) | ('Foreach', callvar, code) | ('Yield',) | ('YieldBreak',)
               | ('Block', label, code) | ('BreakBlock', label)

A variable stands for any clause body; all its context can observe is its *behaviour*: a finite
number of solutions, after which it is exhausted or has cut the clause.
"""
import itertools


class Return(Exception):
    pass


class Break(Exception):
    def __init__(self, label):
        self.label = label


class Found(Exception):
    pass


class StepLimit(Exception):
    pass


def nsol(env, g):
    """number of solutions of this activation of goal g: a behaviour is a constant, or a tuple giving the number for
    the first, second, ... activation (the last entry repeats) - a goal need not behave the same every time it is called"""
    b = env[g][0]
    if isinstance(b, tuple):
        acts = env.setdefault('#activations', {})
        i = acts.get(g, 0)
        acts[g] = i + 1
        return b[min(i, len(b) - 1)]
    return b


def solve(E, env, stack, k):
    t = E[0]
    if t in ('var', 'call'):
        n, cut = nsol(env, E[1]), env[E[1]][1]
        for i in range(n):
            stack.append((E[1], i))
            try:
                k()
            finally:
                stack.pop()
        if cut:
            raise Return()
    elif t == 'Conj':
        if E[1][0] == 'CutIf':
            solve(E[2], env, stack, k)
            raise Break(E[1][1])
        solve(E[1], env, stack, lambda: solve(E[2], env, stack, k))
    elif t == 'Disj':
        if E[1][0] == 'IfThen':
            c, th = E[1][1], E[1][2]
            base = len(stack)
            saved = None
            try:
                def found():
                    nonlocal saved
                    saved = stack[base:]
                    raise Found()
                solve(c, env, stack, found)
            except Found:
                pass
            del stack[base:]
            if saved is not None:
                stack.extend(saved)
                try:
                    solve(th, env, stack, k)
                finally:
                    del stack[base:]
            else:
                solve(E[2], env, stack, k)
        else:
            solve(E[1], env, stack, k)
            solve(E[2], env, stack, k)
    elif t == 'IfThen':
        solve(('Disj', E, ('Fail',)), env, stack, k)
    elif t == 'Neg':
        base = len(stack)
        ok = True
        try:
            def f():
                raise Found()
            solve(E[1], env, stack, f)
        except Found:
            ok = False
        del stack[base:]
        if ok:
            k()
    elif t == 'True':
        k()
    elif t == 'Fail':
        pass
    elif t == 'Cut':
        k()
        raise Return()
    elif t == 'CutIf':
        # the marker as a whole body: run nothing further, leave the block
        k()
        raise Break(E[1])
    else:
        raise ValueError('unknown source term %r' % (E,))


def execute(code, env, stack, out):
    for s in code:
        t = s[0]
        if t == 'CB':
            solve(s[1], env, stack, lambda: out.append(('Y', tuple(stack))))
        elif t == 'Foreach':
            n = nsol(env, s[1])
            for i in range(n):
                stack.append((s[1], i))
                try:
                    execute(s[2], env, stack, out)
                finally:
                    stack.pop()
        elif t == 'Yield':
            out.append(('Y', tuple(stack)))
        elif t == 'YieldBreak':
            raise Return()
        elif t == 'Block':
            base = len(stack)
            try:
                execute(s[2], env, stack, out)
            except Break as b:
                if b.label != s[1]:
                    raise
                del stack[base:]
        elif t == 'BreakBlock':
            raise Break(s[1])
        else:
            raise ValueError('unknown target statement %r' % (s,))


def run_src(E, env):
    out, st = [], []
    env.pop('#activations', None)
    try:
        solve(E, env, st, lambda: out.append(('Y', tuple(st))))
        out.append('END')
    except Return:
        out.append('CUT')
    except Break as b:
        out.append(('BREAK', b.label))
    return out


def run_tgt(code, env):
    out, st = [], []
    env.pop('#activations', None)
    try:
        execute(code, env, st, out)
        out.append('END')
    except Return:
        out.append('CUT')
    except Break as b:
        out.append(('BREAK', b.label))
    return out


def leaves(x, acc=None, cond=False, conds=None):
    """variables of a term / code; conds collects those in a condition or negated position"""
    acc = acc if acc is not None else {}
    conds = conds if conds is not None else set()
    if isinstance(x, tuple):
        if not x:
            return acc, conds
        t = x[0]
        if t in ('var', 'call'):
            acc.setdefault(x[1], t)
            if t == 'call' or cond:
                conds.add(x[1])
        elif t == 'Foreach':
            acc.setdefault(x[1], 'call')
            conds.add(x[1])
            leaves(x[2], acc, cond, conds)
        elif t == 'IfThen':
            leaves(x[1], acc, True, conds)
            leaves(x[2], acc, cond, conds)
        elif t == 'Neg':
            leaves(x[1], acc, True, conds)
        elif t in ('CutIf', 'BreakBlock'):
            pass
        elif t == 'Block':
            leaves(x[2], acc, cond, conds)
        else:
            for y in x[1:]:
                leaves(y, acc, cond, conds)
    elif isinstance(x, list):
        for y in x:
            leaves(y, acc, cond, conds)
    return acc, conds


def check_rule(lhs, rhs, scope=2):
    """-> (number of behaviour assignments tried, counterexample or None)"""
    vs, conds = leaves(lhs)
    leaves(rhs, vs, False, conds)
    names = sorted(vs)
    doms = []
    for v in names:
        if v in conds:
            doms.append([(n, False) for n in range(scope + 1)])
        else:
            doms.append([(n, c) for n in range(scope + 1) for c in (False, True)])
    count = 0
    for combo in itertools.product(*doms):
        env = dict(zip(names, combo))
        count += 1
        a = run_src(lhs, env)
        b = run_tgt(rhs, env)
        if a != b:
            return count, dict(behaviours={k: '%d solution(s)%s' % (n, ', then cuts' if c else '') for k, (n, c) in env.items()},
                               source=_show_trace(a), compiled=_show_trace(b))
    return count, None


def _show_trace(tr):
    out = []
    for x in tr:
        if isinstance(x, tuple) and x[0] == 'Y':
            out.append('yield@[%s]' % ','.join('%s#%d' % p for p in x[1]))
        elif isinstance(x, tuple):
            out.append('break(%s)' % (x[1],))
        else:
            out.append(x.lower())
    return ' '.join(out)


def show(E):
    t = E[0]
    if t == 'var':
        return E[1]
    if t == 'call':
        return '%s()' % E[1]
    if t == 'Conj':
        return '(%s, %s)' % (show(E[1]), show(E[2]))
    if t == 'Disj':
        return '(%s ; %s)' % (show(E[1]), show(E[2]))
    if t == 'IfThen':
        return '(%s -> %s)' % (show(E[1]), show(E[2]))
    if t == 'Neg':
        return '\\+ %s' % show(E[1])
    if t == 'CutIf':
        return '$CUTIF(%s)' % (E[1],)
    return {'True': 'true', 'Fail': 'fail', 'Cut': '!'}[t]


def show_code(code):
    out = []
    for s in code:
        t = s[0]
        if t == 'CB':
            out.append('CB<%s>' % show(s[1]))
        elif t == 'Foreach':
            out.append('foreach %s: [%s]' % (s[1], show_code(s[2])))
        elif t == 'Block':
            out.append('block %s: [%s]' % (s[1], show_code(s[2])))
        elif t == 'BreakBlock':
            out.append('breakblock %s' % (s[1],))
        else:
            out.append(t.lower())
    return ' ; '.join(out)
