"""E4 - value and lexical-class flow through the compile pipeline.

A flow-insensitive, inclusion-based abstract interpretation (chaotic iteration to a fix-point) of
compiler.py, yp_prolog_visitor.py and yp_generator.py.  One abstract variable per local, return
value, field (class, attribute) and container element position.  Abstract values:

  ('inst', class qname)            instance of a repository class
  ('str', lex)                     a string; lex is a regular-language description:
                                     ('lit', s) ('tok', T) ('gen', prefix) ('repr',) ('intstr',) ('noline',)
                                     ('any', why) ('re', pattern) ('cat', (lex, ...)) ('minus', lex, words)
                                     ('objrepr', cls) ('ambient', what)
  ('int',) ('bool',) ('none',)
  ('list'|'tuple'|'dict'|'set', site)   containers, by allocation site
  ('ctx', rule) ('ctxlist', rule) ('tnode', T) ('tnodelist', T) ('token', literals)   ANTLR objects
  ('class', qname) ('fn', qname) ('ext', what)

Refinements on locals (flow-sensitive where the code relies on it): isinstance tests, ``x == 'c'``
in the else branch, and ``if not re.fullmatch(R, x): raise`` for the statements that follow.
"""
import ast
from collections import defaultdict

from .model import AnalysisError, own_nodes, is_name, is_self_attr, norm, FuncInfo

MODULES = ('compiler', 'yp_prolog_visitor', 'yp_generator', 'errors')
_MAX_CAT = 6


def S(lex):
    return ('str', lex)


INT, BOOL, NONE = ('int',), ('bool',), ('none',)


def lex_has(lex, kinds):
    if lex[0] in kinds:
        return True
    if lex[0] == 'cat':
        return any(lex_has(p, kinds) for p in lex[1])
    if lex[0] == 'joined':
        return lex_has(lex[1], kinds) or any(lex_has(p, kinds) for p in lex[2])
    if lex[0] == 'rep':
        return lex_has(lex[1], kinds)
    if lex[0] == 'minus':
        return lex_has(lex[1], kinds)
    return False


def lex_depth(lex):
    if lex[0] == 'cat':
        return 1 + max([lex_depth(p) for p in lex[1]] or [0])
    if lex[0] == 'joined':
        return 1 + max([lex_depth(p) for p in lex[2]] or [0])
    if lex[0] == 'rep':
        return 1 + lex_depth(lex[1])
    if lex[0] == 'minus':
        return lex_depth(lex[1])
    return 0


def widen(lex):
    """bound the nesting of composite classes (recursive __str__ methods feed their own result back)"""
    if lex_depth(lex) <= 2:
        return lex
    if not no_linebreak(lex):
        return ('any', 'nested text')
    if lex_has(lex, ('ambient', 'objrepr')):
        return ('ambient', 'nested text')
    return ('noline',)


def cat(parts):
    flat = []
    for p in parts:
        if p[0] == 'cat':
            flat.extend(p[1])
        else:
            flat.append(p)
    out = []
    for p in flat:
        if out and p[0] == 'lit' and out[-1][0] == 'lit':
            out[-1] = ('lit', out[-1][1] + p[1])
        elif p == ('lit', ''):
            continue
        elif out and p[0] == 'any' and out[-1][0] == 'any':
            continue
        elif out and p[0] == 'noline' and out[-1][0] == 'noline':
            continue
        else:
            out.append(p)
    if not out:
        return ('lit', '')
    if len(out) == 1:
        return out[0]
    out = [widen(p) if p[0] in ('joined', 'cat') else p for p in out]
    if len(out) > _MAX_CAT:
        if not all(no_linebreak(p) for p in out):
            return ('any', 'long concatenation')
        if any(lex_has(p, ('ambient', 'objrepr')) for p in out):
            return ('ambient', 'long concatenation')
        return ('noline',)
    return ('cat', tuple(out))


def no_linebreak(lex):
    k = lex[0]
    if k == 'lit':
        return not any(c in lex[1] for c in '\n\r\x0b\x0c\x1c\x1d\x1e\x85  ')
    if k in ('tok', 'gen', 'repr', 'intstr', 'noline', 'objrepr'):
        return k != 'tok' or lex[1] != 'STRING'
    if k == 'cat':
        return all(no_linebreak(p) for p in lex[1])
    if k == 'joined':
        return no_linebreak(lex[1]) and all(no_linebreak(p) for p in lex[2])
    if k == 'rep':
        return no_linebreak(lex[1])
    if k == 'minus':
        return no_linebreak(lex[1])
    if k == 're':
        from .lexclass import dfa, LINEBREAK
        return dfa(lex[1]).intersect(dfa(LINEBREAK)).is_empty()
    return False


class Flow:
    def __init__(self, repo, grammar, genparser):
        self.repo = repo
        self.g = grammar
        self.gp = genparser
        self.acc = genparser.context_accessors()
        self.pts = defaultdict(dict)          # node -> {value: (src node | None, note)}
        self.changed = False
        self.funcs = [f for f in repo.all_functions(MODULES)]
        self.stream_writes = []               # (func, call node)
        self.set_order_uses = {}              # (func qname, lineno) -> (func, node, what)
        self.nonempty_sites = set()
        self.module_sites = {}
        self.mutated = {}                     # allocation site -> (func, call node) of an in-place change
        self.maybe_empty_sites = set()
        self.called = set()
        self.rounds = 0
        from .callgraph import CallGraph
        cg = CallGraph(repo, MODULES)
        # a private function that is only ever mentioned as a value (stored in a table, passed as a callback) is called through
        # that value, with the arguments the caller passes: it is not an entry point whose parameters come from outside
        mentioned = set()
        for m in MODULES:
            for n in ast.walk(repo.module(m).tree):
                if isinstance(n, ast.Name) and isinstance(n.ctx, ast.Load):
                    mentioned.add(n.id)
        self.entry_points = {f for f in self.funcs if f.cls is None and f.parent is None and not cg.callers.get(f) and
                             not (f.name.startswith('_') and f.name in mentioned)}
        self.solve()

    # -- state ----------------------------------------------------------------------------
    def add(self, node, vals, note=''):
        tgt = self.pts[node]
        for v, src in vals.items():
            if v not in tgt:
                if v[0] == 'str' and v[1][0] in ('cat', 'joined', 'rep'):
                    # widening: a variable that keeps receiving new composite strings (x = x + ...) converges
                    nstr = len([1 for w in tgt if w[0] == 'str' and w[1][0] in ('cat', 'joined', 'rep')])
                    if nstr >= 24:
                        lex = v[1]
                        w = ('any', 'widened') if not no_linebreak(lex) else (
                            ('ambient', 'widened') if lex_has(lex, ('ambient', 'objrepr')) else ('noline',))
                        v = ('str', w)
                        if v in tgt:
                            continue
                elif v[0] == 'str' and v[1][0] == 'lit' and len(v[1][1]) > 24:
                    # x = x + 'literal' feeds its own result back: ever longer literals
                    nlit = len([1 for w in tgt if w[0] == 'str' and w[1][0] == 'lit' and len(w[1][1]) > 24])
                    if nlit >= 24:
                        v = ('str', ('any', 'widened') if not no_linebreak(v[1]) else ('noline',))
                        if v in tgt:
                            continue
                tgt[v] = (src, note)
                self.changed = True

    def get(self, node):
        return {v: node for v in self.pts.get(node, {})}

    def field(self, cls_qname, attr):
        return set(self.pts.get(('F', cls_qname, attr), {}))

    def solve(self):
        self.changed = True
        while self.changed:
            self.changed = False
            self.rounds += 1
            if self.rounds > 60:
                raise AnalysisError('value-flow analysis does not converge')
            for m in MODULES:
                self._module_level(self.repo.module(m))
            for f in self.funcs:
                self.run_function(f)

    def _module_level(self, mod):
        for name, val in mod.assigns.items():
            self.add(('G', mod.name, name), self.ev(mod, val, {}), 'module level')

    # -- functions ------------------------------------------------------------------------
    def loc(self, f, node):
        mod = f.module if isinstance(f, FuncInfo) else f
        return '%s:%d' % (mod.relpath, getattr(node, 'lineno', 0))

    def site(self, f, node, kind):
        mod = f.module if isinstance(f, FuncInfo) else f
        s = (kind, mod.name, getattr(node, 'lineno', 0), getattr(node, 'col_offset', 0))
        if not isinstance(f, FuncInfo):
            self.module_sites.setdefault(s, node)        # allocated when the module is imported (module level, default arguments)
        return s

    def run_function(self, f):
        if f.name == '__getattribute__':
            return          # the tracing wrapper: C19.B5 shows it is transparent
        # parameters nobody in the repository passes: external input
        if f in self.entry_points:
            for p in f.all_params:
                if p == 'self':
                    continue
                self.add(('L', f.qname, p), {('ext', 'parameter %s of %s' % (p, f.name)): None}, 'external caller')
        a = f.node.args
        params = a.posonlyargs + a.args
        for p, d in zip(params[len(params) - len(a.defaults):], a.defaults):
            self.add(('L', f.qname, p.arg), self.ev(f.module, d, {}), 'default')
        self.block(f, f.node.body, {})

    def block(self, f, stmts, env):
        env = dict(env)
        for s in stmts:
            self.stmt(f, s, env)
            # `if not re.fullmatch(P, x): raise` refines x for the statements that follow
            self._cur_func = f
            g = self._regex_guard(s)
            if g is not None:
                env[g[0]] = ('re', g[1])
            g2 = self._isinstance_guard(s)
            if g2 is not None:
                env[g2[0]] = ('cls', g2[1])

    def _regex_guard(self, s):
        if not (isinstance(s, ast.If) and not s.orelse and s.body and isinstance(s.body[-1], ast.Raise)):
            return None
        for t in _disjuncts(s.test):
            c = None
            if isinstance(t, ast.UnaryOp) and isinstance(t.op, ast.Not):
                c = t.operand
            elif isinstance(t, ast.Compare) and len(t.ops) == 1 and isinstance(t.ops[0], ast.Is) and \
                    isinstance(t.comparators[0], ast.Constant) and t.comparators[0].value is None:
                c = t.left
            pat = self._pattern_of(getattr(self, '_cur_func', None), c)
            if pat is not None:
                return pat
        return None

    def _isinstance_guard(self, s):
        """`if not isinstance(x, C): raise` narrows x afterwards"""
        if not (isinstance(s, ast.If) and not s.orelse and s.body and isinstance(s.body[-1], (ast.Raise, ast.Return))):
            return None
        for t in _disjuncts(s.test):
            if isinstance(t, ast.UnaryOp) and isinstance(t.op, ast.Not) and isinstance(t.operand, ast.Call) and \
                    is_name(t.operand.func, 'isinstance') and len(t.operand.args) == 2:
                return norm(t.operand.args[0]), [x.id for x in ast.walk(t.operand.args[1]) if isinstance(x, ast.Name)]
        return None

    def stmt(self, f, s, env):
        if isinstance(s, ast.Expr):
            self.ev(f, s.value, env)
        elif isinstance(s, ast.Assign):
            vals = self.ev(f, s.value, env)
            for t in s.targets:
                self.assign(f, t, vals, env, s)
        elif isinstance(s, ast.AugAssign):
            vals = self.ev(f, ast.BinOp(left=_load(s.target), op=s.op, right=s.value, lineno=s.lineno, col_offset=s.col_offset), env)
            self.assign(f, s.target, vals, env, s)
        elif isinstance(s, ast.AnnAssign):
            if s.value is not None:
                self.assign(f, s.target, self.ev(f, s.value, env), env, s)
        elif isinstance(s, ast.Return):
            if s.value is not None:
                self.add(('R', f.qname), self.ev(f, s.value, env), 'return %s @%s' % (norm(s.value)[:50], self.loc(f, s)))
            else:
                self.add(('R', f.qname), {NONE: None}, 'return')
        elif isinstance(s, ast.If):
            self.ev(f, s.test, env)
            tenv, fenv = self._test_filters(s.test, env, f)
            self.block(f, s.body, tenv)
            self.block(f, s.orelse, fenv)
        elif isinstance(s, (ast.For,)):
            it = self.ev(f, s.iter, env)
            self._order_use(f, s.iter, it, 'iterated by a for loop')
            self.assign(f, s.target, self.elements(it), env, s)
            self.block(f, s.body, env)
            self.block(f, s.orelse, env)
        elif isinstance(s, ast.While):
            self.ev(f, s.test, env)
            self.block(f, s.body, env)
            self.block(f, s.orelse, env)
        elif isinstance(s, ast.Try):
            self.block(f, s.body, env)
            for h in s.handlers:
                if h.name:
                    self.add(('L', f.qname, h.name), {('ext', 'exception'): None}, 'except')
                self.block(f, h.body, env)
            self.block(f, s.orelse, env)
            self.block(f, s.finalbody, env)
        elif isinstance(s, ast.With):
            for item in s.items:
                v = self.ev(f, item.context_expr, env)
                if item.optional_vars is not None:
                    tv = {}
                    if isinstance(item.context_expr, ast.Call):
                        for c in self._callees(f, item.context_expr, env):
                            if isinstance(c, FuncInfo) and c.is_contextmanager:
                                tv.update(self.get(('Y', c.qname)))
                    if not tv:
                        tv = {('ext', 'context manager value'): None}
                    self.assign(f, item.optional_vars, tv, env, s)
            self.block(f, s.body, env)
        elif isinstance(s, ast.Raise):
            if s.exc is not None:
                self.ev(f, s.exc, env)
        elif isinstance(s, ast.Delete):
            pass
        elif isinstance(s, ast.Assert):
            self.ev(f, s.test, env)
        elif isinstance(s, (ast.Pass, ast.Break, ast.Continue, ast.Global, ast.Nonlocal, ast.Import, ast.ImportFrom)):
            pass
        elif isinstance(s, (ast.FunctionDef, ast.ClassDef)):
            pass
        else:
            raise AnalysisError('flow: unsupported statement %s at %s' % (type(s).__name__, self.loc(f, s)))

    def _pattern_of(self, f, call):
        """the constant pattern of  re.fullmatch(P, x)  /  R.fullmatch(x) with R = re.compile(P) at module level -> (x text, P)"""
        if not isinstance(call, ast.Call):
            return None
        fn = norm(call.func)
        if fn == 're.fullmatch' and len(call.args) == 2 and isinstance(call.args[0], ast.Constant) and isinstance(call.args[0].value, str):
            return norm(call.args[1]), call.args[0].value
        if isinstance(call.func, ast.Attribute) and call.func.attr == 'fullmatch' and isinstance(call.func.value, ast.Name) and len(call.args) == 1 and f is not None:
            r = self.repo.resolve_name(f, call.func.value.id) if isinstance(f, FuncInfo) else self.repo.module_binding(f, call.func.value.id)
            if r and r[0] == 'var' and isinstance(r[2], ast.Call) and norm(r[2].func) == 're.compile' and r[2].args and \
                    isinstance(r[2].args[0], ast.Constant) and isinstance(r[2].args[0].value, str) and len(r[2].args) == 1:
                return norm(call.args[0]), r[2].args[0].value
        return None

    def _test_filters(self, test, env, f=None):
        tenv, fenv = dict(env), dict(env)
        for t in _conjuncts(test):
            pat = self._pattern_of(f, t)
            if pat is not None:
                tenv[pat[0]] = ('re', pat[1])
            if isinstance(t, ast.Call) and is_name(t.func, 'isinstance') and len(t.args) == 2:
                tenv[norm(t.args[0])] = ('cls', [x.id for x in ast.walk(t.args[1]) if isinstance(x, ast.Name)])
            if isinstance(t, ast.Compare) and len(t.ops) == 1 and isinstance(t.comparators[0], ast.Constant) and \
                    isinstance(t.comparators[0].value, str):
                if isinstance(t.ops[0], ast.Eq):
                    tenv[norm(t.left)] = ('eq', t.comparators[0].value)
                    if len(_conjuncts(test)) == 1:
                        fenv[norm(t.left)] = ('minus', frozenset([t.comparators[0].value]) | (env.get(norm(t.left), ('minus', frozenset()))[1]
                                                                                                 if env.get(norm(t.left), ('x',))[0] == 'minus' else frozenset()))
                elif isinstance(t.ops[0], ast.NotEq):
                    tenv[norm(t.left)] = ('minus', frozenset([t.comparators[0].value]))
                    if len(_conjuncts(test)) == 1:
                        fenv[norm(t.left)] = ('eq', t.comparators[0].value)
        if isinstance(test, ast.UnaryOp) and isinstance(test.op, ast.Not):
            a, b = self._test_filters(test.operand, env, f)
            return b, a
        return tenv, fenv

    def _apply_filter(self, vals, flt):
        kind = flt[0]
        out = {}
        for v, src in vals.items():
            if kind == 'cls':
                if v[0] == 'inst':
                    ci = self._cls(v[1])
                    if ci is not None and any(b.name in flt[1] for b in self.repo.mro(ci)):
                        out[v] = src
                elif v[0] == 'ext':
                    out[v] = src
                elif (v[0] == 'str' and 'str' in flt[1]) or (v[0] in ('list', 'tuple', 'dict', 'set') and v[0] in flt[1]) or \
                        (v == INT and ('int' in flt[1] or 'float' in flt[1])) or (v == BOOL and ('bool' in flt[1] or 'int' in flt[1])):
                    out[v] = src
            elif kind == 'eq':
                if v[0] == 'str':
                    out[S(('lit', flt[1]))] = src
                elif v[0] == 'ext':
                    out[v] = src
            elif kind == 'minus':
                if v[0] == 'str':
                    lex = v[1]
                    if lex[0] == 'lit':
                        if lex[1] not in flt[1]:
                            out[v] = src
                    elif lex[0] == 'minus':
                        out[S(('minus', lex[1], lex[2] | flt[1]))] = src
                    else:
                        out[S(('minus', lex, flt[1]))] = src
                else:
                    out[v] = src
            elif kind == 're':
                if v[0] == 'str' or v[0] == 'ext':
                    out[S(('re', flt[1]))] = src
        return out

    def _cls(self, qname):
        m, c = qname.split('.', 1)
        return self.repo.modules[m].classes.get(c) if m in self.repo.modules else None

    # -- assignment -----------------------------------------------------------------------
    def assign(self, f, t, vals, env, stmt):
        note = '%s @%s' % (norm(stmt)[:60] if isinstance(stmt, ast.AST) else stmt, self.loc(f, t))
        if isinstance(t, ast.Name):
            if isinstance(f, FuncInfo):
                self.add(('L', f.qname, t.id), vals, note)
            else:
                self.add(('G', f.name, t.id), vals, note)
        elif isinstance(t, (ast.Tuple, ast.List)):
            for i, e in enumerate(t.elts):
                if isinstance(e, ast.Starred):
                    self.assign(f, e.value, vals, env, stmt)
                    continue
                sub = {}
                for v in vals:
                    if v[0] in ('tuple',):
                        sub.update(self.get(('T', v[1], i)))
                        sub.update(self.get(('E', v[1])))
                    elif v[0] == 'pair':
                        sub.update(self.get(('K' if i == 0 else 'V', v[1])))
                    elif v[0] == 'enum':
                        if i == 0:
                            sub[INT] = None
                        else:
                            sub.update(self.get(v[1]))
                    elif v[0] in ('list', 'set'):
                        sub.update(self.get(('E', v[1])))
                    elif v[0] == 'ext':
                        sub[v] = None
                self.assign(f, e, sub, env, stmt)
        elif isinstance(t, ast.Attribute):
            for r in self.ev(f, t.value, env):
                if r[0] == 'inst':
                    self.add(('F', r[1], t.attr), vals, note)
        elif isinstance(t, ast.Subscript):
            ks = self.ev(f, t.slice, env)
            for r in self.ev(f, t.value, env):
                if r[0] in ('list', 'set'):
                    self.add(('E', r[1]), vals, note)
                elif r[0] == 'dict':
                    self.add(('K', r[1]), ks, note)
                    self.add(('V', r[1]), vals, note)
        elif isinstance(t, ast.Starred):
            self.assign(f, t.value, vals, env, stmt)

    def elements(self, vals):
        out = {}
        for v in vals:
            k = v[0]
            if k in ('list', 'set'):
                out.update(self.get(('E', v[1])))
            elif k == 'tuple':
                out.update(self.get(('E', v[1])))
                for node in list(self.pts):
                    if node[0] == 'T' and node[1] == v[1]:
                        out.update(self.get(node))
            elif k == 'dict':
                out.update(self.get(('K', v[1])))
            elif k == 'items':
                out[('pair', v[1])] = None
            elif k == 'enumerate':
                out[('enum', v[1])] = None
            elif k == 'ctxlist':
                out[('ctx', v[1])] = None
            elif k == 'tnodelist':
                out[('tnode', v[1])] = None
            elif k == 'range':
                out[INT] = None
            elif k == 'str':
                out[S(('any', 'character of a string')) if not no_linebreak(v[1]) else S(('noline',))] = None
            elif k == 'lines':
                out[S(('noline',))] = None
            elif k == 'ext':
                out[('ext', 'element of an external object')] = None
        return out

    def _order_use(self, f, node, vals, what):
        for v in vals:
            if v[0] == 'set':
                self.set_order_uses[(f.qname if isinstance(f, FuncInfo) else f.name, node.lineno, what)] = (f, node, what, v)

    # -- expressions ----------------------------------------------------------------------
    def ev(self, f, e, env):
        vals = self._ev(f, e, env)
        if isinstance(e, (ast.Name, ast.Attribute, ast.Call)):
            k = norm(e)
            if k in env:
                vals = self._apply_filter(vals, env[k])
        return vals

    def _ev(self, f, e, env):
        if e is None:
            return {NONE: None}
        if isinstance(e, ast.Constant):
            v = e.value
            if isinstance(v, bool):
                return {BOOL: None}
            if isinstance(v, str):
                return {S(('lit', v)): None}
            if isinstance(v, int):
                return {INT: None}
            if v is None:
                return {NONE: None}
            return {('ext', 'constant'): None}
        if isinstance(e, ast.Name):
            return self._name(f, e)
        if isinstance(e, ast.Attribute):
            return self._attr(f, e, env)
        if isinstance(e, ast.Call):
            return self._call(f, e, env)
        if isinstance(e, ast.JoinedStr):
            parts = []
            for v in e.values:
                if isinstance(v, ast.Constant):
                    parts.append([('lit', v.value)])
                else:
                    conv = 'r' if v.conversion == 114 else 's'
                    parts.append(self.stringify(f, self.ev(f, v.value, env), conv))
            return {S(x): None for x in _product_cat(parts)}
        if isinstance(e, ast.BinOp):
            return self._binop(f, e, env)
        if isinstance(e, ast.BoolOp):
            out = {}
            for v in e.values:
                out.update(self.ev(f, v, env))
            return out
        if isinstance(e, ast.UnaryOp):
            self.ev(f, e.operand, env)
            return {BOOL: None} if isinstance(e.op, ast.Not) else {INT: None}
        if isinstance(e, ast.Compare):
            self.ev(f, e.left, env)
            for c in e.comparators:
                self.ev(f, c, env)
            return {BOOL: None}
        if isinstance(e, ast.IfExp):
            self.ev(f, e.test, env)
            out = dict(self.ev(f, e.body, env))
            out.update(self.ev(f, e.orelse, env))
            return out
        if isinstance(e, (ast.List, ast.Tuple, ast.Set)):
            kind = 'list' if isinstance(e, ast.List) else 'tuple' if isinstance(e, ast.Tuple) else 'set'
            site = self.site(f, e, kind)
            n = 0
            for i, x in enumerate(e.elts):
                if isinstance(x, ast.Starred):
                    self.add(('E', site), self.elements(self.ev(f, x.value, env)), 'starred')
                    continue
                n += 1
                vals = self.ev(f, x, env)
                if kind == 'tuple':
                    self.add(('T', site, i), vals, norm(x)[:40])
                else:
                    self.add(('E', site), vals, norm(x)[:40])
            (self.nonempty_sites if n else self.maybe_empty_sites).add(site)
            return {(kind, site): None}
        if isinstance(e, ast.Dict):
            site = self.site(f, e, 'dict')
            for k, v in zip(e.keys, e.values):
                if k is not None:
                    self.add(('K', site), self.ev(f, k, env), 'dict key')
                self.add(('V', site), self.ev(f, v, env), 'dict value')
            return {('dict', site): None}
        if isinstance(e, (ast.ListComp, ast.GeneratorExp, ast.SetComp)):
            kind = 'set' if isinstance(e, ast.SetComp) else 'list'
            site = self.site(f, e, kind)
            self.maybe_empty_sites.add(site)
            for g in e.generators:
                it = self.ev(f, g.iter, env)
                self._order_use(f, g.iter, it, 'iterated by a comprehension')
                self.assign(f, g.target, self.elements(it), env, 'comprehension')
                for c in g.ifs:
                    self.ev(f, c, env)
            self.add(('E', site), self.ev(f, e.elt, env), 'comprehension element %s' % norm(e.elt)[:40])
            return {(kind, site): None}
        if isinstance(e, ast.DictComp):
            site = self.site(f, e, 'dict')
            for g in e.generators:
                self.assign(f, g.target, self.elements(self.ev(f, g.iter, env)), env, 'comprehension')
            self.add(('K', site), self.ev(f, e.key, env), 'dict comp')
            self.add(('V', site), self.ev(f, e.value, env), 'dict comp')
            return {('dict', site): None}
        if isinstance(e, ast.Subscript):
            return self._subscript(f, e, env)
        if isinstance(e, ast.Lambda):
            return {('lambda', id(e)): None}
        if isinstance(e, ast.Yield):
            if e.value is not None and isinstance(f, FuncInfo):
                self.add(('Y', f.qname), self.ev(f, e.value, env), 'yield')
            return {NONE: None}
        if isinstance(e, ast.YieldFrom):
            if isinstance(f, FuncInfo):
                self.add(('Y', f.qname), self.elements(self.ev(f, e.value, env)), 'yield from')
            return {NONE: None}
        if isinstance(e, ast.Starred):
            return self.ev(f, e.value, env)
        if isinstance(e, ast.Slice):
            return {INT: None}
        if isinstance(e, ast.FormattedValue):
            return self.ev(f, e.value, env)
        if isinstance(e, ast.NamedExpr):
            v = self.ev(f, e.value, env)
            self.assign(f, e.target, v, env, e)
            return v
        return {('ext', type(e).__name__): None}

    def _name(self, f, e):
        if isinstance(f, FuncInfo):
            g = f
            while g is not None:
                node = ('L', g.qname, e.id)
                if node in self.pts or e.id in g.all_params:
                    return self.get(node)
                from .model import local_names
                if e.id in local_names(g):
                    return self.get(node)
                g = g.parent
            mod = f.module
        else:
            mod = f
        r = self.repo.module_binding(mod, e.id)
        if r is None:
            if e.id in ('True', 'False'):
                return {BOOL: None}
            return {('ext', 'builtin %s' % e.id): None}
        if r[0] == 'class':
            return {('class', r[1].qname): None}
        if r[0] == 'func':
            return {('fn', r[1].qname): None}
        if r[0] == 'var':
            return self.get(('G', r[1].name, e.id))
        return {('ext', r[1]): None}

    def _attr(self, f, e, env):
        out = {}
        for r in self.ev(f, e.value, env):
            k = r[0]
            if k == 'inst':
                ci = self._cls(r[1])
                m = self.repo.lookup_method(ci, e.attr) if ci else None
                if m is not None and m.is_property:
                    self.called.add(m)
                    self.add(('L', m.qname, 'self'), {r: None}, 'property receiver')
                    out.update(self.get(('R', m.qname)))
                elif m is not None:
                    out[('bound', m.qname, r[1])] = None
                else:
                    out.update(self.get(('F', r[1], e.attr)))
                    if ci is not None:
                        for c in self.repo.mro(ci):
                            if e.attr in c.class_attrs:
                                out.update(self.ev(c.module, c.class_attrs[e.attr], {}))
                                break
            elif k == 'class':
                ci = self._cls(r[1])
                if ci is not None:
                    for c in self.repo.mro(ci):
                        if e.attr in c.class_attrs:
                            out.update(self.ev(c.module, c.class_attrs[e.attr], {}))
                            break
                        if e.attr in c.methods:
                            out[('fn', c.methods[e.attr].qname)] = None
                            break
            elif k == 'ctx':
                cname = r[1][0].upper() + r[1][1:] + 'Context'
                info = self.acc.get(cname, {})
                if e.attr in info.get('fields', ()):
                    lits = tuple(self.g.label_literals(r[1], e.attr))
                    out[('token', lits)] = None
                elif e.attr in ('start', 'stop'):
                    out[('ext', 'token')] = None
                else:
                    out[('ctxmethod', r[1], e.attr)] = None
            elif k == 'token':
                if e.attr == 'text':
                    for l in r[1]:
                        out[S(('lit', l))] = None
                    if not r[1]:
                        out[S(('any', 'token text'))] = None
                else:
                    out[INT] = None
            elif k == 'ext':
                if r[1] == 'token' and e.attr in ('line', 'column', 'type'):
                    out[INT] = None
                elif r[1] == 'token' and e.attr == 'text':
                    out[S(('any', 'token text'))] = None
                else:
                    out[('ext', 'attribute %s of an external object' % e.attr)] = None
            elif k in ('str', 'list', 'dict', 'set', 'tuple', 'tnode', 'ctxlist', 'tnodelist', 'items'):
                out[('method', r, e.attr)] = None
        return out

    def stringify(self, f, vals, conv='s'):
        """lexical classes of str(v) / repr(v) for the given values"""
        out = []
        for v in vals:
            k = v[0]
            if k == 'str':
                out.append(('repr',) if conv == 'r' else v[1])
            elif k == 'int':
                out.append(('intstr',))
            elif k == 'bool':
                out += [('lit', 'True'), ('lit', 'False')]
            elif k == 'none':
                out.append(('lit', 'None'))
            elif k == 'inst':
                ci = self._cls(v[1])
                m = None
                if ci is not None:
                    m = self.repo.lookup_method(ci, '__repr__') if conv == 'r' else \
                        (self.repo.lookup_method(ci, '__str__') or self.repo.lookup_method(ci, '__repr__'))
                if m is None:
                    out.append(('objrepr', v[1]))
                else:
                    self.called.add(m)
                    self.add(('L', m.qname, 'self'), {v: None}, 'str() receiver')
                    rs = [x[1] for x in self.pts.get(('R', m.qname), {}) if x[0] == 'str']
                    out += rs if rs else []
            elif k in ('list', 'tuple', 'dict', 'set'):
                out.append(('any', 'repr of a container'))
            elif k in ('ctx', 'tnode'):
                out.append(('any', 'repr of a parse-tree node (source text)'))
            else:
                out.append(('any', 'str of %s' % (v[1][:40] if len(v) > 1 and isinstance(v[1], str) else k)))
        return out or []

    def _binop(self, f, e, env):
        l = self.ev(f, e.left, env)
        r = self.ev(f, e.right, env)
        out = {}
        if isinstance(e.op, ast.Add):
            ls = [v[1] for v in l if v[0] == 'str']
            rs = [v[1] for v in r if v[0] == 'str']
            for a in ls:
                for b in rs:
                    out[S(cat([a, b]))] = None
            lists_l = [v for v in l if v[0] in ('list', 'tuple')]
            lists_r = [v for v in r if v[0] in ('list', 'tuple')]
            if lists_l or lists_r:
                site = self.site(f, e, 'list')
                for v in lists_l + lists_r:
                    self.add(('E', site), self.elements({v: None}), 'concatenation')
                ne = (lists_l and all(v[1] in self.nonempty_sites for v in lists_l)) or \
                     (lists_r and all(v[1] in self.nonempty_sites for v in lists_r))
                (self.nonempty_sites if ne else self.maybe_empty_sites).add(site)
                if ne:
                    self.maybe_empty_sites.discard(site)
                out[('list', site)] = None
            if any(v[0] == 'int' for v in l) and any(v[0] == 'int' for v in r):
                out[INT] = None
            for v in list(l) + list(r):
                if v[0] == 'ext':
                    out[v] = None
            return out
        if isinstance(e.op, ast.Mod):
            fmts = [v[1] for v in l if v[0] == 'str']
            if fmts:
                args = e.right.elts if isinstance(e.right, ast.Tuple) else [e.right]
                for fm in fmts:
                    if fm[0] != 'lit':
                        out[S(('any', 'non-constant format'))] = None
                        continue
                    import re as _re
                    pieces = _re.split(r'(%[sdr])', fm[1])
                    parts = []
                    i = 0
                    for p in pieces:
                        if p in ('%s', '%d', '%r'):
                            if i < len(args):
                                parts.append(self.stringify(f, self.ev(f, args[i], env), 'r' if p == '%r' else 's'))
                                i += 1
                        elif p:
                            parts.append([('lit', p)])
                    for x in _product_cat(parts):
                        out[S(x)] = None
                return out
            return {INT: None}
        if isinstance(e.op, ast.Mult):
            for v in l:
                if v[0] == 'str':
                    out[S(('rep', widen(v[1])))] = None
                elif v[0] in ('list',):
                    out[v] = None
            if not out:
                out[INT] = None
            return out
        return {INT: None}

    def _subscript(self, f, e, env):
        out = {}
        idx = e.slice
        self.ev(f, idx, env)
        for r in self.ev(f, e.value, env):
            k = r[0]
            if k == 'tuple':
                if isinstance(idx, ast.Constant) and isinstance(idx.value, int) and idx.value >= 0:
                    out.update(self.get(('T', r[1], idx.value)))
                    out.update(self.get(('E', r[1])))
                elif isinstance(idx, ast.Slice):
                    out[r] = None
                else:
                    out.update(self.elements({r: None}))
            elif k in ('list',):
                if isinstance(idx, ast.Slice):
                    out[r] = None
                else:
                    out.update(self.get(('E', r[1])))
            elif k == 'dict':
                out.update(self.get(('V', r[1])))
            elif k == 'pair':
                out.update(self.get(('K' if isinstance(idx, ast.Constant) and idx.value == 0 else 'V', r[1])))
            elif k == 'ctxlist':
                out[('ctx', r[1])] = None
            elif k == 'tnodelist':
                out[('tnode', r[1])] = None
            elif k == 'str':
                out[S(('any', 'substring')) if not no_linebreak(r[1]) else S(('noline',))] = None
            elif k == 'ext':
                out[('ext', 'element of an external object')] = None
        return out

    # -- calls ----------------------------------------------------------------------------
    def _callees(self, f, call, env):
        out = []
        for v in self.ev(f, call.func, env):
            if v[0] == 'fn':
                fi = self._func(v[1])
                if fi:
                    out.append(fi)
        return out

    def _func(self, qname):
        parts = qname.split('.')
        m = self.repo.modules.get(parts[0])
        if m is None:
            return None
        for fi in m.all_funcs:
            if fi.qname == qname:
                return fi
        return None

    def bind(self, callee, call, f, env, self_val=None):
        """pass arguments; returns the callee's return values"""
        self.called.add(callee)
        a = callee.node.args
        params = [x.arg for x in a.posonlyargs + a.args]
        if self_val is not None and params:
            self.add(('L', callee.qname, params[0]), {self_val: None}, 'receiver')
            params = params[1:]
        pos = list(call.args)
        i = 0
        extra = {}
        for arg in pos:
            if isinstance(arg, ast.Starred):
                el = self.elements(self.ev(f, arg.value, env))
                for p in params[i:]:
                    self.add(('L', callee.qname, p), el, 'star argument @%s' % self.loc(f, call))
                extra.update(el)
                continue
            vals = self.ev(f, arg, env)
            if i < len(params):
                self.add(('L', callee.qname, params[i]), vals, 'argument %s @%s' % (norm(arg)[:40], self.loc(f, call)))
            else:
                extra.update(vals)
            i += 1
        for kw in call.keywords:
            vals = self.ev(f, kw.value, env)
            if kw.arg is not None:
                self.add(('L', callee.qname, kw.arg), vals, 'keyword argument @%s' % self.loc(f, call))
        if a.vararg is not None:
            site = ('tuple', callee.module.name, callee.node.lineno, -1)
            self.add(('E', site), extra, 'extra positional arguments')
            self.add(('L', callee.qname, a.vararg.arg), {('tuple', site): None}, 'varargs')
        if callee.is_generator and not callee.is_contextmanager:
            site = ('list', callee.module.name, callee.node.lineno, -2)
            self.maybe_empty_sites.add(site)
            self.add(('E', site), self.get(('Y', callee.qname)), 'yielded by %s' % callee.name)
            return {('list', site): None}
        return self.get(('R', callee.qname))

    def _call(self, f, e, env):
        fn = e.func
        txt = norm(fn)
        # library functions recognised by name ------------------------------------------
        if isinstance(fn, ast.Name):
            r = self.repo.resolve_name(f, fn.id) if isinstance(f, FuncInfo) else self.repo.module_binding(f, fn.id)
            if r is None or r[0] in ('builtin', 'ext'):
                return self._builtin(f, e, fn.id, env)
        if txt == 'itertools.chain.from_iterable':
            site = self.site(f, e, 'list')
            self.maybe_empty_sites.add(site)
            inner = self.elements(self.ev(f, e.args[0], env))
            self.add(('E', site), self.elements(inner), 'chain.from_iterable')
            return {('list', site): None}
        if txt in ('itertools.chain',):
            site = self.site(f, e, 'list')
            for a in e.args:
                v = self.ev(f, a.value if isinstance(a, ast.Starred) else a, env)
                self.add(('E', site), self.elements(self.elements(v) if isinstance(a, ast.Starred) else v), 'chain')
            return {('list', site): None}
        if (txt in ('itertools.starmap', 'starmap') and len(e.args) == 2) or \
                (isinstance(fn, ast.Name) and fn.id == 'map' and len(e.args) >= 2 and not isinstance(e.args[0], ast.Lambda)):
            # map(g, xs, ys..) / starmap(g, rows): g is called with the elements (of the rows) as arguments
            fvals = self.ev(f, e.args[0], env)
            if txt.endswith('starmap'):
                rows = self.elements(self.ev(f, e.args[1], env))
                argsets = None
                for r in rows:
                    cols = None
                    if r[0] == 'tuple':
                        n = max([k[2] for k in self.pts if k[0] == 'T' and k[1] == r[1]] + [-1]) + 1
                        cols = [dict(self.get(('T', r[1], i))) for i in range(n)]
                    elif r[0] == 'pair':
                        cols = [dict(self.get(('K', r[1]))), dict(self.get(('V', r[1])))]
                    if cols is not None:
                        argsets = cols if argsets is None else [dict(a, **b) for a, b in zip(argsets, cols)]
                if argsets is None:
                    el = self.elements(rows)
                    argsets = [el, el, el, el]
            else:
                argsets = [self.elements(self.ev(f, a, env)) for a in e.args[1:]]
            site = self.site(f, e, 'list')
            self.maybe_empty_sites.add(site)
            for v in fvals:
                fi = self._func(v[1]) if v[0] in ('fn', 'bound') else None
                if fi is None:
                    continue
                self.called.add(fi)
                a = fi.node.args
                params = [x.arg for x in a.posonlyargs + a.args]
                if v[0] == 'bound' and params:
                    self.add(('L', fi.qname, params[0]), {('inst', v[2]): None}, 'receiver')
                    params = params[1:]
                for p_, vals in zip(params, argsets):
                    self.add(('L', fi.qname, p_), vals, 'argument through %s @%s' % (txt.split('.')[-1], self.loc(f, e)))
                if fi.is_generator and not fi.is_contextmanager:
                    gs = ('list', fi.module.name, fi.node.lineno, -2)
                    self.add(('E', gs), self.get(('Y', fi.qname)), 'yielded by %s' % fi.name)
                    self.add(('E', site), {('list', gs): None}, 'map result')
                else:
                    self.add(('E', site), self.get(('R', fi.qname)), 'map result')
            return {('list', site): None}
        if txt == 'functools.reduce' and e.args and isinstance(e.args[0], ast.Lambda):
            lam = e.args[0]
            ps = [a.arg for a in lam.args.args]
            init = self.ev(f, e.args[2], env) if len(e.args) > 2 else {}
            elems = self.elements(self.ev(f, e.args[1], env))
            node_acc = ('L', (f.qname if isinstance(f, FuncInfo) else f.name) + '.<lambda@%d>' % lam.lineno, ps[0])
            node_el = ('L', (f.qname if isinstance(f, FuncInfo) else f.name) + '.<lambda@%d>' % lam.lineno, ps[1])
            self.add(node_acc, init, 'reduce initial')
            self.add(node_el, elems, 'reduce element')
            if not init:
                self.add(node_acc, elems, 'reduce first element')
            res = self._ev_lambda(f, lam, {ps[0]: node_acc, ps[1]: node_el}, env)
            self.add(node_acc, res, 'reduce step')
            out = dict(self.get(node_acc))
            return out
        if txt.startswith('re.'):
            return {('ext', 'match'): None, NONE: None}
        if txt in ('dict.fromkeys', 'collections.OrderedDict.fromkeys', 'OrderedDict.fromkeys') and e.args:
            # order-preserving de-duplication
            site = self.site(f, e, 'dict')
            self.add(('K', site), self.elements(self.ev(f, e.args[0], env)), 'dict.fromkeys')
            self.add(('V', site), {NONE: None}, 'dict.fromkeys')
            return {('dict', site): None}
        vals = self.ev(f, fn, env)
        out = {}
        for v in vals:
            k = v[0]
            if k == 'fn':
                fi = self._func(v[1])
                if fi is not None:
                    out.update(self.bind(fi, e, f, env))
            elif k == 'class':
                ci = self._cls(v[1])
                inst = ('inst', v[1])
                init = self.repo.lookup_method(ci, '__init__') if ci else None
                if init is not None:
                    self.bind(init, e, f, env, self_val=inst)
                else:
                    for a in e.args:
                        self.ev(f, a, env)
                out[inst] = None
            elif k == 'bound':
                fi = self._func(v[1])
                tname = self._dispatch_idiom(fi, v[2]) if fi is not None else None
                if tname is not None and e.args:
                    # receiver.generate(g) is getattr(g, <constant of the receiver's class>)(receiver): bound per receiver class
                    for gv in self.ev(f, e.args[0], env):
                        gci = self._cls(gv[1]) if gv[0] == 'inst' else None
                        target = self.repo.lookup_method(gci, tname) if gci else None
                        if target is not None and len(target.params) >= 2:
                            self.called.add(target)
                            self.add(('L', target.qname, target.params[0]), {gv: None}, 'receiver')
                            self.add(('L', target.qname, target.params[1]), {('inst', v[2]): None}, 'dispatch through %s' % fi.name)
                            out.update(self.get(('R', target.qname)))
                elif fi is not None:
                    out.update(self.bind(fi, e, f, env, self_val=('inst', v[2])))
            elif k == 'ctxmethod':
                out.update(self._ctx_method(v[1], v[2], e))
            elif k == 'method':
                out.update(self._method(f, v[1], v[2], e, env))
            elif k == 'ext':
                for a in e.args:
                    self.ev(f, a.value if isinstance(a, ast.Starred) else a, env)
                for kw in e.keywords:
                    self.ev(f, kw.value, env)
                name = v[1]
                if isinstance(fn, ast.Attribute) and fn.attr == 'write' and not any(x[1] is e for x in self.stream_writes):
                    self.stream_writes.append((f, e))
                if isinstance(fn, ast.Attribute) and fn.attr == 'visit' and e.args:
                    pass
                out[('ext', 'result of %s' % (txt.split('.')[-1][:30]))] = None
            elif k == 'inst':
                pass
        # visitor.visit(tree): ANTLR dispatches to visit<Rule>
        if isinstance(fn, ast.Attribute) and fn.attr == 'visit' and e.args:
            for recv in self.ev(f, fn.value, env):
                if recv[0] != 'inst':
                    continue
                ci = self._cls(recv[1])
                for a in self.ev(f, e.args[0], env):
                    rules = [a[1]] if a[0] == 'ctx' else ([self.g.start_rule] if a[0] == 'ext' else [])
                    for rule in rules:
                        m = self.repo.lookup_method(ci, 'visit' + rule[0].upper() + rule[1:])
                        if m is not None:
                            self.called.add(m)
                            self.add(('L', m.qname, m.params[0]), {recv: None}, 'receiver')
                            self.add(('L', m.qname, m.params[1]), {('ctx', rule): None}, 'ANTLR visit dispatch')
                            out.update(self.get(('R', m.qname)))
        return out

    def _dispatch_idiom(self, fi, cls_qname):
        """``def m(self, g): return getattr(g, self.ATTR)(self)`` -> the constant ATTR has for the receiver's class"""
        if fi.cls is None or len(fi.params) != 2:
            return None
        rets = [n for n in own_nodes(fi.node) if isinstance(n, ast.Return)]
        if len(rets) != 1 or not (isinstance(rets[0].value, ast.Call) and isinstance(rets[0].value.func, ast.Call) and
                                  is_name(rets[0].value.func.func, 'getattr')):
            return None
        from .templates import dispatch_target
        ci = self._cls(cls_qname)
        return dispatch_target(self.repo, ci, fi.name) if ci is not None else None

    def _ev_lambda(self, f, lam, binding, env):
        """evaluate a lambda body with its parameters bound to abstract nodes"""
        return self._ev_with(f, lam.body, env, binding)

    def _ev_with(self, f, body, env, binding):
        saved = self._name
        flow = self

        def name(ff, e):
            if isinstance(e, ast.Name) and e.id in binding:
                return flow.get(binding[e.id])
            return saved(ff, e)
        self._name = name
        try:
            return self.ev(f, body, env)
        finally:
            self._name = saved

    def _ctx_method(self, rule, meth, call):
        cname = rule[0].upper() + rule[1:] + 'Context'
        info = self.acc.get(cname)
        out = {}
        if meth == 'getText':
            return {S(('any', 'text of a %s subtree (source text)' % rule)): None}
        if info is None:
            return {('ext', 'ctx method'): None}
        a = info['accessors'].get(meth)
        if a is None:
            return {('ext', 'ctx.%s()' % meth): None}
        kind, name, multi = a
        single = bool(call.args) or not multi
        if kind == 'rule':
            out[('ctx', name) if single else ('ctxlist', name)] = None
        else:
            out[('tnode', name) if single else ('tnodelist', name)] = None
        if single:
            out[NONE] = None
        return out

    def _method(self, f, recv, meth, e, env):
        k = recv[0]
        args = [self.ev(f, a.value if isinstance(a, ast.Starred) else a, env) for a in e.args]
        out = {}
        if k == 'tnode':
            if meth == 'getText':
                return {S(('tok', recv[1])): None}
            return {('ext', 'terminal node method'): None}
        if k == 'str':
            lex = recv[1]
            if meth == 'join':
                el = self.elements(args[0]) if args else {}
                self._order_use(f, e.args[0], args[0] if args else {}, 'joined into a string')
                strs = [v[1] for v in el if v[0] == 'str']
                if not strs:
                    return {S(('lit', '')): None}
                if all(no_linebreak(x) for x in strs) and no_linebreak(lex) and any(lex_has(x, ('ambient', 'objrepr')) for x in strs):
                    return {S(('ambient', 'join of non-deterministic parts')): None}
                strs = sorted({widen(x) for x in strs}, key=str)
                return {S(('joined', lex, tuple(strs))): None}
            if meth == 'splitlines':
                return {('lines',): None}
            if meth == 'format':
                return {S(('any', 'format')): None}
            if meth in ('replace', 'strip', 'lower', 'upper', 'rstrip', 'lstrip', 'encode', 'decode'):
                if meth == 'replace' and len(e.args) == 2 and isinstance(e.args[0], ast.Constant):
                    return {S(('replaced', lex, e.args[0].value)): None} if False else {S(lex if no_linebreak(lex) else ('any', 'replace')): None}
                return {S(lex if no_linebreak(lex) else ('any', meth)): None}
            if meth in ('startswith', 'endswith', 'isidentifier', 'isdigit'):
                return {BOOL: None}
            if meth == 'split':
                site = self.site(f, e, 'list')
                self.add(('E', site), {S(lex if no_linebreak(lex) else ('any', 'split')): None}, 'split')
                return {('list', site): None}
            return {S(('any', 'str.%s' % meth)): None}
        if k in ('list', 'set', 'dict') and meth in ('append', 'add', 'extend', 'update', 'insert', 'pop', 'remove', 'discard', 'clear',
                                                     'setdefault', 'sort', 'reverse', 'popitem'):
            self.mutated.setdefault(recv[1], (f, e))
        if k in ('list', 'set'):
            site = recv[1]
            if meth in ('append', 'add'):
                if args:
                    self.add(('E', site), args[0], 'append %s @%s' % (norm(e.args[0])[:40], self.loc(f, e)))
                return {NONE: None}
            if meth == 'extend' or meth == 'update':
                if args:
                    self.add(('E', site), self.elements(args[0]), 'extend')
                return {NONE: None}
            if meth == 'insert':
                if len(args) > 1:
                    self.add(('E', site), args[1], 'insert')
                return {NONE: None}
            if meth == 'pop':
                if k == 'set':
                    self._order_use(f, e, {recv: None}, 'pop() from a set')
                return self.get(('E', site))
            if meth in ('copy',):
                return {recv: None}
            if meth in ('index', 'count'):
                return {INT: None}
            if k == 'set' and meth in ('union', 'intersection', 'difference', 'symmetric_difference'):
                s2 = self.site(f, e, 'set')
                self.add(('E', s2), self.get(('E', site)), 'set.%s' % meth)
                for i, a in enumerate(args):
                    self.add(('E', s2), self.elements(self.elements(a)) if isinstance(e.args[i], ast.Starred) else self.elements(a), 'set.%s' % meth)
                return {('set', s2): None}
            return {NONE: None}
        if k == 'tuple':
            return {INT: None}
        if k == 'dict':
            site = recv[1]
            if meth == 'setdefault':
                if args:
                    self.add(('K', site), args[0], 'setdefault key %s @%s' % (norm(e.args[0])[:50], self.loc(f, e)))
                if len(args) > 1:
                    self.add(('V', site), args[1], 'setdefault')
                return self.get(('V', site))
            if meth == 'get':
                out = dict(self.get(('V', site)))
                if len(args) > 1:
                    out.update(args[1])
                else:
                    out[NONE] = None
                return out
            if meth == 'items':
                return {('items', site): None}
            if meth == 'keys':
                s2 = self.site(f, e, 'list')
                self.add(('E', s2), self.get(('K', site)), 'keys')
                return {('list', s2): None}
            if meth == 'values':
                s2 = self.site(f, e, 'list')
                self.add(('E', s2), self.get(('V', site)), 'values')
                return {('list', s2): None}
            if meth == 'copy':
                return {recv: None}
            if meth == 'update':
                for a in args:
                    for v in a:
                        if v[0] == 'dict':
                            self.add(('K', site), self.get(('K', v[1])), 'update')
                            self.add(('V', site), self.get(('V', v[1])), 'update')
                return {NONE: None}
            if meth == 'pop':
                return self.get(('V', site))
            return {NONE: None}
        if k in ('ctxlist', 'tnodelist'):
            return {INT: None}
        return {('ext', 'method %s' % meth): None}

    def _builtin(self, f, e, name, env):
        args = [self.ev(f, a.value if isinstance(a, ast.Starred) else a, env) for a in e.args]
        for kw in e.keywords:
            self.ev(f, kw.value, env)
        if name == 'str':
            return {S(x): None for x in self.stringify(f, args[0], 's')} if args else {S(('lit', '')): None}
        if name == 'repr':
            return {S(x): None for x in self.stringify(f, args[0], 'r')} if args else {}
        if name in ('len', 'int', 'ord', 'abs', 'min', 'max', 'sum'):
            return {INT: None}
        if name in ('isinstance', 'hasattr', 'callable', 'bool', 'any', 'all', 'issubclass'):
            return {BOOL: None}
        if name == 'object' and not e.args:
            return {('sentinel', self.site(f, e, 'object')): None}     # a bare object(): no attributes, no content
        if name in ('id', 'hash'):
            return {('ambient', name): None}
        if name == 'range':
            return {('range',): None}
        if name == 'enumerate':
            node = ('X', self.site(f, e, 'enum'))
            self.add(node, self.elements(args[0]) if args else {}, 'enumerate')
            return {('enumerate', node): None}
        if name in ('list', 'tuple', 'sorted', 'reversed', 'set', 'frozenset'):
            kind = 'set' if name in ('set', 'frozenset') else 'list'
            site = self.site(f, e, kind)
            if args:
                if name != 'sorted' and kind != 'set':
                    self._order_use(f, e.args[0], args[0], 'turned into a sequence by %s()' % name)
                self.add(('E', site), self.elements(args[0]), '%s(...)' % name)
                if kind == 'list' and args[0] and all(v[0] in ('list', 'tuple') and v[1] in self.nonempty_sites for v in args[0]):
                    self.nonempty_sites.add(site)
                else:
                    self.maybe_empty_sites.add(site)
            else:
                self.maybe_empty_sites.add(site)
            return {(kind, site): None}
        if name == 'dict':
            site = self.site(f, e, 'dict')
            if args:
                for v in args[0]:
                    if v[0] == 'dict':
                        self.add(('K', site), self.get(('K', v[1])), 'dict()')
                        self.add(('V', site), self.get(('V', v[1])), 'dict()')
            return {('dict', site): None}
        if name == 'getattr':
            out = {}
            if len(e.args) >= 2 and isinstance(e.args[1], ast.Constant):
                fake = ast.Attribute(value=e.args[0], attr=e.args[1].value, ctx=ast.Load(), lineno=e.lineno, col_offset=e.col_offset)
                out.update(self._attr(f, fake, env))
            if len(args) > 2:
                out.update(args[2])
            return out
        if name in ('print',):
            return {NONE: None}
        if name == 'super':
            return {('ext', 'super'): None}
        if name == 'open':
            return {('ext', 'file'): None}
        if name in ('zip', 'map', 'filter', 'iter', 'next'):
            site = self.site(f, e, 'list')
            for a in args:
                self.add(('E', site), self.elements(a), name)
            return {('list', site): None} if name != 'next' else self.elements(args[0]) if args else {}
        return {('ext', '%s(...)' % name): None}

    # -- queries for the rules ------------------------------------------------------------
    def values_in(self, func, expr, filters=None):
        """abstract values of an expression of ``func`` after the fix-point"""
        return set(self.ev(func, expr, filters or {}))

    def trace(self, node, value, depth=0, seen=None):
        """source -> ... -> node chain for a value (best effort)"""
        seen = seen or set()
        out = []
        cur = node
        while cur is not None and (cur, value) not in seen and depth < 12:
            seen.add((cur, value))
            info = self.pts.get(cur, {}).get(value)
            if info is None:
                break
            src, note = info
            out.append('%s  [%s]' % (_node_name(cur), note))
            cur = src
            depth += 1
        return list(reversed(out))


def _node_name(n):
    if n[0] == 'L':
        return '%s:%s' % (n[1], n[2])
    if n[0] == 'F':
        return '%s.%s' % (n[1], n[2])
    if n[0] == 'R':
        return 'return of %s' % n[1]
    if n[0] in ('E', 'T', 'K', 'V'):
        return '%s of %s@%s:%s' % ({'E': 'element', 'T': 'item', 'K': 'key', 'V': 'value'}[n[0]], n[1][0], n[1][1], n[1][2])
    return str(n)


def _load(t):
    import copy
    c = copy.copy(t)
    c.ctx = ast.Load()
    return c


def _conjuncts(t):
    if isinstance(t, ast.BoolOp) and isinstance(t.op, ast.And):
        out = []
        for v in t.values:
            out += _conjuncts(v)
        return out
    return [t]


def _disjuncts(t):
    if isinstance(t, ast.BoolOp) and isinstance(t.op, ast.Or):
        out = []
        for v in t.values:
            out += _disjuncts(v)
        return out
    return [t]


def _product_cat(parts):
    """parts: list of alternatives lists -> all concatenations (bounded)"""
    res = [[]]
    for alts in parts:
        if not alts:
            alts = [('lit', '')]
        if len(res) * len(alts) > 64:
            # too many combinations: collapse
            if not (all(no_linebreak(a) for a in alts) and all(no_linebreak(x) for r in res for x in r)):
                return [('any', 'formatted text')]
            if any(lex_has(a, ('ambient', 'objrepr')) for a in alts) or any(lex_has(x, ('ambient', 'objrepr')) for r in res for x in r):
                return [('ambient', 'formatted text')]
            return [('noline',)]
        res = [r + [a] for r in res for a in alts]
    return [cat(r) for r in res]
