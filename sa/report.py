"""E8 - reporting: obligations, violations, known findings, evidence files, exit codes."""
import json
import os
import time

from .model import AnalysisError

VERIF = os.path.dirname(os.path.dirname(os.path.abspath(__file__)))
EVIDENCE_DIR = os.path.join(VERIF, 'evidence')
KNOWN = os.path.join(VERIF, 'known_findings.json')


class Report:
    def __init__(self, prop, tier='quick', seed=0, repo_root='/repo', replay=None, write=True):
        self.prop = prop
        self.tier = tier
        self.seed = seed
        self.repo_root = repo_root
        self.t0 = time.time()
        self.obligations = []      # dicts: rule, construct, verdict, detail, where, nontrivial
        self.violations = []
        self.notes = []
        self.assumptions = []
        self.analysed = {}
        self.minima = []
        self.explanation = ''
        self.rules = {}
        self.replay = replay
        self.write = write
        self.exhaustive = None
        self.extra = {}
        self.deferred = []

    # -- recording ------------------------------------------------------------------------
    def run(self, fn, *args, **kw):
        """run one rule; an analysis error inside it is recorded (the run ends as ANALYSIS-ERROR unless a violation is
        found) and the remaining rules still run"""
        from .model import AnalysisError
        try:
            return fn(*args, **kw)
        except AnalysisError as e:
            msg = str(e)
            if msg not in self.deferred:
                self.deferred.append(msg)
            return None

    def rule(self, rid, text):
        self.rules[rid] = text

    def ok(self, rule, construct, detail='', where=None, nontrivial=True):
        self.obligations.append(dict(rule=rule, construct=construct, verdict='holds', detail=detail,
                                     where=where, nontrivial=nontrivial))

    def violation(self, rule, construct, what, where=None, witness=None):
        v = dict(rule=rule, construct=construct, verdict='VIOLATED', detail=what, where=where,
                 witness=witness, nontrivial=True)
        for o in self.violations:
            if o['rule'] == rule and o['construct'] == construct:
                return
        self.obligations.append(v)
        self.violations.append(v)

    def note(self, rule, text, where=None):
        self.notes.append(dict(rule=rule, note=text, where=where))

    def assume(self, text):
        if text not in self.assumptions:
            self.assumptions.append(text)

    def analysed_add(self, kind, item):
        self.analysed.setdefault(kind, [])
        if item not in self.analysed[kind]:
            self.analysed[kind].append(item)

    def minimum(self, what, count, minimum):
        self.minima.append(dict(what=what, count=count, minimum=minimum))
        if count < minimum:
            # deferred: a violation found elsewhere in the run is still reported (exit 1); without one the
            # run ends as ANALYSIS-ERROR (exit 2), never as a silent pass
            self.deferred.append('%d instance(s) of "%s" found, at least %d were confirmed by hand on the reference '
                                 'tree - the rule would pass vacuously' % (count, what, minimum))

    # -- finishing ------------------------------------------------------------------------
    def _known(self):
        try:
            with open(KNOWN) as f:
                data = json.load(f)
        except FileNotFoundError:
            return []
        return [e for e in data.get('findings', []) if e.get('property') == self.prop]

    def new_violations(self):
        known_open = {(e['rule'], e['construct']) for e in self._known() if e.get('status') == 'open'}
        return [v for v in self.violations if (v['rule'], v['construct']) not in known_open]

    def finish(self):
        known_open = {(e['rule'], e['construct']): e for e in self._known() if e.get('status') == 'open'}
        new, listed = [], []
        for v in self.violations:
            key = (v['rule'], v['construct'])
            if self.replay is not None and key != (self.replay.get('rule'), self.replay.get('construct')):
                continue
            if key in known_open:
                listed.append((v, known_open[key]))
            else:
                new.append(v)
        wall = time.time() - self.t0
        lines = []
        for v, e in listed:
            lines.append('KNOWN-FINDING: property=%s %s [%s %s] %s' % (self.prop, e.get('what', v['detail']),
                                                                     v['rule'], v['construct'], v.get('where') or ''))
        replay_paths = []
        if new and self.write:
            os.makedirs(os.path.join(EVIDENCE_DIR, 'replay'), exist_ok=True)
        for i, v in enumerate(new):
            path = os.path.join(EVIDENCE_DIR, 'replay', '%s-%d.json' % (self.prop, i + 1))
            if self.write:
                with open(path, 'w') as f:
                    json.dump(dict(property=self.prop, rule=v['rule'], construct=v['construct'], what=v['detail'],
                                   where=v.get('where'), witness=v.get('witness'), repo=self.repo_root), f, indent=1)
            replay_paths.append(path)
            lines.append('%s: rule %s violated at %s: %s%s' % (v.get('where') or '?', v['rule'], v['construct'],
                                                              v['detail'],
                                                              ('\n    witness: %s' % v['witness']) if v.get('witness') else ''))
            lines.append('VIOLATION property=%s replay=%s' % (self.prop, path))
        nontriv = {(o['rule'], o['construct']) for o in self.obligations if o.get('nontrivial')}
        samples = []
        seen_rules = {}
        for o in self.obligations:
            k = seen_rules.get(o['rule'], 0)
            if k < 4 or o['verdict'] != 'holds':
                samples.append({k2: v2 for k2, v2 in o.items() if v2 not in (None, '')})
            seen_rules[o['rule']] = k + 1
        cov = dict(
            explanation=self.explanation or 'static rules over the source of %s' % self.repo_root,
            evaluations=len(self.obligations),
            distinct_nontrivial=len(nontriv),
            rule='one evaluation = one rule instance (rule id + construct found by role in the source); '
                 'non-trivial = the rule had a concrete path, flow, table entry or template to decide at that '
                 'construct (instances satisfied vacuously are not counted); distinct by (rule, construct)',
            samples=samples[:60],
            rules=self.rules,
            analysed=self.analysed,
            instance_minima=self.minima,
            notes=self.notes,
            known_findings_matched=[e.get('what') for _, e in listed],
        )
        if self.exhaustive is not None:
            cov['exhaustive'] = self.exhaustive
        cov.update(self.extra)
        ev = dict(property_id=self.prop, tier=self.tier, seed=self.seed, level='other', coverage=cov,
                  assumptions=self.assumptions, wall_s=round(wall, 3), violations=len(new))
        if self.write:
            os.makedirs(EVIDENCE_DIR, exist_ok=True)
            with open(os.path.join(EVIDENCE_DIR, '%s.json' % self.prop), 'w') as f:
                json.dump(ev, f, indent=1, default=str)
        status = 1 if new else 0
        print('%s [%s] rules=%d instances=%d nontrivial=%d violations=%d known=%d  %.2fs' % (
            self.prop, self.tier, len(self.rules), len(self.obligations), len(nontriv), len(new), len(listed), wall))
        for n in self.notes:
            print('  note[%s]: %s' % (n['rule'], n['note']))
        if os.environ.get('VERIF_VERBOSE'):
            for o in self.obligations:
                print('  %-9s %-10s %s :: %s (%s)' % (o['verdict'], o['rule'], o['construct'], o['detail'], o.get('where')))
        for l in lines:
            print(l)
        return status


def analysis_error(prop, tier, seed, msg, write=True):
    print('ANALYSIS-ERROR property=%s %s' % (prop, msg))
    if write:
        os.makedirs(EVIDENCE_DIR, exist_ok=True)
        ev = dict(property_id=prop, tier=tier, seed=seed, level='other',
                  coverage=dict(explanation='analysis could not be carried out: %s' % msg, evaluations=0,
                                distinct_nontrivial=0, samples=[]),
                  wall_s=0.0, violations=0, analysis_error=msg)
        with open(os.path.join(EVIDENCE_DIR, '%s.json' % prop), 'w') as f:
            json.dump(ev, f, indent=1)
    return 2
