"""Rules added in round 2: state that shadows the engine's primary tables or the binding cell.

  rule_no_cached_binding_state   a truth value computed from the binding cell is never stored in an object
  rule_no_definition_time_state  no mutable container is created when a class/decorator is evaluated and
                                 mutated at run time (one per process, not one per engine)
  rule_derived_tables_follow     a table filled from eval_context (a memo of resolutions) is updated by every
                                 writer of eval_context; a variadic registration drops it entirely
  rule_lookup_confined           the function a goal resolves to comes out of eval_context only
  rule_lookups_agree             every function that consults the exact key of a predicate also consults the
                                 variadic one (sibling agreement with query())
  rule_facts_immutable           no field of a stored fact is written after its constructor
  rule_depth_error_propagates    no handler inside the engine's query machinery catches the depth error
"""
import ast

from .model import AnalysisError, own_nodes, own_nodes_ordered, is_name, is_self_attr, norm, parents, local_names
from .cfg import ExcMatcher

MUTATORS = ('append', 'add', 'update', 'extend', 'insert', 'setdefault', 'pop', 'remove', 'discard', 'clear', 'popitem', 'appendleft')


# ---------------------------------------------------------------------------------------------
# cached binding state


def binding_predicates(em):
    """functions whose boolean result depends on the binding cell: they read ``_is_bound`` (or call such a
    function) and return truth values only"""
    funcs = [f for f in em.repo.all_functions(('engine',)) if not f.is_generator]

    def boolish(e, fam):
        if isinstance(e, ast.Constant):
            return isinstance(e.value, bool)
        if isinstance(e, (ast.Compare,)):
            return True
        if isinstance(e, ast.BoolOp):
            return all(boolish(v, fam) for v in e.values)
        if isinstance(e, ast.UnaryOp) and isinstance(e.op, ast.Not):
            return True
        if isinstance(e, ast.Attribute):
            return True
        if isinstance(e, ast.Call) and isinstance(e.func, ast.Name) and e.func.id in ('all', 'any', 'bool', 'isinstance'):
            return True
        if isinstance(e, ast.Call):
            cs = em.cg.resolve_callable(None, e.func) if False else []
            if isinstance(e.func, ast.Name):
                r = em.repo.module_binding(em.engine, e.func.id)
                if r and r[0] == 'func' and r[1] in fam:
                    return True
            if isinstance(e.func, ast.Attribute):
                return any(g.name == e.func.attr for g in fam)
        return False
    fam_fields = set()
    fam = set()
    changed = True
    while changed:
        changed = False
        for f in funcs:
            if f in fam or f.name in ('__init__', '__str__', '__repr__'):
                continue
            rets = [x for x in own_nodes(f.node) if isinstance(x, ast.Return) and x.value is not None]
            if not rets or not all(boolish(r.value, fam | {f}) for r in rets):
                continue
            if not any(isinstance(r.value, (ast.Compare, ast.BoolOp, ast.UnaryOp)) or (isinstance(r.value, ast.Constant) and isinstance(r.value.value, bool)) or
                       (isinstance(r.value, ast.Call) and isinstance(r.value.func, ast.Name) and r.value.func.id in ('all', 'any', 'bool', 'isinstance'))
                       for r in rets):
                continue            # only attribute reads / delegations: not evidently a truth value
            reads = any(isinstance(x, ast.Attribute) and x.attr == em.cell().state_field and isinstance(x.ctx, ast.Load) for x in own_nodes(f.node))
            calls = any(isinstance(x, ast.Call) and ((isinstance(x.func, ast.Name) and any(g.name == x.func.id and g.cls is None for g in fam)) or
                                                   (isinstance(x.func, ast.Attribute) and any(g.name == x.func.attr and g.cls is not None for g in fam)))
                        for x in own_nodes(f.node))
            if reads or calls:
                fam.add(f)
                changed = True
    return fam


def rule_no_cached_binding_state(em, rep, rid):
    rep.rule(rid, 'whether a variable is bound is read from its cell at the time it matters: no expression that reads '
                  '_is_bound, or calls a predicate computed from it (e.g. a groundness test), is stored in a field of an '
                  'object - a binding made or undone later would leave the stored answer behind')
    fam = binding_predicates(em)
    names = {f.name for f in fam}
    n = 0
    for f in em.repo.all_functions(('engine',)):
        for s in own_nodes_ordered(f.node):
            if not isinstance(s, (ast.Assign, ast.AugAssign, ast.AnnAssign)):
                continue
            tg = s.targets if isinstance(s, ast.Assign) else [s.target]
            flds = [t for t in tg if isinstance(t, ast.Attribute) and t.attr not in em.cell().fields]
            if not flds or s.value is None:
                continue
            n += 1
            bad = None
            for x in ast.walk(s.value):
                if isinstance(x, ast.Attribute) and x.attr == em.cell().state_field and isinstance(x.ctx, ast.Load):
                    bad = x
                if isinstance(x, ast.Call) and ((isinstance(x.func, ast.Name) and x.func.id in names) or
                                                (isinstance(x.func, ast.Attribute) and x.func.attr in names and x.func.attr not in ('get_value',))):
                    bad = x
            key = '%s:%s' % (f.qname, norm(flds[0]))
            if bad is not None:
                rep.violation(rid, key, 'the field %s caches %s, which depends on the bindings at the time of the assignment: when such a '
                              'binding is undone (backtracking) or made later, the object still carries the old answer' % (norm(flds[0]), norm(bad)[:60]),
                              f.loc(s))
    rep.ok(rid, 'field stores', '%d field assignments in the engine examined, %d binding-dependent predicate(s): %s' % (
        n, len(fam), ', '.join(sorted(names)) or '-'), None, nontrivial=bool(n))
    rep.minimum('field assignments in the engine', n, 5)


def rule_no_dereferenced_value_cached(em, rep, rid):
    rep.rule(rid, 'a dereferenced value is not kept on an object for later: outside constructors no field other than the binding '
                  'cell itself is assigned something obtained - directly, through locals, or through a helper that returns such '
                  'a value - by get_value(..) or by reading the cell; what a bound variable stands for changes when an inner '
                  'variable is re-bound, so a value kept from an earlier moment is stale')
    from .eng import is_deref_call
    funcs = list(em.repo.all_functions(('engine',)))

    def reads_cell(e):
        return any((isinstance(x, ast.Attribute) and x.attr in em.cell().fields and isinstance(x.ctx, ast.Load)) or is_deref_call(x) for x in ast.walk(e))
    # helpers whose result is (built from) a dereferenced value
    deref_like = set()
    changed = True
    while changed:
        changed = False
        for g in funcs:
            if g in deref_like or g.is_generator or g.name in ('__init__', '__str__', '__repr__', 'to_python'):
                continue
            rets = [x.value for x in own_nodes(g.node) if isinstance(x, ast.Return) and x.value is not None]
            if any(derived(g, v, deref_like, reads_cell) for v in rets):
                deref_like.add(g)
                changed = True
    n = 0
    for f in funcs:
        if f.name == '__init__':
            continue
        for s_ in own_nodes_ordered(f.node):
            if not isinstance(s_, (ast.Assign, ast.AugAssign, ast.AnnAssign)) or s_.value is None:
                continue
            tg = s_.targets if isinstance(s_, ast.Assign) else [s_.target]
            flds = [t for t in tg if isinstance(t, ast.Attribute) and t.attr not in em.cell().fields]
            if not flds:
                continue
            n += 1
            if derived(f, s_.value, deref_like, reads_cell):
                rep.violation(rid, '%s:%s' % (f.qname, norm(flds[0])), 'the field %s keeps a dereferenced value (%s) beyond the moment it '
                              'was computed: bindings made or undone afterwards - of the variable itself or of variables inside '
                              'the value - leave it stale, and whoever reads it later (assert, a copy) sees an earlier state'
                              % (norm(flds[0]), norm(s_.value)[:50]), f.loc(s_))
    rep.ok(rid, 'field stores', '%d field assignments outside constructors examined; helpers returning dereferenced values: %s' % (
        n, ', '.join(sorted(g.qname for g in deref_like)) or '-'), None, nontrivial=bool(n))
    rep.minimum('field assignments outside constructors', n, 3)


def derived(f, e, deref_like, reads_cell, depth=0, seen=None):
    """is the value of expression e (in function f) obtained from a dereference: directly, via local copies, via a
    helper in deref_like"""
    seen = seen if seen is not None else set()
    if depth > 5:
        return False
    if reads_cell(e):
        return True
    for x in ast.walk(e):
        if isinstance(x, ast.Call):
            name = x.func.id if isinstance(x.func, ast.Name) else x.func.attr if isinstance(x.func, ast.Attribute) else None
            if name and any(g.name == name for g in deref_like):
                return True
        if isinstance(x, ast.Name) and isinstance(x.ctx, ast.Load) and x.id not in seen and x.id not in f.all_params:
            seen.add(x.id)
            for s_ in own_nodes(f.node):
                if isinstance(s_, ast.Assign) and any(is_name(t, x.id) for t in s_.targets):
                    if derived(f, s_.value, deref_like, reads_cell, depth + 1, seen):
                        return True
    return False


# ---------------------------------------------------------------------------------------------
# state created at class-definition time


def _allocates_container(e):
    if isinstance(e, (ast.List, ast.Dict, ast.Set, ast.ListComp, ast.DictComp, ast.SetComp)):
        return True
    if isinstance(e, ast.Call):
        t = norm(e.func).split('.')[-1]
        return t in ('list', 'dict', 'set', 'defaultdict', 'OrderedDict', 'deque', 'WeakSet', 'WeakValueDictionary', 'WeakKeyDictionary',
                     'Counter', 'bytearray', 'count', 'Lock', 'RLock', 'local')
    return False


def rule_no_definition_time_state(em, rep, rid, modules=('engine',)):
    rep.rule(rid, 'a function that runs when a class body is evaluated (a decorator applied to a method, a helper called in a '
                  'class body or at module level) creates no mutable container that code running later can change: such an '
                  'object exists once per process and is shared by every engine instance')
    n = 0
    for mn in modules:
        mod = em.repo.module(mn)
        # functions evaluated at definition time: decorators of functions/methods/classes, calls in class bodies
        used = {}
        for node in ast.walk(mod.tree):
            if isinstance(node, (ast.FunctionDef, ast.ClassDef)):
                for d in node.decorator_list:
                    fn = d.func if isinstance(d, ast.Call) else d
                    if isinstance(fn, ast.Name) and fn.id in mod.functions:
                        used.setdefault(mod.functions[fn.id], []).append(node)
        for g, sites in used.items():
            n += 1
            key = '%s:closure' % g.qname
            bad = None
            for s in own_nodes_ordered(g.node):
                if isinstance(s, ast.Assign) and _allocates_container(s.value) and all(isinstance(t, ast.Name) for t in s.targets):
                    name = s.targets[0].id
                    # mutated or handed out by a nested function (which runs per call)?
                    for nf in g.nested.values():
                        for x in ast.walk(nf.node):
                            if isinstance(x, ast.Call) and isinstance(x.func, ast.Attribute) and is_name(x.func.value, name) and x.func.attr in MUTATORS:
                                bad = (s, x, nf)
                            if isinstance(x, ast.Subscript) and is_name(x.value, name) and isinstance(x.ctx, (ast.Store, ast.Del)):
                                bad = (s, x, nf)
                            if isinstance(x, ast.AugAssign) and is_name(x.target, name):
                                bad = (s, x, nf)
            if bad is not None:
                s, x, nf = bad
                rep.violation(rid, key, 'the decorator %s creates %s = %s once, when %s is defined, and %s changes it on every call (%s): '
                              'one object for the whole process, shared by all engine instances' % (
                                  g.name, s.targets[0].id, norm(s.value)[:30], ', '.join(sorted({getattr(x_, 'name', '?') for x_ in sites})),
                                  nf.name, norm(x)[:50]), g.loc(s))
            else:
                rep.ok(rid, key, 'no run-time mutated container in the closure', g.loc())
    rep.ok(rid, 'decorators', '%d repository function(s) used as decorators examined' % n, None, nontrivial=False)


# ---------------------------------------------------------------------------------------------
# tables derived from eval_context


def _ctx_reads(f):
    out = []
    for x in own_nodes(f.node):
        if isinstance(x, ast.Subscript) and is_self_attr(x.value, 'eval_context') and isinstance(x.ctx, ast.Load):
            out.append(x)
        if isinstance(x, ast.Call) and isinstance(x.func, ast.Attribute) and x.func.attr == 'get' and is_self_attr(x.func.value, 'eval_context'):
            out.append(x)
    return out


def derived_tables(em):
    """fields of the engine that are filled with values read from eval_context: {field: (function, store node)}"""
    out = {}
    for f in em.YP.methods.values():
        reads = _ctx_reads(f)
        if not reads:
            continue
        # locals carrying a value read from the context
        carriers = set()
        for s in own_nodes_ordered(f.node):
            if isinstance(s, ast.Assign) and any(r is x for r in reads for x in ast.walk(s.value)):
                carriers |= {t.id for t in s.targets if isinstance(t, ast.Name)}
        for s in own_nodes_ordered(f.node):
            val = tgt = None
            if isinstance(s, ast.Assign) and len(s.targets) == 1 and isinstance(s.targets[0], ast.Subscript) and is_self_attr(s.targets[0].value):
                tgt, val = s.targets[0].value.attr, s.value
            elif isinstance(s, ast.Expr) and isinstance(s.value, ast.Call) and isinstance(s.value.func, ast.Attribute) and \
                    s.value.func.attr in ('setdefault', 'append') and s.value.args:
                recv = s.value.func.value
                if is_self_attr(recv):
                    tgt, val = recv.attr, s.value.args[-1]
            elif isinstance(s, ast.Assign) and isinstance(s.value, ast.Call) and isinstance(s.value.func, ast.Attribute) and \
                    s.value.func.attr == 'setdefault' and is_self_attr(s.value.func.value) and s.value.args:
                tgt, val = s.value.func.value.attr, s.value.args[-1]
            if tgt is None or tgt == 'eval_context' or val is None:
                continue
            if any(r is x for r in reads for x in ast.walk(val)) or any(is_name(x) and x.id in carriers for x in ast.walk(val)):
                out.setdefault(tgt, (f, s))
    return out


def _path_statements(node):
    """the statements executed on the paths through ``node``: its own statement and, for every enclosing block, the
    statements before and after it - but not the other branches of the compound statements it sits in"""
    out = []
    cur = node
    while cur is not None and not isinstance(cur, ast.stmt):
        cur = getattr(cur, '_parent', None)
    if cur is None:
        return out
    out.append(cur)
    for p in parents(cur):
        for fld in ('body', 'orelse', 'finalbody'):
            blk = getattr(p, fld, None)
            if isinstance(blk, list) and any(cur is b for b in blk):
                out.extend(b for b in blk if b is not cur)
        if isinstance(p, ast.ExceptHandler):
            pass
        cur = p
        if isinstance(p, (ast.FunctionDef, ast.Lambda)):
            break
    return out


def _updates(stmts, table):
    """how a statement list touches self.<table>: 'reset' (clear / re-bound), 'entry' (pop/del/assign of one key), None"""
    best = None
    for b in stmts:
        for x in ast.walk(b):
            if isinstance(x, ast.Call) and isinstance(x.func, ast.Attribute) and is_self_attr(x.func.value, table):
                if x.func.attr == 'clear':
                    return 'reset'
                if x.func.attr in ('pop', 'setdefault', 'update', '__delitem__', '__setitem__'):
                    best = best or 'entry'
            if isinstance(x, ast.Assign) and any(is_self_attr(t, table) for t in x.targets):
                return 'reset'
            if isinstance(x, (ast.Subscript,)) and is_self_attr(x.value, table) and isinstance(x.ctx, (ast.Store, ast.Del)):
                best = best or 'entry'
            if isinstance(x, ast.Call) and isinstance(x.func, ast.Attribute) and x.func.attr in ('append', 'extend') and \
                    isinstance(x.func.value, ast.Name):
                # a list taken out of the table and extended in place
                for d in stmts:
                    for y in ast.walk(d):
                        if isinstance(y, ast.Assign) and any(is_name(t, x.func.value.id) for t in y.targets) and \
                                any(is_self_attr(z, table) for z in ast.walk(y.value)):
                            best = best or 'entry'
    return best


def rule_derived_tables_follow(em, rep, rid):
    from .rules_query import key_templates, key_shape
    rep.rule(rid, 'a field of the engine that is filled with values read from eval_context (a memo of what a name resolves to, '
                  'a list of combined definitions) is brought up to date on every path that writes eval_context: the entry '
                  'is dropped or rewritten next to an exact-key write, the whole table next to a variadic (name_n) write, and '
                  'clear() resets it - otherwise a later registration or load is not seen by the readers of the table')
    tables = derived_tables(em)
    if not tables:
        rep.ok(rid, 'derived tables', 'no field is filled from eval_context: query() consults the table itself every time', None, nontrivial=False)
        return
    # every write site of eval_context, with the statement list it stands in
    for table, (df, ds) in sorted(tables.items()):
        # a reader that validates what it finds against the context is not a memo
        for f in em.YP.methods.values():
            for s in own_nodes_ordered(f.node):
                sites = []
                if isinstance(s, ast.Assign):
                    for t in s.targets:
                        if isinstance(t, ast.Subscript) and is_self_attr(t.value, 'eval_context'):
                            sites.append((t, t.slice))
                if isinstance(s, ast.Expr) and isinstance(s.value, ast.Call) and isinstance(s.value.func, ast.Attribute) and \
                        is_self_attr(s.value.func.value, 'eval_context') and s.value.func.attr in ('update', 'pop', 'setdefault', 'clear'):
                    sites.append((s.value, s.value.args[0] if s.value.args else None))
                if isinstance(s, ast.Assign) and any(is_self_attr(t, 'eval_context') for t in s.targets) and f.name != '__init__':
                    sites.append((s, None))
                for node, keyexpr in sites:
                    # the statements on the same path: enclosing blocks up to the function, each from its start to its end
                    path_stmts = _path_statements(s)
                    how = _updates(path_stmts, table)
                    if how is None:
                        # a helper: every caller inside the class may do the update around the call
                        callers = [(g, c) for g, c in em.cg.call_sites_of(f) if g.cls is em.YP and is_self_attr(c.func)]
                        if callers:
                            hows = []
                            for g, c in callers:
                                hows.append(_updates(_path_statements(c), table))
                            if all(h is not None for h in hows):
                                how = 'reset' if all(h == 'reset' for h in hows) else 'entry'
                    shapes = set()
                    if keyexpr is not None:
                        for t in key_templates(f, keyexpr):
                            shapes.add(key_shape(t))
                    variadic = 'variadic' in shapes
                    key = '%s:%s / %s' % (f.qname, norm(node)[:50], table)
                    if f is df and s is ds:
                        continue
                    if how is None:
                        rep.violation(rid, key, '%s writes eval_context here without touching self.%s, which %s fills from eval_context: '
                                      'readers of self.%s keep seeing what the name resolved to before' % (f.name, table, df.name, table), f.loc(s))
                    elif variadic and how != 'reset':
                        rep.violation(rid, key, 'a variadic definition (name_n) is written here and only one entry of self.%s is dropped: a '
                                      'variadic function answers every arity of the name, so entries remembered for other arities are stale' % table, f.loc(s))
                    else:
                        rep.ok(rid, key, 'self.%s is %s on the same path' % (table, 'reset' if how == 'reset' else 'updated'), f.loc(s))
        clear = em.YP.methods.get('clear')
        if clear is not None:
            how = _updates(clear.node.body, table)
            callees = [c for n, cs in em.cg.calls.get(clear, ()) for c in cs if c.cls is em.YP]
            if how != 'reset' and not any(_updates(c.node.body, table) == 'reset' for c in callees):
                rep.violation(rid, 'engine.YP.clear / %s' % table, 'clear() does not reset self.%s' % table, clear.loc())


# ---------------------------------------------------------------------------------------------
# lookups


def rule_lookup_confined(em, rep, rid):
    rep.rule(rid, 'what query() calls for a goal is a value looked up in eval_context: on the query path nothing resolves a '
                  'name that comes from the goal through getattr/__dict__/globals()/vars()/eval (which would make every public '
                  'method of the engine, or every name of the module, callable as a predicate)')
    q = em.repo.lookup_method(em.YP, 'query')
    if q is None:
        raise AnalysisError('anchor vanished: YP.query')
    reach = [f for f in em.cg.reachable([q], with_refs=False, include_nested=True) if f.module.name == 'engine' and (f.cls is em.YP or f.cls is None)]
    n = 0
    for f in reach:
        if f.is_generator and f is not q:
            continue
        for x in own_nodes_ordered(f.node):
            bad = None
            if isinstance(x, ast.Call) and is_name(x.func, 'getattr') and len(x.args) >= 2 and not isinstance(x.args[1], ast.Constant):
                bad = 'getattr(%s, %s)' % (norm(x.args[0]), norm(x.args[1]))
            elif isinstance(x, ast.Call) and isinstance(x.func, ast.Name) and x.func.id in ('globals', 'vars', 'eval', 'locals', '__import__'):
                bad = norm(x)
            elif isinstance(x, ast.Attribute) and x.attr == '__dict__':
                bad = norm(x)
            if bad is not None:
                n += 1
                rep.violation(rid, '%s:%s' % (f.qname, bad[:50]), 'a goal name is resolved with %s on the way from query() to the function it '
                              'calls: names outside eval_context (the engine\'s own methods and attributes) become callable as predicates' % bad[:60], f.loc(x))
    if not n:
        rep.ok(rid, q.qname, '%d function(s) on the lookup path: definitions come out of eval_context only' % len(reach), q.loc())


def rule_lookups_agree(em, rep, rid):
    from .rules_query import key_templates, key_shape, _is_ctx
    rep.rule(rid, 'sibling agreement: every function of the engine that consults eval_context for the exact key name_<arity> of a '
                  'predicate (lookup or membership test) also consults the variadic key name_n, as query() does - otherwise a '
                  'predicate registered for any number of arguments exists for query() and not for that function')
    n = 0
    for f0 in em.YP.methods.values():
        f = em.view(f0)          # helpers that build the key or do the lookup are pasted in
        exact, var = [], []
        for x in own_nodes_ordered(f.node):
            keyexpr = None
            if isinstance(x, ast.Subscript) and _is_ctx(f, x.value) and isinstance(x.ctx, ast.Load):
                keyexpr = x.slice
            elif isinstance(x, ast.Call) and isinstance(x.func, ast.Attribute) and x.func.attr == 'get' and _is_ctx(f, x.func.value) and x.args:
                keyexpr = x.args[0]
            elif isinstance(x, ast.Compare) and len(x.ops) == 1 and isinstance(x.ops[0], (ast.In, ast.NotIn)) and _is_ctx(f, x.comparators[0]):
                keyexpr = x.left
            if keyexpr is None or isinstance(keyexpr, ast.Constant):
                continue
            shapes = {key_shape(t) for t in key_templates(f, keyexpr)}
            if 'exact' in shapes:
                exact.append(x)
            if 'variadic' in shapes:
                var.append(x)
        if exact:
            n += 1
            key = '%s:%s' % (f.qname, norm(exact[0])[:60])
            if var:
                rep.ok(rid, key, 'exact and variadic key are both consulted', f.loc(exact[0]))
            else:
                rep.violation(rid, key, '%s looks for name_<arity> in eval_context and never for name_n: a predicate registered with a '
                              'variable number of arguments is answered by query() but unknown here' % f.name, f.loc(exact[0]))
    rep.minimum('functions consulting the exact predicate key', n, 1)


# ---------------------------------------------------------------------------------------------
# stored facts are immutable


def rule_facts_immutable(em, rep, rid):
    rep.rule(rid, 'a stored fact is never modified after its constructor: the lists handed to running enumerations share the '
                  'fact objects with the store, so a field written later (a mark, a counter) is seen through every snapshot')
    ans = em.repo.cls('engine', 'Answer')
    init = ans.methods.get('__init__')
    fields = set()
    for x in own_nodes(init.node) if init else []:
        if isinstance(x, ast.Attribute) and is_name(x.value, 'self') and isinstance(x.ctx, ast.Store):
            fields.add(x.attr)
    rep.minimum('fields of a stored fact', len(fields), 1)
    # locals that hold facts: loop variables over the store lists / clause lists, results of Answer(...)
    n = 0
    for f in em.repo.all_functions(('engine',)):
        if f.cls is ans and f.name == '__init__':
            continue
        for x in own_nodes_ordered(f.node):
            if isinstance(x, ast.Attribute) and isinstance(x.ctx, (ast.Store, ast.Del)) and x.attr in fields:
                recv = x.value
                owner_is_fact = (f.cls is ans and is_name(recv, 'self'))
                if not owner_is_fact and isinstance(recv, ast.Name):
                    # a name that iterates over clause lists or is constructed from Answer
                    for s in own_nodes(f.node):
                        if isinstance(s, (ast.For, ast.comprehension)) and is_name(s.target, recv.id):
                            owner_is_fact = True
                        if isinstance(s, ast.Assign) and any(is_name(t, recv.id) for t in s.targets) and isinstance(s.value, ast.Call) and \
                                is_name(s.value.func, ans.name):
                            owner_is_fact = True
                    # same field name on another class of the engine (e.g. Variable._value) is not a fact
                    other = [c for c in em.repo.all_classes(('engine',)) if c is not ans and any(
                        isinstance(y, ast.Attribute) and y.attr == x.attr and is_name(y.value, 'self') and isinstance(y.ctx, ast.Store)
                        for m in c.methods.values() for y in own_nodes(m.node))]
                    if other and not owner_is_fact:
                        continue
                    if not other:
                        owner_is_fact = True
                if owner_is_fact:
                    n += 1
                    rep.violation(rid, '%s:%s' % (f.qname, norm(x)), 'the field %s of a stored fact is written after the fact was created: '
                                  'enumerations that started earlier hold the same object in their snapshot and see the change (a removal '
                                  'or update becomes visible to a suspended goal)' % x.attr, f.loc(x))
    if not n:
        rep.ok(rid, ans.qname, 'fields %s are written in the constructor only' % sorted(fields), ans.loc())


# ---------------------------------------------------------------------------------------------
# the depth error reaches evaluate_bounded


def rule_depth_error_propagates(em, rep, rid):
    rep.rule(rid, 'between a goal and evaluate_bounded no handler of the engine catches RecursionError (directly or as '
                  'RuntimeError/Exception/BaseException/bare except) without re-raising it: otherwise a search that is too deep is '
                  'taken for a goal that failed, and the result is no longer a prefix of the answers')
    eb = em.repo.lookup_method(em.YP, 'evaluate_bounded')
    roots = [f for f in [em.repo.lookup_method(em.YP, 'query'), em.engine.functions.get('unify'), em.engine.functions.get('get_value')] if f is not None]
    roots += [b['func'] for b in em.builtins() if b['func'] is not None]
    reach = [f for f in em.cg.reachable(roots, with_refs=True, include_nested=True) if f.module.name == 'engine' and f is not eb]
    # wrappers that are put into the context and called through it (a decorator's inner function) are not in the call graph:
    # every generator of the engine module, and every function nested in one that is reachable, counts
    for f in em.repo.all_functions(('engine',)):
        if f is not eb and f not in reach and (f.is_generator or f.parent is not None) and not (eb is not None and f.parent is eb):
            reach.append(f)
    n = 0
    for f in reach:
        mt = ExcMatcher(em.repo, f)
        for h in [x for x in own_nodes_ordered(f.node) if isinstance(x, ast.ExceptHandler)]:
            if mt.match('RecursionError', h) == 'no':
                continue
            n += 1
            key = '%s:except %s' % (f.qname, norm(h.type) if h.type else '')
            reraises = bool(h.body) and isinstance(h.body[-1], ast.Raise) and h.body[-1].exc is None
            if reraises:
                rep.ok(rid, key, 'cleans up and re-raises', f.loc(h))
            else:
                rep.violation(rid, key, 'this handler also catches RecursionError: when the depth limit of evaluate_bounded strikes below '
                              'it, the overflow is treated as an ordinary outcome (e.g. "does not unify") and the search goes on instead '
                              'of being cut off', f.loc(h))
    rep.ok(rid, 'query machinery', '%d function(s) reachable from a goal examined, %d handler(s) that could catch the depth error' % (len(reach), n),
           None, nontrivial=False)


# ---------------------------------------------------------------------------------------------
# compiler stages are made per compilation


def rule_stages_per_call(cm, em, rep, rid):
    from .rules_front import pipeline_function
    rep.rule(rid, 'every visitor, compiler and emitter object is constructed inside the compile pipeline function (or a function '
                  'that only the pipeline calls): none is made once per run by the command line, per import, or handed in from '
                  'outside - their counters (anonymous variables, block labels) would carry over from one source to the next and '
                  'the command line would no longer write what the library returns for the same text')
    views = pipeline_function(em)
    pipe = views[0].origin
    comp = em.repo.module('compiler')
    percall = {pipe} | set(views[0].inlined)
    changed = True
    funcs = [f for f in comp.all_funcs]
    while changed:
        changed = False
        for f in funcs:
            if f in percall:
                continue
            sites = em.cg.call_sites_of(f)
            if sites and all(g in percall for g, _ in sites):
                percall.add(f)
                changed = True
    n = 0
    for f in funcs:
        for x in own_nodes_ordered(f.node):
            if not (isinstance(x, ast.Call) and isinstance(x.func, ast.Name)):
                continue
            r = em.repo.resolve_name(f, x.func.id)
            if not (r and r[0] == 'class' and r[1].module.name in ('yp_generator', 'yp_prolog_visitor')):
                continue
            if not any(isinstance(y, ast.AugAssign) and is_self_attr(y.target) for m in r[1].methods.values() for y in own_nodes(m.node)) and \
                    r[1].name not in ('YPPrologVisitor', 'YPPrologCompiler', 'YPPythonCodeGenerator'):
                continue
            n += 1
            key = '%s:%s' % (f.qname, norm(x)[:50])
            if f in percall:
                rep.ok(rid, key, 'constructed per compilation', f.loc(x))
            else:
                outside = [g.qname for g, _ in em.cg.call_sites_of(f) if g not in percall]
                rep.violation(rid, key, 'a %s is constructed in %s, which also runs outside the pipeline call (%s): the object and its '
                              'counters can serve several compilations, so what is written for a source depends on the sources before it' % (
                                  r[1].name, f.name, ', '.join(outside[:3]) or 'module level / entry point'), f.loc(x))
    rep.minimum('constructions of stateful compiler stages', n, 3)


# ---------------------------------------------------------------------------------------------
# fields that shadow the fact store


def rule_store_shadows_follow(em, rep, rid):
    from .rules_db import StoreModel
    rep.rule(rid, 'a field of the engine into which fact objects are put or from which they are taken next to a change of the fact '
                  'store (a set of live facts, an index, a counter per predicate) is updated by every function that changes the '
                  'store - sibling agreement of assert, retract, retractall (and clear resets it): otherwise the shadow and the '
                  'store disagree after some history')
    sm = StoreModel(em)
    pubs = [f for f, _ in sm.publishers]
    fact = em.repo.cls('engine', 'Answer')

    def callees_in_class(f):
        return [c for n, cs in em.cg.calls.get(f, ()) for c in cs if c.cls is em.YP and is_self_attr(n.func)]

    def fact_locals(g, extra=()):
        names = set(extra)
        for s in own_nodes(g.node):
            if isinstance(s, ast.Assign) and isinstance(s.value, ast.Call) and is_name(s.value.func, fact.name):
                names |= {t.id for t in s.targets if isinstance(t, ast.Name)}
            if isinstance(s, (ast.For, ast.comprehension)) and isinstance(s.target, ast.Name) and \
                    (sm.is_reader_call(g, s.iter) or (isinstance(s.iter, ast.Name) and s.iter.id in sm.alias_locals(g, {}))):
                names.add(s.target.id)
        return names

    def shadows_touched(g, extra=(), depth=2, seen=None):
        """{field: node} - fields other than the store that g (or a helper it calls with a fact) mutates with a fact object"""
        seen = seen if seen is not None else set()
        if g in seen or depth < 0:
            return {}
        seen.add(g)
        fl = fact_locals(g, extra)
        out = {}
        for x in own_nodes_ordered(g.node):
            if isinstance(x, ast.Call) and isinstance(x.func, ast.Attribute) and is_self_attr(x.func.value) and x.func.value.attr != sm.field and \
                    x.func.attr in MUTATORS and any(is_name(y) and y.id in fl for a in x.args for y in ast.walk(a)):
                out.setdefault(x.func.value.attr, x)
            if isinstance(x, ast.Subscript) and isinstance(x.ctx, (ast.Store, ast.Del)) and is_self_attr(x.value) and x.value.attr != sm.field:
                par = getattr(x, '_parent', None)
                val = par.value if isinstance(par, ast.Assign) else None
                if any(is_name(y) and y.id in fl for e in [x.slice, val] if e is not None for y in ast.walk(e)):
                    out.setdefault(x.value.attr, x)
        for n, cs in em.cg.calls.get(g, ()):
            for c in cs:
                if c.cls is em.YP and is_self_attr(n.func) and c not in pubs:
                    passed = [p for p, a in zip(c.params[1:], n.args) if any(is_name(y) and y.id in fl for y in ast.walk(a))]
                    for k, v in shadows_touched(c, passed, depth - 1, seen).items():
                        out.setdefault(k, n)
        return out

    def writes_store(g, depth=2, seen=None):
        seen = seen if seen is not None else set()
        if g in seen or depth < 0:
            return False
        seen.add(g)
        if g in pubs or any(c in pubs for c in callees_in_class(g)):
            return True
        return any(writes_store(c, depth - 1, seen) for c in callees_in_class(g) if c not in pubs)
    writers = [g for g in em.YP.methods.values() if g not in pubs and g.name not in ('__init__', 'clear') and writes_store(g, 0)]
    # helpers that publish on behalf of their callers count for the caller
    entry_writers = [g for g in em.YP.methods.values() if g not in pubs and g.name not in ('__init__', 'clear') and writes_store(g)]
    top = [g for g in entry_writers if not any(g in callees_in_class(h) for h in entry_writers if h is not g)]
    touched = {g: shadows_touched(g) for g in top}
    in_publisher = set()
    for p in pubs:
        in_publisher |= set(shadows_touched(p, extra=p.params[1:]))
    shadows = {}
    for g, t in touched.items():
        for k, node in t.items():
            if k not in in_publisher:
                shadows.setdefault(k, (g, node))
    rep.analysed_add('store writers', sorted(g.qname for g in top))
    if not shadows:
        rep.ok(rid, 'fact store', 'no field shadows the fact store (%d functions change the store)' % len(top), None, nontrivial=False)
        return
    for k, (g0, node0) in sorted(shadows.items()):
        for g in top:
            key = '%s / %s' % (g.qname, k)
            if k in touched[g]:
                rep.ok(rid, key, 'keeps self.%s in step with the store' % k, g.loc(touched[g][k]))
            else:
                rep.violation(rid, key, '%s changes the facts of the store without updating self.%s, which %s keeps in step with the store '
                              '(%s): after %s the two disagree about which facts exist' % (g.name, k, g0.name, norm(node0)[:50], g.name), g.loc())
        clear = em.YP.methods.get('clear')
        if clear is not None:
            resets = any(isinstance(x, ast.Assign) and any(is_self_attr(t, k) for t in x.targets) for x in own_nodes(clear.node)) or \
                any(isinstance(x, ast.Call) and isinstance(x.func, ast.Attribute) and is_self_attr(x.func.value, k) and x.func.attr == 'clear'
                    for x in own_nodes(clear.node))
            if not resets:
                rep.violation(rid, 'engine.YP.clear / %s' % k, 'clear() empties the store but not self.%s' % k, clear.loc())


# ---------------------------------------------------------------------------------------------
# a load takes over every definition of the script


def engine_fields_after_init(em):
    """{field: evaluator value} of a new engine: YP.__init__ evaluated by the checker, with each register_function call
    replaced by the context entry the builtin table says it makes; {} when the constructor cannot be evaluated"""
    cached = getattr(em, '_fields_after_init', None)
    if cached is not None:
        return cached
    from .symex import SymEx, PathState, Const, DictV, Sym
    from .rules_query import context_literal_keys
    out = {}
    try:
        context_literal_keys(em)
        reg = em.repo.lookup_method(em.YP, 'register_function')
        init = em.repo.lookup_method(em.YP, '__init__')
        by_node = {id(b['node']): b for b in em.builtins()}
        ctx_field = 'eval_context'

        class SX(SymEx):
            def apply(self, e, f, args, kw, st, func):
                if isinstance(f, tuple) and f[0] == 'bound' and f[1] is reg:
                    b = by_node.get(id(e))
                    d = st.fields.get(ctx_field)
                    if b is None or not isinstance(d, DictV):
                        raise AnalysisError('registration outside the builtin table')
                    d.pairs.append([Const(b['key']), args[1] if len(args) > 1 else kw.get('func', Sym('func'))])
                    return [(st, Const(None))]
                return SymEx.apply(self, e, f, args, kw, st, func)
        sx = SX(em.repo, inline=lambda g: g.module.name == 'engine' and g.cls is em.YP, max_depth=4)
        sx.max_steps = 100000
        outs = sx.run(init, [Sym(p) for p in init.params[1:]], PathState())
        if len(outs) == 1:
            out = dict(outs[0][0].fields)
    except (AnalysisError, RecursionError):
        out = {}
    em._fields_after_init = out
    return out


def rule_fact_objects_one_per_assert(em, rep, rid):
    rep.rule(rid, 'every stored fact is an object of its own, made by the assert that stores it: the fact class is instantiated '
                  'only inside functions (no instance made at import time or in a class body), and no instance is kept in a field, '
                  'class attribute, global or cache for reuse - removal is by identity, so one object standing for several facts '
                  'makes one retract remove them all')
    ans = em.repo.cls('engine', 'Answer')
    mod = em.engine
    n = 0

    def is_ctor(x):
        return isinstance(x, ast.Call) and ((is_name(x.func, ans.name)) or
                                            (isinstance(x.func, ast.Name) and x.func.id == 'cls'))
    # import time / class body
    for st in ast.walk(mod.tree):
        if isinstance(st, (ast.FunctionDef, ast.AsyncFunctionDef, ast.Lambda)):
            continue
    top = [st for st in mod.tree.body if not isinstance(st, (ast.FunctionDef, ast.ClassDef))]
    for c in mod.tree.body:
        if isinstance(c, ast.ClassDef):
            top += [st for st in c.body if not isinstance(st, (ast.FunctionDef, ast.ClassDef))]
    for st in top:
        for x in ast.walk(st):
            if isinstance(x, ast.Call) and is_name(x.func, ans.name):
                n += 1
                rep.violation(rid, 'module:%s' % norm(st)[:50], 'a fact object is created when the module is imported (%s): whatever hands it '
                              'out stores the same object several times' % norm(st)[:50], mod.loc(st))
    for f in em.repo.all_functions(('engine',)):
        for s_ in own_nodes_ordered(f.node):
            if isinstance(s_, ast.Assign) and isinstance(s_.value, ast.Call) and is_name(s_.value.func, ans.name):
                n += 1
                kept = [t for t in s_.targets if isinstance(t, (ast.Attribute, ast.Subscript))]
                key = '%s:%s' % (f.qname, norm(s_)[:50])
                if kept:
                    rep.violation(rid, key, 'a fact object is kept in %s for later use instead of being made for the one fact that is '
                                  'stored' % norm(kept[0]), f.loc(s_))
                else:
                    rep.ok(rid, key, 'made where it is stored', f.loc(s_))
            elif isinstance(s_, ast.Expr) and isinstance(s_.value, ast.Call) and any(
                    isinstance(a_, ast.Call) and is_name(a_.func, ans.name) for a_ in s_.value.args):
                n += 1
                rep.ok(rid, '%s:%s' % (f.qname, norm(s_)[:50]), 'made where it is handed to the store', f.loc(s_))
            elif isinstance(s_, ast.Return) and s_.value is not None:
                for x in ast.walk(s_.value):
                    if isinstance(x, ast.Attribute) and isinstance(x.value, ast.Name) and x.value.id in ('cls', ans.name) and x.attr.isupper():
                        n += 1
                        rep.violation(rid, '%s:%s' % (f.qname, norm(s_)[:50]), 'a shared fact object (%s) is handed out in place of a new one' % norm(x), f.loc(s_))
    rep.minimum('places where fact objects are made', n, 1)


def rule_clear_restores_context(em, rep, rid):
    rep.rule(rid, 'clear() leaves the evaluation context as the constructor made it: the constructor and then clear() are '
                  'evaluated by the checker (registrations taken from the builtin table) and the two contexts are compared key '
                  'by key - in particular __builtins__ is still an empty mapping, so that the next load cannot reach Python\'s '
                  'builtins, and nothing that was loaded or registered is left')
    from .symex import SymEx, PathState, Const, DictV, Sym
    init = em.repo.lookup_method(em.YP, '__init__')
    clear = em.repo.lookup_method(em.YP, 'clear')
    reg = em.repo.lookup_method(em.YP, 'register_function')
    if init is None or clear is None:
        raise AnalysisError('anchor vanished: YP.__init__/clear')
    by_node = {id(b['node']): b for b in em.builtins()}

    class SX(SymEx):
        def apply(self, e, f, args, kw, st, func):
            if isinstance(f, tuple) and f[0] == 'bound' and f[1] is reg:
                b = by_node.get(id(e))
                d = st.fields.get('eval_context')
                if not isinstance(d, DictV):
                    raise AnalysisError('a builtin is registered before the context exists')
                key = Const(b['key']) if b is not None else (args[0] if args else Sym('name'))
                for pr in d.pairs:
                    if repr(pr[0]) == repr(key):
                        pr[1] = args[1] if len(args) > 1 else Sym('func')
                        break
                else:
                    d.pairs.append([key, args[1] if len(args) > 1 else Sym('func')])
                return [(st, Const(None))]
            return SymEx.apply(self, e, f, args, kw, st, func)
    sx = SX(em.repo, inline=lambda g: g.module.name == 'engine' and g.cls in (em.YP, None) and g is not reg, max_depth=5)
    sx.max_steps = 200000
    try:
        o1 = sx.run(init, [Sym(p) for p in init.params[1:]], PathState())
        if len(o1) != 1:
            raise AnalysisError('the constructor does not evaluate to one state (%d)' % len(o1))
        st1 = o1[0][0]
        before = st1.fields.get('eval_context')
        snap = [(repr(k), v) for k, v in before.pairs] if isinstance(before, DictV) else None
        # something loaded in between
        if isinstance(before, DictV):
            before.pairs.append([Const('loaded_1'), Sym('loaded')])
        o2 = sx.run(clear, [], st1)
        if len(o2) != 1:
            raise AnalysisError('clear() does not evaluate to one state (%d)' % len(o2))
        after = o2[0][0].fields.get('eval_context')
    except (AnalysisError, RecursionError) as e:
        rep.note(rid, 'the constructor / clear() cannot be evaluated (%s): the context after clear() is not decided here' % str(e)[:120], clear.loc())
        return
    if snap is None or not isinstance(after, DictV):
        rep.note(rid, 'the evaluation context is not a mapping the checker can follow', clear.loc())
        return
    a = [(repr(k), v) for k, v in after.pairs]
    key = 'engine.YP.clear:context'
    missing = [k for k, _ in snap if k not in [x for x, _ in a]]
    extra = [k for k, _ in a if k not in [x for x, _ in snap]]
    bi = [v for k, v in a if k == repr(Const('__builtins__'))]
    if missing:
        rep.violation(rid, key, 'after clear() the context lacks %s, which a new engine has: %s' % (
            ', '.join(missing[:4]), 'the next load runs with Python\'s real builtins (exec inserts them when the key is absent), so loaded '
            'code can reach __import__, open, eval' if repr(Const('__builtins__')) in missing else 'code that relies on it fails after a clear()'), clear.loc())
    elif extra:
        rep.violation(rid, key, 'after clear() the context still holds %s: what was loaded or registered before is not forgotten' % ', '.join(extra[:4]), clear.loc())
    elif not bi or not (isinstance(bi[0], DictV) and not bi[0].pairs):
        rep.violation(rid, key, 'after clear() __builtins__ is %r, not an empty mapping' % (bi[0] if bi else None), clear.loc())
    elif [k for k, _ in a] != [k for k, _ in snap]:
        rep.violation(rid, key, 'after clear() the context has its entries in another order than a new engine (the reserved-name list and '
                      'the order in which loads see existing definitions differ)', clear.loc())
    else:
        rep.ok(rid, key, '%d entries, the same as after construction; __builtins__ empty' % len(a), clear.loc())


def rule_load_takes_all(em, rep, rid):
    import re as _re
    from . import lexclass as lx
    rep.rule(rid, 'on the way from exec() to eval_context, a name defined by the loaded script is skipped only because its value is '
                  'what the engine already has: no test on the spelling of the name (startswith/endswith/regex/membership in a '
                  'list of names) can leave out a name of the form <identifier>_<arity> - every clause head the compiler '
                  'accepts becomes callable')
    load = em.repo.lookup_method(em.YP, 'load_script_from_string')
    if load is None:
        raise AnalysisError('anchor vanished: YP.load_script_from_string')
    funcs = [g for g in em.cg.reachable([load], with_refs=False, include_nested=True) if g.module.name == 'engine' and
             (g is load or g.cls is None or g.cls is em.YP)]
    keyfmt = lx.dfa(r'[A-Za-z_][A-Za-z0-9_]*_[0-9]+')
    n = 0
    for g in funcs:
        # loop variables that range over the names of a mapping: for k, v in X.items() / for k in X
        for loop in [s for s in own_nodes_ordered(g.node) if isinstance(s, (ast.For, ast.comprehension))]:
            it = loop.iter
            names = set()
            if isinstance(it, ast.Call) and isinstance(it.func, ast.Attribute) and it.func.attr == 'items' and isinstance(loop.target, ast.Tuple) and \
                    loop.target.elts and isinstance(loop.target.elts[0], ast.Name):
                names.add(loop.target.elts[0].id)
            elif isinstance(it, ast.Call) and isinstance(it.func, ast.Attribute) and it.func.attr == 'keys' and isinstance(loop.target, ast.Name):
                names.add(loop.target.id)
            if not names:
                continue
            n += 1
            body = loop.body if isinstance(loop, ast.For) else list(getattr(loop, 'ifs', []))
            for x in [y for b in body for y in ast.walk(b)]:
                rx = None
                if isinstance(x, ast.Call) and isinstance(x.func, ast.Attribute) and isinstance(x.func.value, ast.Name) and x.func.value.id in names and \
                        x.args and isinstance(x.args[0], ast.Constant) and isinstance(x.args[0].value, str):
                    lit = _re.escape(x.args[0].value)
                    if x.func.attr == 'startswith':
                        rx = lit + r'[\s\S]*'
                    elif x.func.attr == 'endswith':
                        rx = r'[\s\S]*' + lit
                if isinstance(x, ast.Compare) and len(x.ops) == 1 and isinstance(x.ops[0], (ast.In, ast.NotIn)) and is_name(x.left) and \
                        x.left.id in names and isinstance(x.comparators[0], (ast.Tuple, ast.List, ast.Set)) and \
                        all(isinstance(e_, ast.Constant) and isinstance(e_.value, str) for e_ in x.comparators[0].elts):
                    rx = lx.words([e_.value for e_ in x.comparators[0].elts])
                if isinstance(x, ast.Compare) and len(x.ops) == 1 and isinstance(x.ops[0], (ast.In, ast.NotIn)) and is_name(x.left) and \
                        x.left.id in names and is_self_attr(x.comparators[0]):
                    # membership in a list the engine keeps: what a new engine has in it (the constructor is evaluated)
                    from .symex import ListV, DictV, Const
                    fv = engine_fields_after_init(em).get(x.comparators[0].attr)
                    items = fv.items if isinstance(fv, ListV) else [k for k, _ in fv.pairs] if isinstance(fv, DictV) else None
                    if items is not None and all(isinstance(i_, Const) and isinstance(i_.v, str) for i_ in items) and items and \
                            x.comparators[0].attr != 'eval_context':
                        rx = lx.words([i_.v for i_ in items])
                if isinstance(x, ast.Call) and norm(x.func) in ('re.match', 're.fullmatch', 're.search') and len(x.args) == 2 and \
                        isinstance(x.args[0], ast.Constant) and is_name(x.args[1]) and x.args[1].id in names:
                    p_ = x.args[0].value
                    rx = p_ if norm(x.func) == 're.fullmatch' else (p_ + r'[\s\S]*' if norm(x.func) == 're.match' else r'[\s\S]*' + p_ + r'[\s\S]*')
                if rx is None:
                    continue
                try:
                    hit = lx.dfa(rx).intersect(keyfmt).witness()
                    miss = lx.dfa(rx).complement().intersect(keyfmt).witness()
                except (ValueError, KeyError, RecursionError):
                    continue
                key = '%s:%s' % (g.qname, norm(x)[:50])
                if hit is not None and miss is not None:
                    rep.violation(rid, key, 'names of loaded definitions are told apart by their spelling here (%s): e.g. %r and %r are both names the '
                                  'compiler can emit, and they are treated differently - a predicate of the program may not become callable' % (
                                      norm(x)[:40], hit, miss), g.loc(x))
                else:
                    rep.ok(rid, key, 'the test does not separate names of the form name_<arity>', g.loc(x))
    rep.ok(rid, load.qname, '%d loop(s) over the names of a context examined in %d function(s)' % (n, len(funcs)), load.loc(), nontrivial=bool(n))
    rep.minimum('loops over the loaded names', n, 1)


# ---------------------------------------------------------------------------------------------
# the text the lexer sees is the text the caller gave


def rule_source_reaches_lexer_unchanged(em, rep, rid):
    from .rules_front import pipeline_function
    rep.rule(rid, 'compile_prolog_from_string hands its source argument to the character stream of the lexer as it is (directly or '
                  'through plain local copies / helper parameters): no replace/splitlines/join/strip/encode on the way, which would '
                  'also rewrite the characters inside quoted atoms')
    comp = em.repo.module('compiler')
    api = comp.functions.get('compile_prolog_from_string')
    if api is None:
        raise AnalysisError('anchor vanished: compiler.compile_prolog_from_string')
    pipe = pipeline_function(em)[0].origin
    v = em.view(api, keep=(pipe,))
    src = api.params[0]
    streams = [x for x in own_nodes_ordered(v.node) if isinstance(x, ast.Call) and norm(x.func).split('.')[-1] == 'InputStream' and x.args]
    if not streams:
        # the stream may be built inside the pipeline function from a parameter
        pv = em.view(pipe)
        streams2 = [x for x in own_nodes_ordered(pv.node) if isinstance(x, ast.Call) and norm(x.func).split('.')[-1] == 'InputStream' and x.args]
        if not streams2:
            raise AnalysisError('no InputStream(...) found between compile_prolog_from_string and the lexer')
        rep.note(rid, 'the character stream is built inside %s; the path of the source text into it is not followed' % pipe.name, pipe.loc())
        return
    for x in streams:
        e = x.args[0]
        hops = 0
        chain = [norm(e)]
        while isinstance(e, ast.Name) and e.id != src and hops < 6:
            defs = [s for s in own_nodes(v.node) if isinstance(s, ast.Assign) and any(is_name(t, e.id) for t in s.targets)]
            if len(defs) != 1:
                break
            e = defs[0].value
            chain.append(norm(e))
            hops += 1
        key = '%s:%s' % (api.qname, norm(x)[:50])
        if isinstance(e, ast.Name) and e.id == src:
            rep.ok(rid, key, 'the lexer reads the caller\'s text (%s)' % ' <- '.join(chain), api.loc(x))
        elif isinstance(e, ast.Call) and is_name(e.func, 'str') and len(e.args) == 1 and is_name(e.args[0], src):
            rep.ok(rid, key, 'the lexer reads str(source)', api.loc(x))
        else:
            rep.violation(rid, key, 'the text given to the lexer is %s, not the source argument itself: whatever that rewrites is also rewritten '
                          'inside quoted atoms, so a literal no longer denotes the atom that was written' % chain[-1][:70], api.loc(x))
    rep.minimum('character streams built from the source argument', len(streams), 1)


# ---------------------------------------------------------------------------------------------
# containers that exist once per process


def rule_no_import_time_container_mutated(cm, rep, rid):
    rep.rule(rid, 'value flow: no list, set or dictionary that is created when a module of the compiler is imported (a module-level '
                  'constant, a default argument) is changed in place by code that runs during a compilation - through whatever '
                  'alias it reaches that code; it would carry what one compilation did into the next')
    fl = cm.flow
    n = 0
    for site, (f, call) in sorted(fl.mutated.items(), key=lambda kv: str(kv[0])):
        if site not in fl.module_sites:
            continue
        if not isinstance(f, type(None)) and not hasattr(f, 'qname'):
            continue            # changed while the module itself is being imported: part of building the constant
        n += 1
        alloc = fl.module_sites[site]
        rep.violation(rid, '%s:%s' % (f.qname, norm(call)[:50]), 'the %s created at %s line %d when the module is imported (%s) can be the object that '
                      '%s changes in place here: it exists once per process, so the next compilation starts from what this one left in it' % (
                          site[0], site[1], site[2], norm(alloc)[:30], norm(call)[:40]), f.loc(call))
    # objects of the repository's own classes created at import time: a method that stores into its receiver, called on one
    mods = ('yp_generator', 'yp_prolog_visitor', 'compiler', 'errors')
    nobj = 0

    def writes_self(m, seen):
        if m in seen:
            return None
        seen.add(m)
        me = m.params[0] if m.params else 'self'
        for x in own_nodes_ordered(m.node):
            if isinstance(x, (ast.Attribute, ast.Subscript)) and isinstance(x.ctx, (ast.Store, ast.Del)):
                root = x
                while isinstance(root, (ast.Attribute, ast.Subscript)):
                    root = root.value
                if is_name(root, me):
                    return x
            if isinstance(x, ast.Call) and isinstance(x.func, ast.Attribute):
                if x.func.attr in MUTATORS and isinstance(x.func.value, ast.Attribute) and is_name(x.func.value.value, me):
                    return x
                if is_name(x.func.value, me) and m.cls is not None:
                    g = cm.repo.lookup_method(m.cls, x.func.attr)
                    if g is not None:
                        r = writes_self(g, seen)
                        if r is not None:
                            return r
        return None
    for f in cm.repo.all_functions(mods):
        for x in own_nodes_ordered(f.node):
            tgt = None
            if isinstance(x, ast.Call) and isinstance(x.func, ast.Attribute) and isinstance(x.func.value, ast.Name):
                tgt = x.func.value.id
            elif isinstance(x, ast.Attribute) and isinstance(x.ctx, (ast.Store, ast.Del)) and isinstance(x.value, ast.Name):
                tgt = x.value.id
            if tgt is None or tgt in local_names(f):
                continue
            r = cm.repo.resolve_name(f, tgt)
            if not (r and r[0] == 'var' and isinstance(r[2], ast.Call) and isinstance(r[2].func, ast.Name)):
                continue
            kmod = r[1] if hasattr(r[1], 'classes') else None
            k = kmod.classes.get(r[2].func.id) if kmod is not None else None
            if k is None:
                continue
            nobj += 1
            if isinstance(x, ast.Attribute):
                w = x
            else:
                m = cm.repo.lookup_method(k, x.func.attr)
                w = writes_self(m, set()) if m is not None else None
            if w is not None:
                n += 1
                rep.violation(rid, '%s:%s' % (f.qname, norm(x)[:50]), 'the %s object %s is created once, when the module is imported, and %s changes it '
                              '(%s): it exists once per process, so compilations that follow or overlap one another share what it holds' % (
                                  k.name, tgt, norm(x)[:30], norm(w)[:40]), f.loc(x))
    if not n:
        rep.ok(rid, 'import-time objects', '%d use(s) of objects of repository classes created at import time, none changes them' % nobj, None)
    if not n:
        rep.ok(rid, 'import-time containers', '%d container(s) created at import time, none of them reaches an in-place change (%d change sites followed)' % (
            len(fl.module_sites), len(fl.mutated)), None)


# ---------------------------------------------------------------------------------------------
# engine state lives on the engine


def rule_state_on_engine_only(em, rep, rid):
    rep.rule(rid, 'methods of the engine write attributes of the engine itself only: nothing is stored on an object that was handed in '
                  '(an atom, a term, a fact) or found in a table - such objects can be shared by several engines, or by several '
                  'running queries, and what one of them stores there the others see')
    n = 0
    bad = 0
    for f in em.YP.methods.values():
        fresh = {t.id for s in own_nodes(f.node) if isinstance(s, ast.Assign) and isinstance(s.value, ast.Call) and
                 em.cg.constructed_class(f, s.value) is not None for t in s.targets if isinstance(t, ast.Name)}
        for x in own_nodes_ordered(f.node):
            base = None
            what = None
            if isinstance(x, ast.Attribute) and isinstance(x.ctx, (ast.Store, ast.Del)):
                base, what = x.value, x
            elif isinstance(x, ast.Subscript) and isinstance(x.ctx, (ast.Store, ast.Del)) and isinstance(x.value, ast.Attribute):
                base, what = x.value.value, x
            elif isinstance(x, ast.Call) and isinstance(x.func, ast.Attribute) and x.func.attr in MUTATORS and isinstance(x.func.value, ast.Attribute):
                base, what = x.func.value.value, x
            if base is None:
                continue
            n += 1
            if isinstance(base, ast.Name) and base.id not in ('self',) and base.id not in fresh:
                bad += 1
                rep.violation(rid, '%s:%s' % (f.qname, norm(what)[:50]), '%s stores into %s, an object that is not the engine and was not created here: '
                              'if that object is known to another engine (atoms and terms travel between engines) or to another running '
                              'query, the two now share state' % (f.name, norm(base)), f.loc(x))
    if not bad:
        rep.ok(rid, em.YP.qname, '%d attribute/element stores in the engine class, all on self or on objects created on the spot' % n, em.YP.loc())
    rep.minimum('stores in the engine class', n, 5)
