"""E7 (first half) - reader for prolog.g4 and for the tables of the generated parser."""
import ast
import os
import re

from .model import AnalysisError, norm


# ---------------------------------------------------------------------------------------------
# .g4


class Elem:
    def __init__(self, kind, value, suffix='', label=None, negated=False):
        self.kind = kind          # 'lit' | 'ref' | 'set' | 'any' | 'group'
        self.value = value        # text | name | set text | list of alternatives
        self.suffix = suffix      # '', '*', '+', '?', '*?', '+?'
        self.label = label
        self.negated = negated

    def __repr__(self):
        v = self.value if self.kind != 'group' else '(%s)' % ' | '.join(' '.join(map(repr, a)) for a in self.value)
        return '%s%s%s%s' % ('%s=' % self.label if self.label else '', '~' if self.negated else '', v, self.suffix)


class Alt(list):
    assoc = None
    command = None


_TOK = re.compile(r"""
    (?P<ws>\s+)
  | (?P<lc>//[^\n]*)
  | (?P<bc>/\*.*?\*/)
  | (?P<lit>'(?:\\.|[^'\\])*')
  | (?P<set>\[(?:\\.|[^\]\\])*\])
  | (?P<arrow>->)
  | (?P<opt><[^>]*>)
  | (?P<id>[A-Za-z_][A-Za-z0-9_]*)
  | (?P<p>[:;|()*+?~.=])
""", re.X | re.S)


def _tokens(text):
    pos = 0
    out = []
    while pos < len(text):
        m = _TOK.match(text, pos)
        if not m:
            raise AnalysisError('prolog.g4: cannot tokenise at %r' % text[pos:pos + 20])
        pos = m.end()
        k = m.lastgroup
        if k in ('ws', 'lc', 'bc'):
            continue
        out.append((k, m.group()))
    return out


def _unescape_lit(s):
    body = s[1:-1]
    out = []
    i = 0
    while i < len(body):
        if body[i] == '\\' and i + 1 < len(body):
            c = body[i + 1]
            out.append({'n': '\n', 'r': '\r', 't': '\t', '\\': '\\', "'": "'"}.get(c, c))
            i += 2
        else:
            out.append(body[i])
            i += 1
    return ''.join(out)


class Grammar:
    def __init__(self, path):
        if not os.path.isfile(path):
            raise AnalysisError('grammar file %s not found' % path)
        self.path = path
        self.text = open(path, encoding='utf-8').read()
        self.rules = {}           # name -> list of Alt
        self.order = []
        self.fragments = set()
        self._parse()

    def _parse(self):
        toks = _tokens(self.text)
        i = 0
        if toks[i] == ('id', 'grammar'):
            self.name = toks[i + 1][1]
            i += 3
        while i < len(toks):
            frag = False
            if toks[i] == ('id', 'fragment'):
                frag = True
                i += 1
            if toks[i][0] != 'id':
                raise AnalysisError('prolog.g4: rule name expected, got %r' % (toks[i],))
            name = toks[i][1]
            if toks[i + 1] != ('p', ':'):
                raise AnalysisError('prolog.g4: ":" expected after %s' % name)
            i += 2
            alts, i = self._alts(toks, i, (';',))
            i += 1
            self.rules[name] = alts
            self.order.append(name)
            if frag:
                self.fragments.add(name)

    def _alts(self, toks, i, stop):
        alts = []
        cur = Alt()
        while True:
            k, v = toks[i]
            if k == 'p' and v in stop:
                alts.append(cur)
                return alts, i
            if k == 'p' and v == '|':
                alts.append(cur)
                cur = Alt()
                i += 1
                continue
            if k == 'opt':
                if 'assoc=right' in v.replace(' ', ''):
                    cur.assoc = 'right'
                i += 1
                continue
            if k == 'arrow':
                cur.command = toks[i + 1][1]
                i += 2
                continue
            label = None
            if k == 'id' and toks[i + 1] == ('p', '='):
                label = v
                i += 2
                k, v = toks[i]
            neg = False
            if k == 'p' and v == '~':
                neg = True
                i += 1
                k, v = toks[i]
            if k == 'lit':
                e = Elem('lit', _unescape_lit(v), label=label, negated=neg)
                i += 1
            elif k == 'set':
                e = Elem('set', v, label=label, negated=neg)
                i += 1
            elif k == 'id':
                e = Elem('ref', v, label=label, negated=neg)
                i += 1
            elif k == 'p' and v == '.':
                e = Elem('any', '.', label=label)
                i += 1
            elif k == 'p' and v == '(':
                sub, i = self._alts(toks, i + 1, (')',))
                e = Elem('group', sub, label=label, negated=neg)
                i += 1
            else:
                raise AnalysisError('prolog.g4: unexpected %r' % (toks[i],))
            while i < len(toks) and toks[i][0] == 'p' and toks[i][1] in '*+?':
                e.suffix += toks[i][1]
                i += 1
            cur.append(e)

    # -- queries --------------------------------------------------------------------------
    def is_lexer_rule(self, name):
        return name[0].isupper()

    @property
    def start_rule(self):
        for n in self.order:
            if not self.is_lexer_rule(n):
                return n
        raise AnalysisError('prolog.g4 has no parser rule')

    def ends_in_eof(self, rule):
        return all(a and a[-1].kind == 'ref' and a[-1].value == 'EOF' for a in self.rules[rule])

    def token_regex(self, name, _depth=0):
        if name not in self.rules:
            raise AnalysisError('prolog.g4: token %s is not defined' % name)
        if _depth > 10:
            raise AnalysisError('prolog.g4: recursive lexer rule %s' % name)
        return '|'.join(self._alt_regex(a, _depth) for a in self.rules[name])

    def _alt_regex(self, alt, depth):
        return ''.join(self._elem_regex(e, depth) for e in alt)

    def _elem_regex(self, e, depth):
        if e.kind == 'lit':
            if e.negated:
                r = '[^%s]' % ''.join(_cls_escape(c) for c in e.value)
            else:
                r = re.escape(e.value)
        elif e.kind == 'set':
            body = e.value[1:-1]
            r = '[%s%s]' % ('^' if e.negated else '', body)
        elif e.kind == 'any':
            r = r'[\s\S]'
        elif e.kind == 'ref':
            r = '(?:%s)' % self.token_regex(e.value, depth + 1)
        else:
            r = '(?:%s)' % '|'.join(self._alt_regex(a, depth) for a in e.value)
            if e.negated:
                raise AnalysisError('prolog.g4: negated group is not supported')
        suf = e.suffix
        if suf:
            r = '(?:%s)%s' % (r, suf)
        return r

    def tokens(self):
        return [n for n in self.order if self.is_lexer_rule(n) and n not in self.fragments]

    def skipped(self):
        return [n for n in self.tokens() if any(a.command == 'skip' for a in self.rules[n])]

    def literals(self):
        out = []
        for n in self.order:
            if self.is_lexer_rule(n):
                continue
            for a in self.rules[n]:
                for e in _walk(a):
                    if e.kind == 'lit' and e.value not in out:
                        out.append(e.value)
        return out

    def operator_alternatives(self, rule):
        """for a left-recursive expression rule: (op literal, 'prefix'|'binary', assoc, index)"""
        out = []
        for idx, a in enumerate(self.rules[rule]):
            lits = [e for e in a if e.kind == 'lit' and e.label]
            if not lits:
                continue
            op = lits[0].value
            refs = [e for e in a if e.kind == 'ref' and e.value == rule]
            if len(refs) == 2 and a[0].kind == 'ref':
                out.append((op, 'binary', a.assoc or 'left', idx))
            elif len(refs) == 1 and a[0] is lits[0]:
                out.append((op, 'prefix', None, idx))
        return out

    def label_literals(self, rule, label):
        return [e.value for a in self.rules[rule] for e in _walk(a) if e.label == label and e.kind == 'lit']


def _cls_escape(c):
    return '\\' + c if c in '\\]^-' else c


def _walk(alt):
    for e in alt:
        yield e
        if e.kind == 'group':
            for a in e.value:
                yield from _walk(a)


# ---------------------------------------------------------------------------------------------
# generated parser


class GeneratedParser:
    def __init__(self, path):
        if not os.path.isfile(path):
            raise AnalysisError('generated parser %s not found' % path)
        self.path = path
        self.tree = ast.parse(open(path, encoding='utf-8').read())
        cls = [n for n in self.tree.body if isinstance(n, ast.ClassDef) and n.name.endswith('Parser')]
        if not cls:
            raise AnalysisError('no parser class in %s' % path)
        self.cls = cls[0]
        self.attrs = {}
        for s in self.cls.body:
            if isinstance(s, ast.Assign) and isinstance(s.targets[0], ast.Name):
                try:
                    self.attrs[s.targets[0].id] = ast.literal_eval(s.value)
                except Exception:
                    pass
        self.literalNames = self.attrs.get('literalNames', [])
        self.symbolicNames = self.attrs.get('symbolicNames', [])
        self.ruleNames = self.attrs.get('ruleNames', [])
        self.methods = {n.name: n for n in self.cls.body if isinstance(n, ast.FunctionDef)}
        self.contexts = {n.name: n for n in self.cls.body if isinstance(n, ast.ClassDef)}

    def token_type_literal(self, tname):
        """'T__3' -> ','"""
        if tname.startswith('T__'):
            i = int(tname[3:]) + 1
            lit = self.literalNames[i]
            return lit[1:-1]
        return tname

    def start_matches_eof(self, rule):
        m = self.methods.get(rule)
        if m is None:
            raise AnalysisError('generated parser has no method %s' % rule)
        for n in ast.walk(m):
            if isinstance(n, ast.Call) and isinstance(n.func, ast.Attribute) and n.func.attr == 'match' and n.args and \
                    norm(n.args[0]).endswith('.EOF'):
                return True
        return False

    def precedence_triples(self, rule):
        """[(precpred level, operator literal, level of the recursive right operand)]"""
        m = self.methods.get(rule)
        if m is None:
            raise AnalysisError('generated parser has no method %s' % rule)
        out = []
        for n in ast.walk(m):
            if isinstance(n, ast.If):
                for block in [n.body]:
                    prec = op = rec = None
                    for s in block:
                        for x in ast.walk(s):
                            if isinstance(x, ast.Call) and isinstance(x.func, ast.Attribute):
                                if x.func.attr == 'precpred' and len(x.args) == 2 and isinstance(x.args[1], ast.Constant) and prec is None:
                                    prec = x.args[1].value
                                elif x.func.attr == 'match' and x.args and op is None and prec is not None:
                                    op = self.token_type_literal(norm(x.args[0]).split('.')[-1])
                                elif x.func.attr == rule and x.args and isinstance(x.args[0], ast.Constant) and rec is None and prec is not None:
                                    rec = x.args[0].value
                    if prec is not None and op is not None and rec is not None and (prec, op, rec) not in out:
                        # only the innermost if (the one whose direct body holds the precpred test)
                        if any(isinstance(s, ast.If) and 'precpred' in norm(s.test) for s in block):
                            out.append((prec, op, rec))
        return out

    def prefix_operand_levels(self, rule):
        """[(operator literal, level)] for alternatives 'op rule' in the primary part"""
        m = self.methods.get(rule)
        out = []
        for n in ast.walk(m):
            if isinstance(n, ast.If) and 'la_' in norm(n.test):
                stmts = n.body
                calls = [x for s in stmts for x in ast.walk(s) if isinstance(x, ast.Call) and isinstance(x.func, ast.Attribute)]
                names = [c.func.attr for c in calls]
                if 'precpred' in names:
                    continue
                ms = [c for c in calls if c.func.attr == 'match']
                rs = [c for c in calls if c.func.attr == rule and c.args and isinstance(c.args[0], ast.Constant)]
                if len(ms) == 1 and len(rs) == 1 and ms[0].lineno < rs[0].lineno:
                    out.append((self.token_type_literal(norm(ms[0].args[0]).split('.')[-1]), rs[0].args[0].value))
        return out

    def context_accessors(self):
        """{ContextClass: {method: ('rule'|'token', name, multi)}}"""
        out = {}
        for cname, c in self.contexts.items():
            acc = {}
            for m in c.body:
                if not isinstance(m, ast.FunctionDef) or m.name.startswith('__') or m.name in ('getRuleIndex', 'accept', 'enterRule', 'exitRule'):
                    continue
                src = norm(m)
                multi = len(m.args.args) > 1
                mm = re.search(r'getTypedRuleContexts?\(\w+\.(\w+)Context', src)
                if mm:
                    acc[m.name] = ('rule', mm.group(1)[0].lower() + mm.group(1)[1:], multi)
                    continue
                mm = re.search(r'getTokens?\(\w+\.(\w+)', src)
                if mm:
                    acc[m.name] = ('token', mm.group(1), multi)
            fields = []
            for m in c.body:
                if isinstance(m, ast.FunctionDef) and m.name == '__init__':
                    for s in ast.walk(m):
                        if isinstance(s, ast.Assign) and isinstance(s.targets[0], ast.Attribute) and norm(s.targets[0].value) == 'self' \
                                and s.targets[0].attr not in ('parser',):
                            fields.append(s.targets[0].attr)
            out[cname] = dict(accessors=acc, fields=fields)
        return out


def cross_check(g, gp):
    """the generated tables must agree with prolog.g4 as far as they are readable"""
    problems = []
    prules = [n for n in g.order if not g.is_lexer_rule(n)]
    if prules != list(gp.ruleNames):
        problems.append('rule names differ: g4 %s vs generated %s' % (prules, gp.ruleNames))
    lits = ["'%s'" % l for l in g.literals()]
    gen_lits = [l for l in gp.literalNames if l != '<INVALID>']
    implicit = [l for l in gen_lits]
    for l in lits:
        if l not in implicit:
            problems.append('literal %s of prolog.g4 is not a token of the generated parser' % l)
    toks = [t for t in g.tokens()]
    gen_toks = [t for t in gp.symbolicNames if t != '<INVALID>']
    if toks != gen_toks:
        problems.append('token names differ: g4 %s vs generated %s' % (toks, gen_toks))
    return problems
