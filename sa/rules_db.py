"""Rules about the fact database and the meta-call builtins (C07, C09, C14)."""
import ast

from .model import AnalysisError, own_nodes, own_nodes_ordered, is_name, is_self_attr, norm, parents, local_names
from .cfg import ProductCFG, ExcMatcher
from .eng import (EngineModel, definite_assignment, branch_decisions, deref_violations, raw_param_closure,
                  term_params_of, narrowed_class, is_deref_call, names_loaded)
from .callgraph import arg_for_param

DB_BUILTINS = ('asserta', 'assertz', 'assert', 'retract', 'retractall')


def split_builtins(em):
    """(database builtins, other builtins + call)"""
    db, other = [], []
    for b in em.builtins():
        f = b['func']
        if f is None:
            continue
        (db if b['name'] in DB_BUILTINS else other).append(f)
    c = em.repo.lookup_method(em.YP, 'call')
    if c is not None and c not in other:
        other.append(c)
    return _uniq(db), _uniq(other)


def _uniq(xs):
    out = []
    for x in xs:
        if x not in out:
            out.append(x)
    return out


def closure_in_engine(em, roots):
    out = []
    for f in em.cg.reachable(roots, with_refs=False, include_nested=True):
        if f.module.name == 'engine' and f.name not in ('__init__',) and f not in out:
            out.append(f)
    return out


# ---------------------------------------------------------------------------------------------
# D1 / D2


def rule_deref_before_inspection(em, rep, rid, roots):
    rep.rule(rid, 'for every predicate entry point and every helper a raw parameter is forwarded to: isinstance tests '
                  'on term classes and reads of _name/_args/name() apply to get_value(param) (or to the parameter after '
                  'it was re-bound to its value), on every path')
    raw = raw_param_closure(em, roots)
    n = 0
    for f, params in sorted(raw.items(), key=lambda kv: kv[0].qname):
        if not params:
            continue
        viols = deref_violations(em, f, params)
        rep.analysed_add('functions', f.qname)
        from .eng import inspections
        byvar = {}
        for what, node, path in viols:
            byvar.setdefault(what.split('(')[-1].split('.')[0].split(',')[0], []).append((what, node))
        for var, items in sorted(byvar.items()):
            whats = sorted({w for w, _ in items})
            rep.violation(rid, '%s:%s' % (f.qname, var), 'a term that arrives in a bound variable is inspected without being '
                          'dereferenced (%s on the raw parameter %s): "G = foo(X), %s(G)" treats G as an unbound variable, '
                          'not as foo(X)' % (', '.join(whats), var, f.name), f.loc(items[0][1]))
        seen = set()
        for namenode, what, node in inspections(f):
            n += 1
            var = namenode.id
            if var in byvar or (f.qname, var) in seen:
                continue
            seen.add((f.qname, var))
            rep.ok(rid, '%s:%s' % (f.qname, var), 'inspections apply to a dereferenced value', f.loc(node))
    rep.ok(rid, 'entry points', '%d term inspection(s) in %d function(s) that receive raw terms' % (n, len(raw)), None, nontrivial=False)


def rule_total_dispatch(em, rep, rid, funcs):
    rep.rule(rid, 'definite assignment: no local is read on a path on which it was never assigned (the report carries the '
                  'branch decisions of that path); exception edges out of calls and zero-iteration paths of the loop that '
                  'defines the name are not followed')
    for f in funcs:
        cfg = em.cfg(f)
        bad = definite_assignment(em, f)
        rep.analysed_add('functions', f.qname)
        names = set()
        for use, node, path in bad:
            if use.id in names:
                continue
            names.add(use.id)
            dec = branch_decisions(cfg, path)
            rep.violation(rid, '%s:%s' % (f.qname, use.id), 'local %s is read but unassigned when %s (UnboundLocalError '
                          'instead of failure)' % (use.id, ' and '.join(dec) or 'the function is entered'), f.loc(use),
                          cfg.describe_path(path))
        if not names:
            nl = len(local_names(f) - set(f.all_params))
            rep.ok(rid, f.qname, '%d local(s) definitely assigned at every use' % nl, f.loc(), nontrivial=nl > 0)


# ---------------------------------------------------------------------------------------------
# K1 key kinds


def _kind_of(em, f, e, expected, depth=0):
    """set of kinds {'atom','str'} an expression may have; empty = unknown"""
    if depth > 4:
        return set()
    if isinstance(e, ast.Constant) and isinstance(e.value, str):
        return {'str'}
    if isinstance(e, ast.JoinedStr):
        return {'str'}
    if isinstance(e, ast.Call):
        fn = e.func
        if isinstance(fn, ast.Attribute) and fn.attr == 'name' and not e.args:
            return {'str'}
        if isinstance(fn, ast.Attribute) and fn.attr == 'atom' and is_name(fn.value, 'self'):
            return {'atom'}
        if is_name(fn, 'Atom'):
            return {'atom'}
        if is_name(fn, 'str'):
            return {'str'}
        if is_name(fn, 'to_python') and e.args and isinstance(e.args[0], ast.Name):
            return {'str'}
        if is_deref_call(e):
            from .eng import deref_arg
            a = deref_arg(e)
            return set()
        return set()
    if isinstance(e, ast.Attribute) and e.attr == '_name':
        return {'str'}
    if isinstance(e, ast.Name):
        cls = narrowed_class(e, e.id)
        if 'Atom' in cls:
            return {'atom'}
        if (f, e.id) in expected:
            return {expected[(f, e.id)]}
        if e.id in f.all_params:
            return set()
        out = set()
        for s in own_nodes(f.node):
            if isinstance(s, ast.Assign) and any(is_name(t, e.id) for t in s.targets):
                k = _kind_of(em, f, s.value, expected, depth + 1)
                if not k:
                    # value is a name narrowed to Atom by the enclosing isinstance
                    if isinstance(s.value, ast.Name) and 'Atom' in narrowed_class(s, s.value.id):
                        k = {'atom'}
                    elif isinstance(s.value, ast.Name):
                        # the dereferenced alias of a narrowed name
                        k = set()
                out |= k
        return out
    return set()


def _contributors(f, name, kind, em, expected):
    out = []
    for s in own_nodes_ordered(f.node):
        if isinstance(s, ast.Assign) and any(is_name(t, name) for t in s.targets):
            k = _kind_of(em, f, s.value, expected, 1)
            if not k and isinstance(s.value, ast.Name) and 'Atom' in narrowed_class(s, s.value.id):
                k = {'atom'}
            if kind in k:
                out.append(s)
    return out


def expected_param_kinds(em):
    """{(func, param): 'atom' | 'str'} inferred from how the parameter is used"""
    exp = {}
    funcs = [f for f in em.repo.all_functions(('engine',)) if f.cls is em.YP]
    # writer's key component kind
    changed = True
    rounds = 0
    while changed and rounds < 6:
        changed = False
        rounds += 1
        for f in funcs:
            for p in term_params_of(f):
                if (f, p) in exp:
                    continue
                k = None
                for n in own_nodes_ordered(f.node):
                    if isinstance(n, ast.Call) and isinstance(n.func, ast.Attribute) and is_name(n.func.value, p) and n.func.attr == 'name':
                        k = 'atom'
                    elif isinstance(n, ast.FormattedValue) and is_name(n.value, p):
                        k = k or 'str'
                    elif isinstance(n, ast.Call) and is_name(n.func, 'Atom') and n.args and is_name(n.args[0], p):
                        k = k or 'str'
                    elif isinstance(n, ast.Call):
                        for c in em.cg.resolve_callable(f, n.func):
                            for q in term_params_of(c):
                                a = arg_for_param(n, c, q)
                                if is_name(a, p) and (c, q) in exp and not narrowed_class(a, p):
                                    k = k or exp[(c, q)]
                    elif isinstance(n, ast.Subscript) and isinstance(n.value, ast.Attribute) and n.value.attr == '_predicates_store' \
                            and isinstance(n.slice, ast.Tuple) and n.slice.elts and is_name(n.slice.elts[0], p):
                        k = k or 'str'       # the store is keyed by (name string, arity): see K1's writer check
                if k:
                    exp[(f, p)] = k
                    changed = True
    return exp


def rule_key_kinds(em, rep, rid, funcs):
    rep.rule(rid, 'two-point kind inference {Atom object, name string}: the kind every store-API parameter expects (from '
                  'its body: p.name() => Atom; inside the key tuple / formatted / passed to Atom() => string) equals the kind '
                  'of the argument at every call site (isinstance narrowing, x._name, self.atom(x)); known-and-different is reported')
    exp = expected_param_kinds(em)
    rep.minimum('store-API parameters with an inferred kind', len(exp), 5)
    # writer agreement: the key written by the publishing function is (string, arity)
    n = 0
    for f in funcs:
        for call, callees in em.cg.calls.get(f, ()):
            for c in callees:
                for q in term_params_of(c):
                    if (c, q) not in exp:
                        continue
                    a = arg_for_param(call, c, q)
                    if a is None:
                        continue
                    kinds = _kind_of(em, f, a, exp)
                    n += 1
                    key = '%s:%s<-%s' % (f.qname, '%s.%s' % (c.name, q), norm(a))
                    want = exp[(c, q)]
                    if kinds and kinds != {want}:
                        wrong = sorted(kinds - {want})[0]
                        contrib = _contributors(f, a.id, wrong, em, exp) if isinstance(a, ast.Name) else []
                        src = (' (from "%s" at line %d)' % (norm(contrib[0]), contrib[0].lineno)) if contrib else ''
                        rep.violation(rid, key, '%s expects %s for parameter %s but receives %s%s: the %s is used as the '
                                      'predicate name, so zero-argument facts are stored or looked up under a different key '
                                      'than everything else' % (c.name, _kn(want), q, _kn(wrong), src, _kn(wrong)), f.loc(call))
                    elif kinds:
                        rep.ok(rid, key, 'kind %s as expected' % want, f.loc(call))
                    else:
                        rep.ok(rid, key, 'kind of argument unknown (no positive evidence of a mismatch)', f.loc(call), nontrivial=False)
    rep.minimum('call sites of kind-checked store-API parameters', n, 8)


def _kn(k):
    return 'an Atom object' if k == 'atom' else 'a name string'


# ---------------------------------------------------------------------------------------------
# O1, O2, O3


def rule_front_back(em, rep, rid):
    rep.rule(rid, 'assert_fact adds at the end on its append=True branch and at the front otherwise; assertz reaches it with '
                  'True (or the default), asserta with False, in every branch')
    af = em.repo.lookup_method(em.YP, 'assert_fact')
    if af is None:
        raise AnalysisError('anchor vanished: YP.assert_fact')
    ps = af.params
    if 'append' not in ps:
        raise AnalysisError('assert_fact has no append parameter')
    default = None
    a = af.node.args
    defaults = dict(zip([x.arg for x in a.args][len(a.args) - len(a.defaults):], a.defaults))
    if 'append' in defaults and isinstance(defaults['append'], ast.Constant):
        default = defaults['append'].value
    found = 0
    afv = af
    if not any(isinstance(n, ast.If) and any(is_name(x, 'append') for x in ast.walk(n.test)) for n in own_nodes(af.node)):
        afv = em.view(af)           # the branch sits in a helper that is handed the flag
    for n in own_nodes_ordered(afv.node):
        if isinstance(n, ast.If) and (is_name(n.test, 'append') or (isinstance(n.test, ast.UnaryOp) and is_name(n.test.operand, 'append'))):
            neg = not is_name(n.test, 'append')
            end_branch, front_branch = (n.orelse, n.body) if neg else (n.body, n.orelse)
            found += 1
            for branch, want in ((end_branch, 'end'), (front_branch, 'front')):
                pos = _insert_position(branch)
                key = '%s:append=%s' % (af.qname, want == 'end')
                if pos == want:
                    rep.ok(rid, key, 'adds at the %s' % want, af.loc(branch[0]) if branch else af.loc(n))
                elif pos is None:
                    rep.violation(rid, key, 'the branch for append=%s does not add the fact at the %s of the clause list' % (want == 'end', want), af.loc(n))
                else:
                    rep.violation(rid, key, 'the branch for append=%s adds the fact at the %s' % (want == 'end', pos), af.loc(branch[0]))
    if not found:
        raise AnalysisError('assert_fact: no branch on the append parameter recognised')
    for name, want in (('assertz', True), ('asserta', False)):
        f = em.repo.lookup_method(em.YP, name)
        if f is None:
            raise AnalysisError('anchor vanished: YP.%s' % name)
        f = em.view(f, keep=(af,))           # a shared helper (asserta/assertz as one parameterised function) is pasted in
        calls = [c for c in own_nodes_ordered(f.node) if isinstance(c, ast.Call) and is_self_attr(c.func, af.name)]
        if not calls:
            rep.violation(rid, '%s:assert_fact' % f.qname, '%s never stores a fact' % name, f.loc())
        for c in calls:
            v = arg_for_param(c, af, 'append')
            val = default if v is None else (v.value if isinstance(v, ast.Constant) else None)
            key = '%s:%s' % (f.qname, norm(c))
            if val is want:
                rep.ok(rid, key, 'append=%s' % val, f.loc(c))
            else:
                rep.violation(rid, key, '%s adds at the %s (append=%s)' % (name, 'end' if val else 'front', norm(v) if v is not None else default), f.loc(c))


def _insert_position(stmts):
    for s in stmts:
        for n in ast.walk(s):
            if isinstance(n, ast.Call) and isinstance(n.func, ast.Attribute):
                if n.func.attr == 'append':
                    return 'end'
                if n.func.attr == 'insert' and n.args and isinstance(n.args[0], ast.Constant) and n.args[0].value == 0:
                    return 'front'
                if n.func.attr == 'insert':
                    return 'middle'
            if isinstance(n, ast.BinOp) and isinstance(n.op, ast.Add):
                if isinstance(n.right, (ast.List, ast.Tuple)) and len(n.right.elts) == 1 and not isinstance(n.left, (ast.List, ast.Tuple)):
                    return 'end'
                if isinstance(n.left, (ast.List, ast.Tuple)) and len(n.left.elts) == 1 and not isinstance(n.right, (ast.List, ast.Tuple)):
                    return 'front'
            if isinstance(n, ast.AugAssign) and isinstance(n.op, ast.Add) and isinstance(n.value, ast.List):
                return 'end'
            if isinstance(n, (ast.List, ast.Tuple)) and len(n.elts) == 2 and len([e for e in n.elts if isinstance(e, ast.Starred)]) == 1 and \
                    isinstance(getattr(n, 'ctx', None), ast.Load):
                return 'end' if isinstance(n.elts[0], ast.Starred) else 'front'
    return None


def rule_retractall_once(em, rep, rid):
    from .rules_bind import iterator_class_kind
    rep.rule(rid, 'every path of retractall that publishes the filtered list returns one single-success iterator; no path '
                  'falls off the end')
    f = em.repo.lookup_method(em.YP, 'retractall')
    if f is None:
        raise AnalysisError('anchor vanished: YP.retractall')
    cfg = em.cfg(f)
    if f.is_generator:
        ys = [n for n in cfg.nodes if n.kind == 'yield']
        from .rules_bind import _second_yield
        for y in ys:
            if _second_yield(cfg, y, set()) is not None:
                rep.violation(rid, f.qname + ':yield', 'retractall can succeed more than once', f.loc(y.stmt))
                return
        rep.ok(rid, f.qname, 'generator with at most one yield per path', f.loc())
        return
    pubset = {pf for pf, _ in StoreModel(em).publishers}       # by role: the functions that put a clause list into the store
    pubs = [n for n in cfg.nodes if n.kind == 'call' and any(c in pubset for c in em.cg.resolve_callable(f, n.ast.func))]
    if 'fall' in cfg.exits and cfg.exits['fall'] in cfg.live:
        p = cfg.g.find_path(cfg.entry, lambda m: m is cfg.exits['fall'], edge_ok=lambda l, a, b: l != 'exc')
        rep.violation(rid, f.qname + ':fallthrough', 'retractall can return None (not an iterator): the goal raises TypeError '
                      'instead of succeeding or failing', f.loc(), cfg.describe_path(p) if p else None)
    for r in [n for n in cfg.nodes if n.kind == 'return']:
        key = '%s:%s' % (f.qname, norm(r.stmt))
        after_pub = any(r in cfg.g.reach([p_]) for p_ in pubs)
        kind = None
        if isinstance(r.ast, ast.Call):
            c = em.cg.constructed_class(f, r.ast)
            if c is not None:
                kind = iterator_class_kind(em, c)
        if kind == 'once' or (kind == 'never' and not after_pub):
            rep.ok(rid, key, 'returns an iterator that succeeds %s%s' % (kind, '' if after_pub else ' (nothing published on this path)'), f.loc(r.stmt))
        else:
            rep.violation(rid, key, 'after removing the matching facts retractall does not succeed exactly once (returns %s)' % norm(r.ast), f.loc(r.stmt))


def rule_retractall_filters_by_match(em, rep, rid):
    rep.rule(rid, 'every list retractall publishes is built by testing each stored clause against the pattern with match(): a '
                  'local that starts empty and is only appended to inside the loop over the stored clauses that also runs the match')
    f = em.repo.lookup_method(em.YP, 'retractall')
    sm = StoreModel(em)
    pubs = sm.publish_calls(f)
    rep.minimum('publish sites in retractall', len(pubs), 1)
    for c, a in pubs:
        key = '%s:%s' % (f.qname, norm(c))
        ok = False
        why = 'the published list is %s' % (norm(a) if a is not None else None)
        # tuple(xs) / list(xs) of the filtered local is that local frozen
        while isinstance(a, ast.Call) and is_name(a.func) and a.func.id in ('tuple', 'list') and len(a.args) == 1 and not a.keywords:
            a = a.args[0]
        if isinstance(a, ast.Name):
            name = a.id
            inits = [s for s in own_nodes_ordered(f.node) if isinstance(s, ast.Assign) and any(is_name(t, name) for t in s.targets)]
            apps = [x for x in own_nodes_ordered(f.node) if isinstance(x, ast.Call) and isinstance(x.func, ast.Attribute) and
                    is_name(x.func.value, name) and x.func.attr == 'append']
            others = [m for m in inplace_mutations(f, name) if m not in apps]
            loops = [s for s in own_nodes_ordered(f.node) if isinstance(s, ast.For) and
                     (sm.is_reader_call(f, s.iter) or (isinstance(s.iter, ast.Name) and s.iter.id in sm.alias_locals(f, {})))]
            in_loop = all(any(ap is x for l in loops for x in ast.walk(l)) for ap in apps)
            matches = any(isinstance(x, ast.Call) and em.is_binder_call(f, x) for l in loops for x in ast.walk(l))
            if len(inits) == 1 and isinstance(inits[0].value, ast.List) and not inits[0].value.elts and apps and not others and in_loop and matches:
                ok = True
            else:
                why = 'the published list %s is not only filled clause by clause inside the matching loop' % name
        elif isinstance(a, (ast.ListComp,)) and any('match(' in norm(i) for g in a.generators for i in g.ifs):
            ok = True
        if not ok and isinstance(a, ast.Name):
            # the local is one comprehension over the stored clauses whose filter runs the match
            inits = [s for s in own_nodes_ordered(f.node) if isinstance(s, ast.Assign) and any(is_name(t, a.id) for t in s.targets)]
            if len(inits) == 1 and isinstance(inits[0].value, ast.ListComp) and not inplace_mutations(f, a.id):
                comp = inits[0].value
                g0 = comp.generators[0]
                if len(comp.generators) == 1 and is_name(comp.elt, getattr(g0.target, 'id', None)) and \
                        (sm.is_reader_call(f, g0.iter) or (isinstance(g0.iter, ast.Name) and g0.iter.id in sm.alias_locals(f, {}))) and \
                        any(isinstance(x, ast.Call) and em.is_binder_call(f, x) for i in g0.ifs for x in ast.walk(i)):
                    ok = True
        if ok:
            rep.ok(rid, key, 'published list = clauses that did not match', f.loc(c))
        else:
            rep.violation(rid, key, 'retractall removes facts without unifying them with the pattern (%s): a pattern whose variables are '
                          'aliased, e.g. edge(X, X), removes facts it does not match' % why, f.loc(c))


def fields_assigned(em, f, depth=3, _seen=None):
    """self.<field> names (re)bound by f or its self.* callees"""
    _seen = _seen if _seen is not None else set()
    if f in _seen or depth < 0:
        return {}
    _seen.add(f)
    out = {}
    for n in own_nodes_ordered(f.node):
        if isinstance(n, ast.Assign):
            for t in n.targets:
                if is_self_attr(t):
                    out[t.attr] = (f, n)
        if isinstance(n, ast.Call) and is_self_attr(n.func) and f.cls is not None:
            m = em.repo.lookup_method(f.cls, n.func.attr)
            if m is not None:
                for k, v in fields_assigned(em, m, depth - 1, _seen).items():
                    out.setdefault(k, v)
    return out


def rule_clear_resets(em, rep, rid):
    rep.rule(rid, 'sibling agreement __init__/clear: every field __init__ binds to a fresh mutable container is re-bound by '
                  'clear(), and every field whose value was derived from such a container (self.atom(...) interns into the '
                  'atom table) is re-derived after the container is reset')
    init = em.repo.lookup_method(em.YP, '__init__')
    clear = em.repo.lookup_method(em.YP, 'clear')
    if init is None or clear is None:
        raise AnalysisError('anchor vanished: YP.__init__/clear')
    fi = fields_assigned(em, init)
    fc = fields_assigned(em, clear)
    rep.minimum('fields bound in YP.__init__', len(fi), 5)
    containers = {k for k, (f, n) in fi.items() if isinstance(n.value, (ast.Dict, ast.List, ast.Set)) or
                  (isinstance(n.value, ast.Call) and is_name(n.value.func) and n.value.func.id in ('dict', 'list', 'set'))}
    # only state that grows after construction has to be reset
    mutated = set()
    # (the set-up helpers that __init__ calls on self do not count as "after construction")
    init_helpers = {m for n_, cs in em.cg.calls.get(init, ()) for m in cs if m.cls is em.YP and is_self_attr(n_.func)}
    for g in em.repo.all_functions(('engine',)):
        if g.name in ('__init__', 'clear'):
            continue
        for x in own_nodes(g.node):
            if isinstance(x, ast.Subscript) and isinstance(x.ctx, (ast.Store, ast.Del)) and is_self_attr(x.value):
                mutated.add(x.value.attr)
            if isinstance(x, ast.Call) and isinstance(x.func, ast.Attribute) and is_self_attr(x.func.value) and \
                    x.func.attr in ('setdefault', 'append', 'update', 'add', 'insert', 'extend', 'pop', 'remove', 'clear'):
                mutated.add(x.func.value.attr)
            if isinstance(x, ast.Assign) and any(is_self_attr(t) for t in x.targets):
                mutated.update(t.attr for t in x.targets if is_self_attr(t) and g not in init_helpers)
    stateless = containers - mutated
    containers &= mutated
    for k in sorted(stateless):
        rep.ok(rid, 'engine.YP.clear:%s' % k, 'never modified after construction: nothing to reset', clear.loc(), nontrivial=False)
    for k in sorted(containers):
        key = 'engine.YP.clear:%s' % k
        if k in fc:
            v = fc[k][1].value
            alias = None
            if isinstance(v, ast.Attribute) and is_self_attr(v):
                alias = 'self.%s' % v.attr
            elif isinstance(v, ast.Name) and v.id not in ('None',) and em.repo.module_binding(em.engine, v.id) is not None and \
                    em.repo.module_binding(em.engine, v.id)[0] == 'var':
                alias = 'the module-level object %s' % v.id
            if alias:
                rep.violation(rid, key, 'clear() does not make a new %s: it makes it the very object %s, so whatever is stored in it '
                              'afterwards (loaded or registered definitions, facts) is also stored in that object and is back '
                              'after the next clear()' % (k, alias), clear.loc(fc[k][1]))
                continue
            rep.ok(rid, key, 'reset by clear()', clear.loc(fc[k][1]))
        else:
            rep.violation(rid, key, 'clear() does not reset %s: its contents survive clear()' % k, clear.loc())
    # derived fields: value is a call of a self method that reads/writes a reset container
    for k, (f, n) in sorted(fi.items()):
        v = n.value
        if isinstance(v, ast.Call) and is_self_attr(v.func):
            m = em.repo.lookup_method(em.YP, v.func.attr)
            if m is None:
                continue
            touched = {x.attr for x in ast.walk(m.node) if is_self_attr(x)} & containers
            reset = touched & set(fc)
            if not reset:
                continue
            key = 'engine.YP.clear:%s' % k
            if k in fc:
                # must come after the reset of the container
                order_ok = all(fc[k][1].lineno > fc[c][1].lineno for c in reset if fc[c][0] is fc[k][0])
                if order_ok:
                    rep.ok(rid, key, 're-derived after %s is reset' % ', '.join(sorted(reset)), clear.loc(fc[k][1]))
                else:
                    rep.violation(rid, key, '%s is re-derived before %s is reset' % (k, sorted(reset)), clear.loc(fc[k][1]))
            else:
                rep.violation(rid, key, 'clear() replaces %s but keeps the old %s that was created from it: afterwards '
                              'self.%s(...) returns a different object than %s (atoms of one name are no longer one object per engine)'
                              % (', '.join(sorted(reset)), k, v.func.attr, k), clear.loc())


# ---------------------------------------------------------------------------------------------
# C09


def rule_no_stopiteration_leak(em, rep, rid):
    rep.rule(rid, 'in a generator function every one-argument next(x) is enclosed by a handler for StopIteration (PEP 479 '
                  'turns the leak into RuntimeError)')
    n = 0
    for f in em.repo.all_functions(('engine',)):
        if not f.is_generator:
            continue
        for c in own_nodes_ordered(f.node):
            if isinstance(c, ast.Call) and is_name(c.func, 'next') and len(c.args) == 1:
                n += 1
                key = '%s:%s' % (f.qname, norm(c))
                mt = ExcMatcher(em.repo, f)
                ok = False
                child = c
                for p in parents(c):
                    if isinstance(p, (ast.FunctionDef, ast.Lambda)):
                        break
                    if isinstance(p, ast.Try) and any(child is s or any(x is child for x in ast.walk(s)) for s in p.body):
                        if any(mt.match('StopIteration', h) == 'yes' for h in p.handlers):
                            ok = True
                    child = p
                if ok:
                    rep.ok(rid, key, 'StopIteration handled', f.loc(c))
                else:
                    rep.violation(rid, key, 'when the inner generator has no answer, next() raises StopIteration inside a generator: '
                                  'the goal raises RuntimeError instead of failing', f.loc(c))
    two = len([c for f in em.repo.all_functions(('engine',)) if f.is_generator for c in own_nodes(f.node)
               if isinstance(c, ast.Call) and is_name(c.func, 'next') and len(c.args) == 2])
    rep.ok(rid, 'next() calls', '%d one-argument and %d two-argument (defaulted, cannot raise StopIteration) next() calls in generators' % (n, two),
           None, nontrivial=bool(n))


def _dispatch_classes(em, f, depth=2, seen=None):
    """class names tested with isinstance in f and in the plain (non-generator) helpers it calls"""
    seen = seen if seen is not None else set()
    if f in seen:
        return set()
    seen.add(f)
    out = {x.id for n in own_nodes(f.node) if isinstance(n, ast.Call) and is_name(n.func, 'isinstance') and len(n.args) == 2
           for x in ast.walk(n.args[1]) if isinstance(x, ast.Name)}
    if depth > 0:
        for n, cs in em.cg.calls.get(f, ()):
            for c in cs:
                if not c.is_generator and c.module.name == 'engine' and c.name not in ('get_value', 'query'):
                    out |= _dispatch_classes(em, c, depth - 1, seen)
    # dispatch by method: X.m() where the term classes answer m differently - a class has a case when the implementation
    # it inherits returns something other than None
    for n in own_nodes(f.node):
        if isinstance(n, ast.Call) and isinstance(n.func, ast.Attribute) and not n.args and not is_name(n.func.value, 'self'):
            impls = {}
            for c in em.repo.instantiated():
                if c.module.name != 'engine':
                    continue
                m = em.repo.lookup_method(c, n.func.attr)
                if m is not None and m.module.name == 'engine' and not m.is_generator and m.name not in ('get_value', 'to_python', 'name'):
                    impls[c] = m
            if len(set(impls.values())) >= 2:
                for c, m in impls.items():
                    rets = [r for r in own_nodes(m.node) if isinstance(r, ast.Return)]
                    if any(r.value is not None and not (isinstance(r.value, ast.Constant) and r.value.value is None) for r in rets):
                        out.add(c.name)
    return out


def rule_one_goal_resolver(em, rep, rid):
    rep.rule(rid, 'findall and once resolve their goal through call() (call graph), or handle atom and compound goals '
                  'themselves with the same table as call(): Atom => (name, []), Functor => (name, args), else no answer')
    call = em.repo.lookup_method(em.YP, 'call')
    query = em.repo.lookup_method(em.YP, 'query')
    for name in ('findall', 'once'):
        f = em.repo.lookup_method(em.YP, name)
        if f is None:
            raise AnalysisError('anchor vanished: YP.%s' % name)
        callees = [c for n, cs in em.cg.calls.get(f, ()) for c in cs]
        key = '%s:goal' % f.qname
        if call in callees:
            rep.ok(rid, key, 'goal resolved by call()', f.loc())
        elif query in callees:
            classes = _dispatch_classes(em, f)
            if {'Atom', 'Functor'} <= classes:
                rep.ok(rid, key, 'own dispatch over Atom and Functor goals', f.loc())
            else:
                missing = sorted({'Atom', 'Functor'} - classes)
                rep.violation(rid, key, '%s calls query() with the goal\'s fields directly and has no case for %s goals '
                              '(findall(X, p, L) with an atom p raises AttributeError)' % (name, '/'.join(missing)), f.loc())
        else:
            rep.violation(rid, key, '%s does not evaluate its goal' % name, f.loc())
    # call's own table
    cfg = em.cfg(call)
    classes = _dispatch_classes(em, call)
    if {'Atom', 'Functor'} <= classes:
        rep.ok(rid, call.qname + ':table', 'call() distinguishes Atom and Functor goals', call.loc())
    else:
        rep.violation(rid, call.qname + ':table', 'call() has no case for %s goals' % sorted({'Atom', 'Functor'} - classes), call.loc())


def rule_call_argument_order(em, rep, rid):
    rep.rule(rid, 'in call/N the list passed to query() is the goal\'s own arguments followed by the extra arguments')
    call = em.repo.lookup_method(em.YP, 'call')
    query = em.repo.lookup_method(em.YP, 'query')
    va = call.node.args.vararg.arg if call.node.args.vararg else None
    if va is None:
        rep.violation(rid, call.qname + ':varargs', 'call() takes no extra arguments', call.loc())
        return
    n = 0
    sites = [(c, cs) for c, cs in em.cg.calls.get(call, ()) if query in cs]
    if not sites:
        # the goal is resolved by a helper (shared with other builtins): seen in the view, where the helper's body stands in
        # place of its call and its parameter for the extra arguments is call()'s own
        call = em.view(call, keep=(query,))
        sites = [(c, [query]) for c in own_nodes_ordered(call.node) if isinstance(c, ast.Call) and query in em.cg.resolve_callable(call, c.func)]
    for c, cs in sites:
        n += 1
        a = arg_for_param(c, query, 'args')
        key = '%s:%s' % (call.qname, norm(a) if a is not None else '?')
        if isinstance(a, ast.BinOp) and isinstance(a.op, ast.Add):
            left_extra = any(is_name(x, va) for x in ast.walk(a.left))
            right_extra = any(is_name(x, va) for x in ast.walk(a.right))
            if right_extra and not left_extra:
                rep.ok(rid, key, 'goal arguments + extra arguments', call.loc(c))
            else:
                rep.violation(rid, key, 'the extra arguments of call/N are not appended after the goal\'s own arguments', call.loc(c))
        elif isinstance(a, ast.List) and a.elts and isinstance(a.elts[-1], ast.Starred) and is_name(a.elts[-1].value, va) and \
                not any(is_name(x, va) for e in a.elts[:-1] for x in ast.walk(e)):
            rep.ok(rid, key, '[*goal args, *extra]', call.loc(c))
        else:
            r = resolve = a
            if isinstance(a, ast.Name):
                # built up in a local: goal_args + list(args) assigned before
                defs = [s for s in own_nodes_ordered(call.node) if isinstance(s, (ast.Assign, ast.AugAssign)) and
                        any(is_name(t, a.id) for t in (s.targets if isinstance(s, ast.Assign) else [s.target]))]
                ext = [s for s in defs if any(is_name(x, va) for x in ast.walk(s.value))]
                if ext and all(isinstance(s, ast.AugAssign) or (isinstance(s.value, ast.BinOp) and any(is_name(x, va) for x in ast.walk(s.value.right))
                               and not any(is_name(x, va) for x in ast.walk(s.value.left))) for s in ext):
                    rep.ok(rid, key, 'extra arguments appended to the goal arguments', call.loc(c))
                    continue
            rep.violation(rid, key, 'cannot see the extra arguments being appended after the goal\'s own (%s)' % (norm(a) if a is not None else None), call.loc(c))
    rep.minimum('query() calls in call/N', n, 1)


def rule_findall_shape(em, rep, rid):
    rep.rule(rid, 'findall exhausts the goal in an un-broken loop/comprehension that reads get_value(template) per answer, '
                  'and unifies the bag only afterwards, with exactly one delegation to unify(bag, ...)')
    f = em.repo.lookup_method(em.YP, 'findall')
    ps = f.params[1:]
    if len(ps) != 3:
        raise AnalysisError('findall does not take (template, goal, bag)')
    template, goal, bag = ps
    key = f.qname
    collectors = []
    for n in own_nodes_ordered(f.node):
        if isinstance(n, (ast.ListComp, ast.GeneratorExp)):
            g = n.generators[0]
            src = g.iter
            collectors.append((n, n.elt, src, None))
        elif isinstance(n, ast.For):
            apps = [x for s in n.body for x in ast.walk(s) if isinstance(x, ast.Call) and isinstance(x.func, ast.Attribute) and x.func.attr == 'append']
            if apps:
                collectors.append((n, apps[0].args[0] if apps[0].args else None, n.iter, n))
    good = None
    for node, elt, src, loop in collectors:
        goal_gen = (isinstance(src, ast.Call) and em.is_binder_call(f, src)) or \
                   (isinstance(src, ast.Name) and any(isinstance(s, ast.Assign) and any(is_name(t, src.id) for t in s.targets) and
                                                     isinstance(s.value, ast.Call) and em.is_binder_call(f, s.value) for s in own_nodes(f.node)))
        if not goal_gen:
            continue
        if elt is None or not any(is_name(x, template) for x in ast.walk(elt)):
            continue
        if is_deref_call(elt) or (isinstance(elt, ast.Call) and isinstance(elt.func, ast.Attribute) and elt.func.attr in ('get_value',)) \
                or (isinstance(elt, ast.Call) and is_name(elt.func) and elt.func.id in ('copy_term',)):
            if loop is not None and any(isinstance(x, (ast.Break, ast.Return, ast.Yield)) for s in loop.body for x in ast.walk(s)):
                rep.violation(rid, key + ':collect', 'the collecting loop of findall can stop early or yields per answer', f.loc(node))
                good = False
            elif any(isinstance(g2, ast.comprehension) and g2.ifs for g2 in getattr(node, 'generators', [])):
                rep.violation(rid, key + ':collect', 'findall filters the answers it collects', f.loc(node))
                good = False
            else:
                good = node if good is None else good
        else:
            rep.violation(rid, key + ':collect', 'findall collects %s, not the value the template has at each answer: after the '
                          'goal is exhausted every element is the unbound template' % norm(elt), f.loc(node))
            good = False
    if good is None:
        rep.violation(rid, key + ':collect', 'no loop over the goal that collects get_value(template) per answer', f.loc())
        return
    if good is False:
        return
    rep.ok(rid, key + ':collect', 'collects %s for every answer' % norm(good.elt if hasattr(good, 'elt') else good), f.loc(good))
    # order-reversing wrappers between collection and unification
    src = norm(f.node)
    if any(w in src for w in ('reversed(', '[::-1]', '.reverse(', 'sorted(', '.sort(', 'set(')):
        rep.violation(rid, key + ':order', 'the collected answers are reordered or de-duplicated before they are unified with the bag', f.loc())
    unis = [n for n in own_nodes_ordered(f.node) if isinstance(n, ast.Call) and is_name(n.func, 'unify') and any(is_name(a, bag) for a in n.args)]
    if len(unis) != 1:
        rep.violation(rid, key + ':unify', '%d unifications with the bag (expected exactly one)' % len(unis), f.loc())
        return
    if unis[0].lineno < good.lineno:
        rep.violation(rid, key + ':unify', 'the bag is unified before the goal has been exhausted', f.loc(unis[0]))
        return
    rep.ok(rid, key + ':unify', 'one unification with the bag, after the collection', f.loc(unis[0]))


def rule_eq_is_unify(em, rep, rid):
    rep.rule(rid, 'the = builtin is the general unifier applied to its own two arguments: every iterator it runs or returns is a '
                  'call of the function that loaded code knows as unify, on the two parameters (as given, or dereferenced) - no '
                  'shortcut that calls the unify method of one side directly, which skips the dereferencing and the '
                  'self-binding test the general unifier does first')
    b = [x for x in em.builtins() if x['name'] == '=']
    if not b or b[0]['func'] is None:
        raise AnalysisError('anchor vanished: builtin = is not registered')
    root = em.engine.functions.get('unify')
    if root is None:
        raise AnalysisError('anchor vanished: engine.unify')
    keep = (root,) + tuple(g for g in em.engine.functions.values() if g.name == 'get_value')
    f = em.view(b[0]['func'], keep=keep)
    params = f.params[1:] if f.is_method else f.params
    if len(params) != 2:
        rep.violation(rid, f.qname, '= does not take two arguments', f.loc())
        return

    def origin(e, depth=0):
        """which parameter an expression stands for (through get_value and local copies)"""
        if depth > 4:
            return None
        if is_name(e) and e.id in params:
            return e.id
        if isinstance(e, ast.Call) and is_deref_call_local(em, f, e) and e.args:
            return origin(e.args[0], depth + 1)
        if is_name(e):
            defs = [s_ for s_ in own_nodes(f.node) if isinstance(s_, ast.Assign) and any(is_name(t, e.id) for t in s_.targets)]
            outs = {origin(s_.value, depth + 1) for s_ in defs}
            if len(outs) == 1:
                return outs.pop()
        return None
    n = 0
    for c in own_nodes_ordered(f.node):
        if not isinstance(c, ast.Call) or not em.is_binder_call(f, c):
            continue
        n += 1
        key = '%s:%s' % (f.qname, norm(c)[:50])
        cs = em.cg.resolve_callable(f, c.func)
        if cs and all(x is root for x in cs) and len(c.args) == 2 and {origin(a) for a in c.args} == set(params):
            rep.ok(rid, key, 'the general unifier on the two arguments', f.loc(c))
        else:
            rep.violation(rid, key, 'X = Y is not decided by unify(X, Y): %s is run instead, so = can bind where unification would '
                          'only compare (or miss the case that both sides are the same variable)' % norm(c)[:40], f.loc(c))
    if not n:
        rep.violation(rid, f.qname, '= never unifies its arguments', f.loc())


def is_deref_call_local(em, f, e):
    from .eng import is_deref_call
    return is_deref_call(e)


def rule_neq(em, rep, rid):
    rep.rule(rid, 'flag-product CFG of the \\= builtin: no yield is reachable once the body of the loop over the = goal has '
                  'been entered; a yield is reachable when that loop runs zero times')
    b = [x for x in em.builtins() if x['name'] == '\\=']
    if not b or b[0]['func'] is None:
        raise AnalysisError('anchor vanished: builtin \\= is not registered')
    f = b[0]['func']
    cfg = em.cfg(f)
    p = ProductCFG(cfg)
    loops = [s for s in own_nodes_ordered(f.node) if isinstance(s, ast.For) and isinstance(s.iter, ast.Call) and em.is_binder_call(f, s.iter)]
    key = f.qname
    if not loops:
        rep.violation(rid, key, '\\= never tries to unify its arguments', f.loc())
        return
    loop = loops[0]
    heads = [st for st in p.states if st[0].kind == 'fornext' and st[0].stmt is loop]

    def eok(lbl, a, b):
        return lbl not in ('exc', 'throw', 'close')
    bad = None
    zero_ok = False
    for h in heads:
        first = not any(lbl == 'loop' for lbl, _ in p.g.pred.get(h, ()))
        for lbl, m in p.g.succ.get(h, ()):
            if lbl == 'body':
                path = p.g.find_path(m, lambda st: st[0].kind in ('yield', 'yieldfrom'), edge_ok=eok)
                if path is not None:
                    bad = path
            if lbl == 'exhausted' and first:
                if p.g.find_path(m, lambda st: st[0].kind in ('yield', 'yieldfrom'), edge_ok=eok) is not None:
                    zero_ok = True
    if bad is not None:
        rep.violation(rid, key + ':unifiable', 'X \\= Y can succeed although X and Y unify (a yield is reachable after the = goal produced a solution)',
                      f.loc(loop), ' ; '.join('L%d:%s' % (st[0].lineno, st[0].kind) for _, st in bad if st[0].kind != 'join'))
    else:
        rep.ok(rid, key + ':unifiable', 'no yield once = has a solution', f.loc(loop))
    if zero_ok:
        rep.ok(rid, key + ':distinct', 'yields when = has no solution', f.loc(loop))
    else:
        rep.violation(rid, key + ':distinct', 'X \\= Y cannot succeed when X and Y do not unify (no yield on the zero-solution path)', f.loc(loop))
    # the inner goal must be '=' on the two parameters, in either order
    args = f.params[1:] if f.is_method else f.params
    it = loop.iter
    txt = norm(it)
    alias = {}
    for s in own_nodes(f.node):
        if isinstance(s, ast.Assign) and isinstance(s.value, ast.Name) and len(s.targets) == 1 and isinstance(s.targets[0], ast.Name):
            alias[s.targets[0].id] = s.value.id
    used = {alias.get(x.id, x.id) for x in ast.walk(it) if isinstance(x, ast.Name)}
    if set(args) <= used:
        rep.ok(rid, key + ':operands', 'unifies its two arguments (%s)' % txt, f.loc(loop))
    else:
        rep.violation(rid, key + ':operands', '\\= does not test the unifiability of its own two arguments (%s)' % txt, f.loc(loop))


# ---------------------------------------------------------------------------------------------
# C14


class StoreModel:
    """who reads, publishes and walks the clause lists of the fact store"""

    def __init__(self, em):
        self.em = em
        self.field = None
        self.publishers = []
        self.readers = []
        for f in em.repo.all_functions(('engine',)):
            for n in own_nodes(f.node):
                if isinstance(n, ast.Subscript) and isinstance(n.ctx, ast.Store) and is_self_attr(n.value) and \
                        isinstance(getattr(n, '_parent', None), ast.Assign) and isinstance(n._parent.value, ast.Name) and \
                        n._parent.value.id in f.params and n.value.attr not in ('eval_context',) and f.cls is em.YP and \
                        ('predicate' in n.value.attr or isinstance(n.slice, ast.Tuple)):
                    self.field = n.value.attr
                    self.publishers.append((f, n._parent.value.id))
        if self.field is None:
            raise AnalysisError('anchor vanished: no function publishes a clause list into a predicates store')
        # wrappers: a function that hands one of its own parameters straight to a publisher publishes it as well
        changed = True
        while changed:
            changed = False
            for f in em.repo.all_functions(('engine',)):
                for c, cs in em.cg.calls.get(f, ()):
                    for pf, pname in list(self.publishers):
                        if pf in cs and pf is not f:
                            a = arg_for_param(c, pf, pname)
                            if isinstance(a, ast.Name) and a.id in f.params and (f, a.id) not in self.publishers:
                                self.publishers.append((f, a.id))
                                changed = True
        for f in em.repo.all_functions(('engine',)):
            for n in own_nodes(f.node):
                if isinstance(n, ast.Return) and n.value is not None and self._is_store_read(n.value):
                    if f not in self.readers:
                        self.readers.append(f)

    def _is_store_read(self, e):
        if isinstance(e, ast.Subscript) and is_self_attr(e.value, self.field):
            return True
        if isinstance(e, ast.Call) and isinstance(e.func, ast.Attribute) and e.func.attr in ('get', 'setdefault') and is_self_attr(e.func.value, self.field):
            return True
        return False

    def is_reader_call(self, f, e):
        if self._is_store_read(e):
            return True
        if isinstance(e, ast.Call):
            return any(c in self.readers for c in self.em.cg.resolve_callable(f, e.func))
        return False

    def is_copy_of_read(self, f, e):
        """x[:] / list(x) / x + [...] / [...] + x / comprehension over a read"""
        if isinstance(e, ast.Subscript) and isinstance(e.slice, ast.Slice) and self.is_reader_call(f, e.value):
            return True
        if isinstance(e, ast.Call) and is_name(e.func) and e.func.id in ('list', 'tuple', 'sorted') and e.args and self.is_reader_call(f, e.args[0]):
            return True
        return False

    def publish_calls(self, f):
        out = []
        for c, cs in self.em.cg.calls.get(f, ()):
            for pf, pname in self.publishers:
                if pf in cs:
                    a = arg_for_param(c, pf, pname)
                    out.append((c, a))
        return out

    def alias_locals(self, f, param_alias):
        """locals of f that may be the very list object held in the store"""
        al = set(param_alias.get(f, ()))
        changed = True
        while changed:
            changed = False
            for s in own_nodes(f.node):
                if isinstance(s, ast.Assign) and len(s.targets) == 1 and isinstance(s.targets[0], ast.Name):
                    t = s.targets[0].id
                    if t in al:
                        continue
                    v = s.value
                    if self.is_reader_call(f, v) or (isinstance(v, ast.Name) and v.id in al):
                        al.add(t)
                        changed = True
        return al

    def solve_aliases(self):
        """fix-point: parameters that receive a store alias from some call site"""
        param_alias = {}
        changed = True
        while changed:
            changed = False
            for f in self.em.repo.all_functions(('engine',)):
                al = self.alias_locals(f, param_alias)
                for c, cs in self.em.cg.calls.get(f, ()):
                    for callee in cs:
                        if callee.module.name != 'engine':
                            continue
                        for q in term_params_of(callee):
                            a = arg_for_param(c, callee, q)
                            if a is None:
                                continue
                            if (isinstance(a, ast.Name) and a.id in al) or self.is_reader_call(f, a):
                                if q not in param_alias.setdefault(callee, set()):
                                    param_alias[callee].add(q)
                                    changed = True
        return param_alias


_MUTATORS = ('append', 'insert', 'extend', 'remove', 'pop', 'sort', 'clear', 'reverse')


def inplace_mutations(f, name):
    out = []
    for n in own_nodes_ordered(f.node):
        if isinstance(n, ast.Call) and isinstance(n.func, ast.Attribute) and is_name(n.func.value, name) and n.func.attr in _MUTATORS:
            out.append(n)
        elif isinstance(n, ast.Subscript) and is_name(n.value, name) and isinstance(n.ctx, (ast.Store, ast.Del)):
            out.append(n)
        elif isinstance(n, ast.AugAssign) and is_name(n.target, name):
            out.append(n)
    return out


def rule_frozen_lists(em, rep, rid):
    rep.rule(rid, 'clause lists held in the store are copy-on-write (no in-place mutation of a store-aliased list, nor of a '
                  'list after it was published) or every suspendable loop over a store alias walks a copy; violation iff a '
                  'suspendable walk over an un-copied alias AND an in-place mutation of an alias both exist')
    sm = StoreModel(em)
    pa = sm.solve_aliases()
    rep.analysed_add('store', dict(field=sm.field, publishers=[f.qname for f, _ in sm.publishers], readers=[f.qname for f in sm.readers]))
    rep.minimum('store readers', len(sm.readers), 1)
    walks, muts = [], []
    npub = 0
    for f in em.repo.all_functions(('engine',)):
        al = sm.alias_locals(f, pa)
        # suspendable walks
        if f.is_generator:
            for s in own_nodes_ordered(f.node):
                if isinstance(s, ast.For) and any(isinstance(x, (ast.Yield, ast.YieldFrom)) for b in s.body for x in ast.walk(b)):
                    it = s.iter
                    if (isinstance(it, ast.Name) and it.id in al) or sm.is_reader_call(f, it):
                        walks.append((f, s))
                if isinstance(s, ast.While) and any(isinstance(x, (ast.Yield, ast.YieldFrom)) for b in s.body for x in ast.walk(b)):
                    for x in ast.walk(s):
                        if isinstance(x, ast.Subscript) and isinstance(x.ctx, ast.Load) and isinstance(x.value, ast.Name) and x.value.id in al:
                            walks.append((f, s))
                            break
        # in-place mutation of reader aliases
        for name in sorted(al):
            for m in inplace_mutations(f, name):
                muts.append((f, m, 'a list read from the store'))
        # mutation after publish
        cfg = None
        for c, a in sm.publish_calls(f):
            npub += 1
            if isinstance(a, ast.Name):
                ms = inplace_mutations(f, a.id)
                if not ms:
                    continue
                cfg = cfg or em.cfg(f)
                pn = [n for n in em.nodes_for(f, c) if n.kind == 'call' and n.ast is c]
                fresh = [x for x in cfg.nodes if x.kind == 'store' and is_name(x.ast, a.id) and
                         isinstance(x.info, (ast.List, ast.ListComp, ast.Call, ast.BinOp))]
                for m in ms:
                    mn = em.nodes_for(f, m)
                    # reachable from the publish without the name being bound to a new list in between
                    if pn and mn and any(cfg.g.find_path(p0, lambda z, mn=mn: z in mn, avoid=lambda z: z in fresh,
                                                         edge_ok=lambda l, a_, b_: l not in ('exc',)) is not None for p0 in pn):
                        muts.append((f, m, 'a list that has already been published to the store'))
    rep.minimum('publishing call sites', npub, 2)
    if walks and muts:
        for f, m, what in muts:
            w = walks[0]
            rep.violation(rid, '%s:%s' % (f.qname, norm(m)), 'in-place change of %s, while %s walks the store\'s own list object '
                          'across yields ("%s"): an enumeration that is suspended sees facts added or removed meanwhile' % (
                              what, w[0].qname, norm(w[1]).split(':')[0]), f.loc(m),
                          'walk: %s %s' % (w[0].loc(w[1]), norm(w[1]).split(':')[0]))
    else:
        for f, s in walks:
            rep.ok(rid, '%s:%s' % (f.qname, norm(s).split(':')[0]), 'suspendable walk over a store alias; no in-place mutation of any alias exists (copy-on-write)', f.loc(s))
        for f, m, what in muts:
            rep.ok(rid, '%s:%s' % (f.qname, norm(m)), 'in-place mutation, but no suspendable walk over an un-copied alias exists (snapshot discipline)', f.loc(m))
        if not walks and not muts:
            rep.ok(rid, 'store', 'neither suspendable walks over aliases nor in-place mutations', None, nontrivial=False)
    return sm, pa


class FieldOrigins:
    """which engine fields a list-valued expression may come out of (the container held in ``self.F`` or anything inside
    it), through locals, loop targets, helper results and parameters (call sites); copies (a + b, list(x), x[:], a
    comprehension) come out of no field"""

    def __init__(self, em):
        self.em = em
        self.memo = {}

    def of(self, f, e, depth=0, seen=None):
        seen = seen if seen is not None else set()
        em = self.em
        if e is None or depth > 8:
            return set()
        if isinstance(e, ast.Attribute):
            if is_self_attr(e):
                return {e.attr}
            return self.of(f, e.value, depth + 1, seen)
        if isinstance(e, ast.Subscript):
            if isinstance(e.slice, ast.Slice):
                return set()
            return self.of(f, e.value, depth + 1, seen)
        if isinstance(e, (ast.IfExp,)):
            return self.of(f, e.body, depth + 1, seen) | self.of(f, e.orelse, depth + 1, seen)
        if isinstance(e, ast.BoolOp):
            out = set()
            for v in e.values:
                out |= self.of(f, v, depth + 1, seen)
            return out
        if isinstance(e, ast.Call):
            if isinstance(e.func, ast.Attribute) and e.func.attr in ('get', 'setdefault', 'pop', 'values', 'items', '__getitem__'):
                out = self.of(f, e.func.value, depth + 1, seen)
                if e.func.attr in ('get', 'setdefault') and len(e.args) > 1:
                    out |= self.of(f, e.args[1], depth + 1, seen)
                return out
            if isinstance(e.func, ast.Name) and e.func.id in ('list', 'tuple', 'sorted', 'reversed', 'set', 'dict', 'len'):
                return set()
            out = set()
            for g in em.cg.resolve_callable(f, e.func):
                if g.module.name == 'engine' and g.is_generator and ('gen', g) not in seen:
                    # a generator that hands on the elements of a list while it is suspended is a walk over that list
                    seen.add(('gen', g))
                    for y in own_nodes(g.node):
                        if isinstance(y, ast.YieldFrom):
                            out |= self.of(g, y.value, depth + 1, seen)
                        if isinstance(y, ast.For) and any(isinstance(z, ast.Yield) for b in y.body for z in ast.walk(b)):
                            out |= self.of(g, y.iter, depth + 1, seen)
                    continue
                if g.module.name != 'engine' or g.is_generator or g.name == '__init__':
                    continue
                key = ('ret', g)
                if key in seen:
                    continue
                seen.add(key)
                for r in own_nodes(g.node):
                    if isinstance(r, ast.Return) and r.value is not None:
                        out |= self.of(g, r.value, depth + 1, seen)
            return out
        if isinstance(e, ast.Name):
            key = (f, e.id)
            if key in seen:
                return set()
            seen.add(key)
            out = set()
            if e.id in f.all_params:
                for g, call in em.cg.call_sites_of(f):
                    a = arg_for_param(call, f, e.id)
                    if a is not None:
                        out |= self.of(g, a, depth + 1, seen)
            for s_ in own_nodes(f.node):
                if isinstance(s_, ast.Assign) and any(is_name(t, e.id) for t in s_.targets):
                    out |= self.of(f, s_.value, depth + 1, seen)
                if isinstance(s_, ast.Assign) and any(isinstance(t, (ast.Tuple, ast.List)) and any(is_name(x, e.id) for x in t.elts) for t in s_.targets):
                    out |= self.of(f, s_.value, depth + 1, seen)
                if isinstance(s_, (ast.For, ast.comprehension)) and any(is_name(x, e.id) for x in ast.walk(s_.target)):
                    out |= self.of(f, s_.iter, depth + 1, seen)
                if isinstance(s_, ast.NamedExpr) and is_name(s_.target, e.id):
                    out |= self.of(f, s_.value, depth + 1, seen)
            return out
        return set()


def rule_walked_lists_never_changed_in_place(em, rep, rid):
    rep.rule(rid, 'whatever list a suspendable enumeration walks comes out of engine state (the store, or any other field that '
                  'holds clause lists: an index, a cache) only if no list inside that field is ever changed in place '
                  '(append/insert/extend/remove/pop/sort/reverse, element or slice assignment, +=): a goal suspended between '
                  'two answers would otherwise visit facts added, or skip facts removed, after it started')
    fo = FieldOrigins(em)
    walks = []
    for f in em.repo.all_functions(('engine',)):
        if not f.is_generator:
            continue
        for s_ in own_nodes_ordered(f.node):
            if isinstance(s_, ast.For) and any(isinstance(x, (ast.Yield, ast.YieldFrom)) for b in s_.body for x in ast.walk(b)):
                flds = fo.of(f, s_.iter)
                if flds:
                    walks.append((f, s_, flds))
            if isinstance(s_, ast.Expr) and isinstance(s_.value, ast.YieldFrom):
                flds = fo.of(f, s_.value.value)
                if flds and not (isinstance(s_.value.value, ast.Call) and any(
                        g.is_generator for g in em.cg.resolve_callable(f, s_.value.value.func))):
                    # yield from <list out of engine state>: suspended between two elements of that list
                    s_.iter = s_.value.value
                    walks.append((f, s_, flds))
    muts = []
    for f in em.repo.all_functions(('engine',)):
        for x in own_nodes_ordered(f.node):
            recv = None
            if isinstance(x, ast.Call) and isinstance(x.func, ast.Attribute) and x.func.attr in _MUTATORS:
                recv = x.func.value
            elif isinstance(x, ast.Subscript) and isinstance(x.ctx, (ast.Store, ast.Del)):
                recv = x.value
            elif isinstance(x, ast.AugAssign) and isinstance(x.op, ast.Add) and not isinstance(x.target, ast.Subscript):
                recv = x.target if not is_self_attr(x.target) else None
            if recv is None or is_self_attr(recv):
                continue            # the field's own container (publishing an entry) is not a list inside it
            flds = fo.of(f, recv)
            if flds:
                muts.append((f, x, flds))
    rep.minimum('suspendable walks over engine state', len(walks), 1)
    # objects that stand in for a list: a class of the engine that is iterable through __iter__/__getitem__ over a field which
    # another of its methods re-binds or changes is a *live view* - a loop over it sees every later change
    live = {}
    for k_ in em.repo.all_classes(('engine',)):
        readers = [k_.methods[m] for m in ('__getitem__', '__iter__') if m in k_.methods]
        if not readers:
            continue
        read = {x.attr for r_ in readers for x in own_nodes(r_.node) if isinstance(x, ast.Attribute) and is_name(x.value, r_.params[0]) and isinstance(x.ctx, ast.Load)}
        for m in k_.methods.values():
            if m.name == '__init__':
                continue
            for x in own_nodes(m.node):
                tgt = None
                if isinstance(x, ast.Attribute) and isinstance(x.ctx, ast.Store) and is_name(x.value, m.params[0] if m.params else 'self'):
                    tgt = x.attr
                elif isinstance(x, ast.Call) and isinstance(x.func, ast.Attribute) and x.func.attr in _MUTATORS and \
                        isinstance(x.func.value, ast.Attribute) and is_name(x.func.value.value, m.params[0] if m.params else 'self'):
                    tgt = x.func.value.attr
                if tgt in read:
                    live[k_.name] = (k_, m, tgt)
    if live:
        for f, s_, wf in walks:
            for g in em.repo.all_functions(('engine',)):
                for x in own_nodes_ordered(g.node):
                    val = None
                    if isinstance(x, ast.Assign) and any(isinstance(t, ast.Subscript) and is_self_attr(t.value) and t.value.attr in wf for t in x.targets):
                        val = x.value
                    elif isinstance(x, ast.Call) and isinstance(x.func, ast.Attribute) and x.func.attr == 'setdefault' and \
                            is_self_attr(x.func.value) and x.func.value.attr in wf and len(x.args) > 1:
                        val = x.args[1]
                    if isinstance(val, ast.Call) and is_name(val.func) and val.func.id in live:
                        k_, m, tgt = live[val.func.id]
                        rep.violation(rid, '%s:for %s:live view' % (f.qname, norm(s_.iter)[:30]), 'this suspendable loop may walk a %s object '
                                      'held in self.%s: it is iterated through %s over its field %s, which %s re-binds - the loop follows '
                                      'every change made while it is suspended instead of the facts as they were when it started'
                                      % (k_.name, ', self.'.join(sorted(wf)), '/'.join(r_ for r_ in ('__getitem__', '__iter__') if r_ in k_.methods), tgt, m.qname), f.loc(s_))
    bad = 0
    for f, s_, wf in walks:
        hit = [(g, x, mf) for g, x, mf in muts if wf & mf]
        key = '%s:for %s' % (f.qname, norm(s_.iter)[:40])
        if hit:
            bad += 1
            g, x, mf = hit[0]
            rep.violation(rid, key, 'this suspendable loop walks a list that comes out of self.%s, and %s changes a list inside '
                          'self.%s in place (%s): the running enumeration sees the change' % (
                              ', self.'.join(sorted(wf & mf)), g.qname, ', self.'.join(sorted(wf & mf)), norm(x)[:50]), f.loc(s_))
        else:
            rep.ok(rid, key, 'walks lists out of %s, which are never changed in place' % ', '.join('self.' + k for k in sorted(wf)), f.loc(s_))


def rule_no_read_yield_write(em, rep, rid, sm=None):
    rep.rule(rid, 'in every generator that publishes to the store, the published list derives only from store reads made '
                  'after the most recent yield on that path (otherwise changes made by others while suspended are lost)')
    sm = sm or StoreModel(em)
    n = 0
    for f in em.repo.all_functions(('engine',)):
        if not f.is_generator:
            continue
        pubs = sm.publish_calls(f)
        if not pubs:
            continue
        cfg = em.cfg(f)
        for c, a in pubs:
            n += 1
            key = '%s:%s' % (f.qname, norm(c))
            # reader call nodes whose value flows into the published argument
            srcs = _source_reads(em, sm, f, a)
            pn = [x for x in em.nodes_for(f, c) if x.kind == 'call' and x.ast is c]
            ys = [x for x in cfg.nodes if x.kind in ('yield', 'yieldfrom')]
            bad = None
            for y in ys:
                for p_ in pn:
                    path = cfg.g.find_path(y, lambda m: m is p_, avoid=lambda m: m in srcs,
                                           edge_ok=lambda l, x, z: l not in ('exc', 'throw', 'close'))
                    if path is not None:
                        bad = path
                        break
                if bad:
                    break
            if bad:
                rep.violation(rid, key, 'after a suspension the generator publishes a list computed from a read made before it '
                              'suspended: facts asserted or retracted by others meanwhile are overwritten (lost update)', f.loc(c),
                              cfg.describe_path(bad))
            elif not srcs:
                rep.violation(rid, key, 'the published list is not derived from a read of the store at all', f.loc(c))
            else:
                rep.ok(rid, key, 'published value re-derived from a fresh read after every yield (%d read site(s))' % len(srcs), f.loc(c))
    rep.minimum('publish sites inside generators', n, 1)


def _is_derived_reader_call(em, sm, f, x, depth=0):
    """a call of a plain helper every result of which is None or computed from a store read made inside the helper (a
    "current list without this clause" helper): its result is as fresh as the call"""
    if not isinstance(x, ast.Call) or depth > 2:
        return False
    cs = [c for c in em.cg.resolve_callable(f, x.func) if c.module.name == 'engine']
    if not cs:
        return False
    for g in cs:
        if g.is_generator or g is f:
            return False
        rets = [n for n in own_nodes(g.node) if isinstance(n, ast.Return)]
        vals = [n.value for n in rets if n.value is not None and not (isinstance(n.value, ast.Constant) and n.value.value is None)]
        if not vals or not all(_source_reads(em, sm, g, v, depth + 1) for v in vals):
            return False
    return True


def _presence_filter_call(em, f, call, loopvars):
    """``g(.., clause, ..)`` where g returns something other than None only under a test that its parameter for ``clause``
    is (still) among what it read - so ``result is not None`` is a presence test on the clause"""
    cs = [c for c in em.cg.resolve_callable(f, call.func) if c.module.name == 'engine']
    if not cs:
        return False
    for g in cs:
        if g.is_generator or g is f:
            return False
        qs = [q for q in (g.params[1:] if g.is_method else g.params) if is_name(arg_for_param(call, g, q)) and arg_for_param(call, g, q).id in loopvars]
        if not qs:
            return False
        rets = [n for n in own_nodes(g.node) if isinstance(n, ast.Return)]
        some = [n for n in rets if n.value is not None and not (isinstance(n.value, ast.Constant) and n.value.value is None)]
        if not some or len(some) == len(rets) and not _falls_off(g):
            return False
        for n in some:
            guarded = False
            for p in parents(n):
                if isinstance(p, (ast.FunctionDef, ast.Lambda)):
                    break
                if isinstance(p, ast.If) and any(is_name(y) and y.id in qs for y in ast.walk(p.test)) and \
                        (' in ' in norm(p.test) or ' is ' in norm(p.test)) and ' not in ' not in norm(p.test) and ' is not ' not in norm(p.test) and \
                        any(n is b or any(n is y for y in ast.walk(b)) for b in p.body):
                    guarded = True
            if not guarded:
                return False
    return True


def _falls_off(g):
    last = g.node.body[-1]
    return not isinstance(last, (ast.Return, ast.Raise))


def _source_reads(em, sm, f, a, depth=0):
    """CFG nodes of reader calls whose result flows (through local assignments) into expression a"""
    cfg = em.cfg(f)
    out = set()
    if a is None or depth > 4:
        return out
    for x in ast.walk(a):
        if isinstance(x, (ast.Call, ast.Subscript)) and (sm.is_reader_call(f, x) or _is_derived_reader_call(em, sm, f, x, depth)):
            for n in em.nodes_for(f, x):
                out.add(n)
        if isinstance(x, ast.Name) and isinstance(x.ctx, ast.Load):
            for s in own_nodes(f.node):
                if isinstance(s, ast.Assign) and any(is_name(t, x.id) for t in s.targets):
                    if sm.is_reader_call(f, s.value) or sm.is_copy_of_read(f, s.value):
                        for n in cfg.nodes:
                            if n.kind == 'store' and n.stmt is s:
                                out.add(n)
                    else:
                        # a value derived from other locals is as fresh as the reads those locals came from
                        out |= _source_reads(em, sm, f, s.value, depth + 1)
                if isinstance(s, ast.For) and any(is_name(t, x.id) for t in ast.walk(s.target)):
                    # an element of what the loop iterates: as fresh as that
                    out |= _source_reads(em, sm, f, s.iter, depth + 1)
            # a list filled element by element: as fresh as the loops it is filled in and the values put into it
            for c in own_nodes(f.node):
                if isinstance(c, ast.Call) and isinstance(c.func, ast.Attribute) and is_name(c.func.value, x.id) and \
                        c.func.attr in ('append', 'extend', 'insert') and c.args:
                    out |= _source_reads(em, sm, f, c.args[-1], depth + 1)
                    for p in parents(c):
                        if isinstance(p, ast.For):
                            out |= _source_reads(em, sm, f, p.iter, depth + 1)
                        if isinstance(p, (ast.FunctionDef, ast.Lambda)):
                            break
    return out


def rule_remove_by_identity(em, rep, rid, sm=None):
    rep.rule(rid, 'a generator that publishes a shortened list removes the clause object it matched (identity filter, '
                  'guarded remove, index under try/except) - not a position computed before a suspension - and the yield that '
                  'reports a removal is dominated by a test that the clause is still in the freshly read list')
    sm = sm or StoreModel(em)
    n = 0
    fact = em.repo.cls('engine', 'Answer')
    by_value = em.repo.lookup_method(fact, '__eq__')
    for f in em.repo.all_functions(('engine',)):
        if not f.is_generator or not sm.publish_calls(f):
            continue
        if by_value is not None:
            # membership, remove(), index(), count(), == on clause objects use Answer.__eq__: equal facts are taken for the same fact
            loopv = {x.id for s in own_nodes(f.node) if isinstance(s, ast.For) for x in ast.walk(s.target) if isinstance(x, ast.Name)}
            for x in own_nodes_ordered(f.node):
                hit = None
                if isinstance(x, ast.Compare) and isinstance(x.ops[0], (ast.In, ast.NotIn, ast.Eq, ast.NotEq)) and is_name(x.left) and x.left.id in loopv:
                    hit = x
                if isinstance(x, ast.Call) and isinstance(x.func, ast.Attribute) and x.func.attr in ('remove', 'index', 'count') and x.args and \
                        is_name(x.args[0]) and x.args[0].id in loopv:
                    hit = x
                if hit is not None:
                    rep.violation(rid, '%s:%s' % (f.qname, norm(hit)), 'the clause to remove is found by equality (%s uses %s.__eq__, which compares '
                                  'contents): a different fact with the same arguments - e.g. one added while the retract was suspended - is '
                                  'taken for the one that was matched, and is removed or reported in its place' % (norm(hit)[:40], fact.name), f.loc(hit))
        n += 1
        cfg = em.cfg(f)
        key = f.qname
        # positional deletions
        pos = []
        for x in own_nodes_ordered(f.node):
            if isinstance(x, ast.Subscript) and isinstance(x.ctx, ast.Del) and not isinstance(x.slice, ast.Slice):
                pos.append((x, x.slice))
            if isinstance(x, ast.Call) and isinstance(x.func, ast.Attribute) and x.func.attr == 'pop' and x.args:
                pos.append((x, x.args[0]))
        bad = False
        for node, idx in pos:
            if not isinstance(idx, ast.Name):
                continue
            # index defined before a yield and used after it without redefinition
            uses = em.nodes_for(f, node)
            for y in [m for m in cfg.nodes if m.kind in ('yield', 'yieldfrom')]:
                for u in uses:
                    p = cfg.g.find_path(y, lambda m: m is u, avoid=lambda m: m.kind == 'store' and is_name(m.ast, idx.id) and
                                        not isinstance(m.info, ast.AugAssign),
                                        edge_ok=lambda l, a, b: l not in ('exc', 'throw', 'close'))
                    if p is not None and not bad:
                        bad = True
                        rep.violation(rid, '%s:%s' % (key, norm(node)), 'removal by a position (%s) carried across a suspension: if the '
                                      'predicate changed meanwhile a different fact is removed, or one is removed twice' % idx.id,
                                      f.loc(node), cfg.describe_path(p))
        if bad:
            continue
        # membership guard before the reporting yield
        pubs = [c for c, a in sm.publish_calls(f)]
        loopvars = set()
        for s in own_nodes(f.node):
            if isinstance(s, ast.For) and not (isinstance(s.iter, ast.Call) and em.is_binder_call(f, s.iter)):
                loopvars |= {x.id for x in ast.walk(s.target) if isinstance(x, ast.Name)}
        dom = cfg.g.dominators(cfg.entry)
        ok_all = True
        for c in pubs:
            pn = [m for m in em.nodes_for(f, c) if m.kind == 'call' and m.ast is c]
            for p_ in pn:
                def presence_test(e):
                    return any(is_name(x) and x.id in loopvars for x in ast.walk(e)) and \
                        (' in ' in norm(e) or ' is ' in norm(e) or 'index' in norm(e))
                guards = [t for t in dom[p_] if t.kind == 'test' and presence_test(t.ast)]
                if not guards:
                    # ``rest = [c for c in cur if c is not clause]; if len(rest) != len(cur):`` - shorter exactly when present
                    for t in dom[p_]:
                        e = t.ast if t.kind == 'test' else None
                        if isinstance(e, ast.Compare) and len(e.ops) == 1 and isinstance(e.ops[0], (ast.NotEq, ast.Lt, ast.Gt, ast.Eq, ast.LtE, ast.GtE)):
                            sides = [e.left, e.comparators[0]]
                            if all(isinstance(x, ast.Call) and is_name(x.func, 'len') and len(x.args) == 1 and is_name(x.args[0]) for x in sides):
                                a_, b_ = sides[0].args[0].id, sides[1].args[0].id
                                for short, full in ((a_, b_), (b_, a_)):
                                    defs = [s_ for s_ in own_nodes(f.node) if isinstance(s_, ast.Assign) and any(is_name(tg, short) for tg in s_.targets)]
                                    if defs and all(isinstance(s_.value, ast.ListComp) and len(s_.value.generators) == 1 and
                                                    is_name(s_.value.generators[0].iter, full) and
                                                    any(isinstance(c_, ast.Compare) and isinstance(c_.ops[0], ast.IsNot) and
                                                        any(is_name(y) and y.id in loopvars for y in ast.walk(c_))
                                                        for c_ in s_.value.generators[0].ifs) for s_ in defs):
                                        guards.append(t)
                if not guards:
                    # ``x = helper(.., clause); if x is not None:`` where the helper returns a value only when the clause is present
                    for t in dom[p_]:
                        e = t.ast if t.kind == 'test' else None
                        if isinstance(e, ast.Compare) and len(e.ops) == 1 and isinstance(e.ops[0], ast.IsNot) and is_name(e.left) and \
                                isinstance(e.comparators[0], ast.Constant) and e.comparators[0].value is None:
                            sets = [s_ for s_ in own_nodes(f.node) if isinstance(s_, ast.Assign) and any(is_name(tg, e.left.id) for tg in s_.targets)]
                            if sets and all(isinstance(s_.value, ast.Call) and _presence_filter_call(em, f, s_.value, loopvars) for s_ in sets):
                                # the true branch must be the one that leads to the publish
                                guards.append(t)
                if not guards:
                    # a flag that is set only under such a test (found = False; for c in fresh: if c is clause: found = True)
                    for t in dom[p_]:
                        if t.kind == 'test' and isinstance(t.ast, ast.Name):
                            sets = [s for s in own_nodes(f.node) if isinstance(s, ast.Assign) and any(is_name(tg, t.ast.id) for tg in s.targets)]
                            trues = [s for s in sets if not (isinstance(s.value, ast.Constant) and s.value.value in (False, None, 0))]
                            if trues and all(any(isinstance(p, ast.If) and presence_test(p.test) and any(s is b or any(s is y for y in ast.walk(b)) for b in p.body)
                                                 for p in parents(s)) for s in trues):
                                guards.append(t)
                if not guards:
                    ok_all = False
        if ok_all and pubs:
            rep.ok(rid, key, 'removal by identity, guarded by a presence test on the fresh list', f.loc())
        elif pubs:
            rep.violation(rid, key + ':guard', 'the publish/yield that reports a removal is not guarded by a test that the matched '
                          'clause is still present: a fact removed meanwhile is removed or returned twice', f.loc(pubs[0]))
    rep.minimum('publishing generators (retract)', n, 1)
