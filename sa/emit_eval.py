"""Layer E - the emitter evaluated on concrete code trees.

When the emitter cannot be turned into per-class templates (sa/templates.py: state that crosses node
boundaries, helper predicates over whole bodies, tables), its source is evaluated instead by the checker's
own evaluator (sa/symex.py) on each sample tree: every string operation of the emitter is on constants
then, and the result is the exact text the source describes for that tree.  Same interface as
TemplateSet for the rules that only need the text (render_node / render_program).  Nothing of the
repository is imported or run.
"""
import ast

from .model import AnalysisError
from .symex import SymEx, Sym, Const, New, ListV, DictV, CallV, PathState, SelfV, Opaque
from .templates import Node, RenderError, RenderRaises


class _Ctx:
    """the options object handed to the emitter: attribute reads give the sample option values"""

    def __init__(self, values):
        self.values = dict(values)

    def __repr__(self):
        return 'ctx'


class _SX(SymEx):
    def attr(self, b, name, st, func, node):
        if isinstance(b, _Ctx):
            v = b.values.get(name, '')
            return Const(v)
        return SymEx.attr(self, b, name, st, func, node)


class ConcreteEmitter:
    def __init__(self, repo, gen_cls=None, module='yp_generator', why=''):
        self.repo = repo
        self.module = module
        self.gen_cls = gen_cls or repo.cls(module, 'YPPythonCodeGenerator')
        self.why = why
        mods = ('yp_generator', 'yp_prolog_visitor')
        self.sx = _SX(repo, inline=lambda f: f.module.name in mods and f.name != '_debug', opaque=lambda n: False, max_depth=100000)
        self.sx.max_steps = 5000000
        self.problems = []
        self._classes = {c.name: c for c in repo.all_classes((module, 'yp_prolog_visitor'))}
        self._init_cache = {}

    # -- sample trees -> evaluator values --------------------------------------------------
    def value(self, v):
        if isinstance(v, Node):
            ci = self._classes.get(v.cls)
            if ci is None:
                raise RenderError('no class %s' % v.cls)
            init = self.repo.lookup_method(ci, '__init__')
            params = init.params[1:] if init is not None else []
            # constructor parameter for each field: self.<field> = <param>
            fld_of = {}
            if init is not None:
                for n in ast.walk(init.node):
                    if isinstance(n, ast.Assign) and isinstance(n.value, ast.Name) and n.value.id in params:
                        for t in n.targets:
                            if isinstance(t, ast.Attribute) and isinstance(t.value, ast.Name) and t.value.id == init.params[0]:
                                fld_of[n.value.id] = t.attr
            args = []
            for p in params:
                f = fld_of.get(p, p)
                if f in v.fields:
                    args.append(self.value(v.fields[f]))
                elif p in v.fields:
                    args.append(self.value(v.fields[p]))
                else:
                    break
            obj = New(ci, args)
            extra = {k: self.value(x) for k, x in v.fields.items() if k not in fld_of.values() and k not in params}
            if extra:
                obj.fields = extra
            return obj
        if isinstance(v, list):
            return ListV([self.value(x) for x in v])
        if isinstance(v, tuple):
            return ListV([self.value(x) for x in v], True)
        return Const(v)

    def state(self, context, ind, loop):
        st = PathState()
        init = self.repo.lookup_method(self.gen_cls, '__init__')
        ctx = _Ctx(context or {})
        if init is not None:
            outs = self.sx.run(init, [ctx], st)
            if len(outs) != 1:
                raise AnalysisError('the constructor of the emitter does not evaluate to one state')
            st = outs[0][0]
        for fld, v in (('indentation', ind), ('loop_level', loop)):
            if fld in st.fields and isinstance(st.fields[fld], Const) and isinstance(st.fields[fld].v, int):
                st.fields[fld] = Const(st.fields[fld].v + v)
            elif v:
                raise AnalysisError('the emitter has no integer field %s to place a sample tree at a depth' % fld)
        return st

    def _finish(self, outs, what):
        if len(outs) != 1:
            raise AnalysisError('the emitter does not evaluate deterministically on %s (%d outcomes)' % (what, len(outs)))
        st, v = outs[0]
        if isinstance(v, CallV) and v.name == 'raise':
            raise RenderRaises('the emitter raises (%s)' % ', '.join(map(repr, v.args)))
        if isinstance(v, Const) and isinstance(v.v, str):
            return v.v
        raise RenderError('the emitter gives %r, not text' % (v,))

    # -- TemplateSet interface -----------------------------------------------------------------
    def render_node(self, node, ind=0, loop=0, context=None):
        obj = self.value(node)
        st = self.state(context, ind, loop)
        m = self.repo.lookup_method(obj.cls, 'generate')
        if m is None:
            raise RenderError('no template for class %s' % node.cls)
        self.sx.steps = 0
        outs = self.sx.run(m, [obj, SelfV(self.gen_cls)], st, with_self=True)
        return self._finish(outs, 'a %s' % node.cls)

    def render_program(self, node, context=None):
        obj = self.value(node)
        st = self.state(context, 0, 0)
        m = self.repo.lookup_method(self.gen_cls, 'generate')
        if m is None:
            raise AnalysisError('anchor vanished: %s.generate' % self.gen_cls.name)
        self.sx.steps = 0
        outs = self.sx.run(m, [obj], st)
        return self._finish(outs, 'a program')
