"""Rules about the compiler front end: lexer/parser error handling, end of input, CLI (C10, parts
of C19)."""
import ast
import os

from .model import AnalysisError, own_nodes, own_nodes_ordered, is_name, is_self_attr, norm, parents
from .cfg import CFG, ExcMatcher
from .grammar import Grammar, GeneratedParser, cross_check


def load_grammar(repo):
    g = Grammar(os.path.join(repo.srcdir, 'prolog.g4'))
    gp = GeneratedParser(os.path.join(repo.srcdir, 'prologParser.py'))
    problems = cross_check(g, gp)
    if problems:
        raise AnalysisError('prolog.g4 and the generated parser disagree (the parser cannot be regenerated here): ' + '; '.join(problems))
    return g, gp


def _constructs_lexer(f):
    return any(isinstance(n, ast.Call) and isinstance(n.func, ast.Name) and n.func.id.endswith('Lexer') for n in own_nodes(f.node))


def pipeline_function(em):
    """the compile pipeline, as helper-inlined views (sa/inline.py).  The first is *the* pipeline: the function the
    library entry compile_prolog_from_string hands its input to (or that entry itself), with the helpers it is split
    into pasted back in; ``view.origin`` is the real function.  Any other function of the compiler module that
    constructs a lexer on its own follows (a second, separate pipeline)."""
    cached = getattr(em, '_pipeline_views', None)
    if cached is not None:
        return cached
    from .inline import inline_view
    comp = em.repo.module('compiler')
    api = comp.functions.get('compile_prolog_from_string')
    views = []

    def reach(f):
        out, stack = [], [f]
        while stack:
            g = stack.pop()
            if g in out:
                continue
            out.append(g)
            for n, cs in em.cg.calls.get(g, ()):
                stack.extend(c for c in cs if c.module is comp and c.cls is None)
        return out
    entries = [comp.functions.get(n) for n in ('compile_prolog_from_string', 'compile_prolog_from_file', 'main')]
    entries = [e for e in entries if e is not None]
    if api is not None:
        # candidates: module-level functions reachable from the library entry whose helper-inlined body builds the lexer
        cands = []

        def whole(v):
            # both ends of the pipeline: the lexer and an object of the code generator module
            ends = False
            for n in own_nodes(v.node):
                if isinstance(n, ast.Call) and isinstance(n.func, ast.Name):
                    r = em.repo.resolve_name(v, n.func.id)
                    if r and r[0] == 'class' and r[1].module.name == 'yp_generator':
                        ends = True
            return _constructs_lexer(v) and ends
        for c in reach(api):
            v = inline_view(em.repo, c)
            if whole(v):
                cands.append((c, v))
        if not cands:
            for c in reach(api):
                v = inline_view(em.repo, c)
                if _constructs_lexer(v):
                    cands.append((c, v))
        # *the* pipeline: the deepest candidate every entry point (library and command line) reaches - the shared part
        shared = [(c, v) for c, v in cands if all(c in reach(e) for e in entries)]
        pool = shared or cands
        deepest = [(c, v) for c, v in pool if not any(d is not c and d in reach(c) for d, _ in pool)]
        pick = (deepest or pool)[:1]
        for c, v in pick:
            v.shared_by_all = bool(shared)
            views.append(v)
    covered = set()
    for v in views:
        covered.add(v.origin)
        covered.update(v.inlined)
    for f in em.repo.all_functions(('compiler',)):
        if f in covered or not _constructs_lexer(f):
            continue
        v = inline_view(em.repo, f)
        views.append(v)
        covered.add(f)
        covered.update(v.inlined)
    if not views:
        raise AnalysisError('anchor vanished: no function constructs the generated lexer')
    em._pipeline_views = views
    return views


def rule_everything_is_parsed(em, rep, rid, g):
    rep.rule(rid, 'whatever reaches the compiler came out of the parser: in the pipeline function (helpers pasted in) no path leads '
                  'from the entry to the call that compiles the program, or to a return of generated code, without passing the call '
                  'of the parser\'s start rule - a second recogniser in front of the parser (a fast path for "simple" sources) '
                  'accepts what it accepts, not what the grammar accepts')
    start = g.start_rule
    f = pipeline_function(em)[0]
    cfg = em.cfg(f)
    parser, _ = _assigned_from_ctor(f, 'Parser')
    parser_names = aliases(f, parser) if parser else set()
    parse_calls = [n for n in cfg.nodes if n.kind == 'call' and isinstance(n.ast.func, ast.Attribute) and
                   _is_one_of(n.ast.func.value, parser_names) and n.ast.func.attr == start]
    if not parse_calls:
        raise AnalysisError('anchor vanished: no call of the start rule %s in %s' % (start, f.qname))
    sinks = [n for n in cfg.nodes if n.kind == 'call' and isinstance(n.ast.func, ast.Attribute) and n.ast.func.attr in ('compile_program', 'generate')]
    sinks += [n for n in cfg.nodes if n.kind == 'return' and n.ast is not None and not (isinstance(n.ast, ast.Constant) and n.ast.value is None)]
    key = '%s:parse' % f.qname
    path = cfg.g.find_path(cfg.entry, lambda m: m in sinks, avoid=lambda m: m in parse_calls,
                           edge_ok=lambda lbl, a, b: lbl not in ('exc', 'throw', 'close'))
    if path is not None:
        rep.violation(rid, key, 'code can be generated for a source that the parser never saw: a path reaches %s without the call of '
                      'parser.%s()' % (norm(path[-1][1].ast)[:40] if path[-1][1].ast is not None else 'the return', start), f.loc(),
                      cfg.describe_path(path))
    else:
        rep.ok(rid, key, 'every path to the compiler and to a result passes parser.%s()' % start, f.loc(parse_calls[0].stmt))


def rule_entries_always_run_pipeline(em, rep, rid):
    rep.rule(rid, 'the library entry points run the compile pipeline on the input of this very call, on every path that returns: '
                  'no return of compile_prolog_from_string / compile_prolog_from_file is reachable without passing a call that '
                  'leads to the pipeline (a result remembered from an earlier call was decided on an earlier text)')
    comp = em.repo.module('compiler')
    pipe = pipeline_function(em)[0].origin
    n = 0

    def reaches(g, seen=None):
        seen = seen if seen is not None else set()
        if g is pipe:
            return True
        if g in seen:
            return False
        seen.add(g)
        return any(reaches(c, seen) for _, cs in em.cg.calls.get(g, ()) for c in cs if c.module is comp)
    for name in ('compile_prolog_from_string', 'compile_prolog_from_file'):
        f = comp.functions.get(name)
        if f is None:
            continue
        n += 1
        if f is pipe:
            rep.ok(rid, f.qname, 'is the pipeline itself', f.loc())
            continue
        cfg = em.cfg(f)

        def runs_pipeline(m):
            if m.kind != 'call' or not isinstance(m.ast, ast.Call):
                return False
            return any(reaches(c) for c in em.cg.resolve_callable(f, m.ast.func) if c.module is comp)
        path = cfg.g.find_path(cfg.entry, lambda m: m.kind == 'return' or (m.kind == 'exit' and m.info == 'fall'),
                               avoid=runs_pipeline, edge_ok=lambda lbl, a, b: lbl not in ('exc', 'throw', 'close'))
        if path is not None:
            rep.violation(rid, f.qname, 'a path returns without running the pipeline on the input of this call: the result is not '
                          'decided on the text that was given (a damaged text can be answered with code produced earlier)', f.loc(),
                          cfg.describe_path(path))
        else:
            rep.ok(rid, f.qname, 'every returning path passes a call that leads to %s' % pipe.qname, f.loc())
    rep.minimum('library entry points', n, 2)


def aliases(f, name):
    """the local names that are the same object as ``name``: connected by plain ``a = b`` assignments"""
    out = {name}
    changed = True
    while changed:
        changed = False
        for n in own_nodes(f.node):
            if isinstance(n, ast.Assign) and isinstance(n.value, ast.Name) and len(n.targets) == 1 and isinstance(n.targets[0], ast.Name):
                a, b = n.targets[0].id, n.value.id
                if (a in out) != (b in out):
                    out |= {a, b}
                    changed = True
    return out


def _is_one_of(e, names):
    return isinstance(e, ast.Name) and e.id in names


def _assigned_from_ctor(f, suffix):
    """local name assigned from a call of a class whose name ends in suffix"""
    for n in own_nodes_ordered(f.node):
        if isinstance(n, ast.Assign) and isinstance(n.value, ast.Call) and isinstance(n.value.func, ast.Name) and \
                n.value.func.id.endswith(suffix) and isinstance(n.targets[0], ast.Name):
            return n.targets[0].id, n
    return None, None


def _always_raises(em, func):
    cfg = em.cfg(func)
    bad = [x for x in cfg.exit_nodes(('return', 'fall'))]
    return not bad


def _listener_class_raises(em, f, arg):
    """does the object given to addErrorListener raise from syntaxError on every path?"""
    e = arg
    hops = 0
    while isinstance(e, ast.Name) and hops < 5:
        defs = [s for s in own_nodes(f.node) if isinstance(s, ast.Assign) and any(is_name(t, e.id) for t in s.targets)]
        if len(defs) != 1:
            return None, 'listener %s is not a single local construction' % e.id
        e = defs[0].value
        hops += 1
    if not isinstance(e, ast.Call):
        return None, 'listener is not constructed here'
    c = em.cg.constructed_class(f, e)
    if c is None:
        return None, 'listener class %s is not defined in the repository' % norm(e.func)
    m = em.repo.lookup_method(c, 'syntaxError')
    if m is None:
        return c, 'class %s does not override syntaxError' % c.name
    if not _always_raises(em, m):
        return c, '%s.syntaxError can return without raising' % c.name
    return c, None


def rule_raising_recognisers(em, rep, rid, g):
    rep.rule(rid, 'in the function that builds lexer and parser, a listener whose syntaxError raises on every path is added '
                  'to the lexer and to the parser (or the parser gets a bail-out error strategy) before the parse call, on all paths')
    listener_classes = []
    for f in pipeline_function(em):
        cfg = em.cfg(f)
        dom = cfg.g.dominators(cfg.entry)
        lexer, _ = _assigned_from_ctor(f, 'Lexer')
        parser, _ = _assigned_from_ctor(f, 'Parser')
        if lexer is None or parser is None:
            raise AnalysisError('%s: lexer/parser are not bound to local names' % f.qname)
        parser_names = aliases(f, parser)
        parse_calls = [n for n in cfg.nodes if n.kind == 'call' and isinstance(n.ast.func, ast.Attribute) and
                       _is_one_of(n.ast.func.value, parser_names) and n.ast.func.attr in g.rules and not g.is_lexer_rule(n.ast.func.attr)]
        if not parse_calls:
            raise AnalysisError('%s: no call of a parser rule method found' % f.qname)
        for obj, what in ((lexer, 'lexer'), (parser, 'parser')):
            key = '%s:%s' % (f.qname, what)
            obj_names = aliases(f, obj)
            adds = [n for n in cfg.nodes if n.kind == 'call' and isinstance(n.ast.func, ast.Attribute) and
                    _is_one_of(n.ast.func.value, obj_names) and n.ast.func.attr == 'addErrorListener' and n.ast.args]
            bail = [n for n in cfg.nodes if n.kind == 'store' and isinstance(n.ast, ast.Attribute) and _is_one_of(n.ast.value, obj_names)
                    and n.ast.attr == '_errHandler' and 'Bail' in norm(n.info)]
            good = None
            why = 'the %s keeps ANTLR\'s default error handling (errors are printed and recovered from): text outside the ' \
                  'grammar is compiled into a program that silently omits or alters clauses' % what
            for a in adds:
                c, problem = _listener_class_raises(em, f, a.ast.args[0])
                if problem:
                    why = 'the listener added to the %s does not reject the input: %s' % (what, problem)
                    continue
                if all(a in dom[p] for p in parse_calls):
                    good = a
                    if c not in listener_classes:
                        listener_classes.append(c)
                else:
                    why = 'the raising listener is not installed on every path before the parse call'
            if good is None and what == 'parser' and bail and all(bail[0] in dom[p] for p in parse_calls):
                good = bail[0]
            if good is not None:
                rep.ok(rid, key, 'raising error handling installed before %s' % norm(parse_calls[0].ast), f.loc(good.stmt))
            else:
                rep.violation(rid, key, why, f.loc(parse_calls[0].stmt))
    return listener_classes


def rule_end_of_input(em, rep, rid, g, gp):
    rep.rule(rid, 'the start rule ends in EOF in prolog.g4 and the generated start method matches EOF - or a test that the token '
                  'stream is at EOF, whose other side always raises, dominates the use of the parse tree')
    start = g.start_rule
    in_grammar = g.ends_in_eof(start) and gp.start_matches_eof(start)
    for f in pipeline_function(em):
        cfg = em.cfg(f)
        key = '%s:EOF' % f.qname
        if in_grammar:
            rep.ok(rid, key, 'start rule %s matches EOF' % start, f.loc())
            continue
        dom = cfg.g.dominators(cfg.entry)
        parser, _ = _assigned_from_ctor(f, 'Parser')
        parser_names = aliases(f, parser) if parser else set()
        parse_calls = [n for n in cfg.nodes if n.kind == 'call' and isinstance(n.ast.func, ast.Attribute) and
                       _is_one_of(n.ast.func.value, parser_names) and n.ast.func.attr == start]
        uses = [n for n in cfg.nodes if n.kind == 'call' and isinstance(n.ast.func, ast.Attribute) and n.ast.func.attr == 'visit']
        if not uses:
            uses = [n for n in cfg.nodes if n.kind == 'return']
        ok = False
        for t in cfg.nodes:
            if t.kind != 'test' or 'EOF' not in norm(t.ast):
                continue
            if not any(w in norm(t.ast) for w in ('.LA(1)', '.LT(1)', 'getCurrentToken', '.index', 'LA(')):
                continue
            if not all(pc in dom[t] for pc in parse_calls):
                continue
            for lab in ('true', 'false'):
                # the branch that must raise: from it no use of the tree and no normal exit is reachable
                starts = [m for lbl, m in cfg.g.succ.get(t, ()) if lbl == lab]
                r = cfg.g.reach(starts, include_starts=True)
                raises_always = not any(u in r for u in uses) and not any(x in r for x in cfg.exit_nodes(('return', 'fall')))
                other = 'false' if lab == 'true' else 'true'
                if raises_always and all(t in dom[u] for u in uses) and _branch_means_not_eof(t.ast, lab):
                    ok = True
        if ok:
            rep.ok(rid, key, 'explicit end-of-input test before the parse tree is used', f.loc())
        else:
            rep.violation(rid, key, 'rule "%s" has no EOF and nothing checks that the token stream is exhausted: parsing stops at '
                          'the first token it cannot continue with and everything after it is silently dropped '
                          '(foo(a). ) garbage)' % start, f.loc(parse_calls[0].stmt) if parse_calls else f.loc())


def _branch_means_not_eof(test, lab):
    e = test
    neg = False
    while isinstance(e, ast.UnaryOp) and isinstance(e.op, ast.Not):
        e, neg = e.operand, not neg
    if isinstance(e, ast.Compare) and len(e.ops) == 1:
        eq = isinstance(e.ops[0], (ast.Eq, ast.Is))
        ne = isinstance(e.ops[0], (ast.NotEq, ast.IsNot))
        if not (eq or ne):
            return False
        not_eof_label = 'true' if (ne != neg) else 'false'
        return lab == not_eof_label
    return False


def rule_cli_exit(em, rep, rid, listener_classes):
    rep.rule(rid, 'in main() every handler around the compile call ends by raising; the exception raised for a syntax error is '
                  '(a subclass of) the class main() converts to a ClickException and carries file name, line and column')
    main = em.repo.find_func('compiler.main')
    if main is None:
        raise AnalysisError('anchor vanished: compiler.main')
    pipes = [v.origin for v in pipeline_function(em)]
    # functions between main() and the pipeline function
    sites = []
    reach = em.cg.reachable([main], with_refs=False, include_nested=False)
    for f in reach:
        for n, cs in em.cg.calls.get(f, ()):
            if any(p in cs for p in pipes):
                sites.append((f, n))
    if not sites:
        raise AnalysisError('main() does not reach the compile pipeline')
    caught = []
    for f, c in sites:
        child = c
        for p in parents(c):
            if isinstance(p, (ast.FunctionDef, ast.Lambda)):
                break
            if isinstance(p, ast.Try) and any(child is s or any(x is child for x in ast.walk(s)) for s in p.body):
                for h in p.handlers:
                    key = '%s:except %s' % (f.qname, norm(h.type) if h.type else '')
                    last = h.body[-1] if h.body else None
                    if isinstance(last, ast.Raise):
                        rep.ok(rid, key, 'handler converts and re-raises (%s)' % norm(last)[:60], f.loc(h))
                        caught += ExcMatcher(em.repo, f).handler_names(h)
                    elif f is not main and isinstance(last, ast.Return) and isinstance(last.value, ast.Constant) and not last.value.value:
                        # the failure is reported through the return value: every caller must accumulate it
                        caught += ExcMatcher(em.repo, f).handler_names(h)
                        okall = True
                        for g, call in em.cg.call_sites_of(f):
                            pa = getattr(call, '_parent', None)
                            loops = [q for q in parents(call) if isinstance(q, (ast.For, ast.While))]
                            if isinstance(pa, ast.Assign) and loops:
                                okall = False
                                rep.violation(rid, '%s:%s' % (g.qname, norm(pa)), 'the result of compiling one source overwrites the result of the '
                                              'previous one: only the last source decides the exit status (yldpc bad.pl good.pl exits 0)', g.loc(pa))
                            elif isinstance(pa, ast.Expr):
                                okall = False
                                rep.violation(rid, '%s:%s' % (g.qname, norm(pa)), 'the failure status of a source is discarded', g.loc(pa))
                        # and the accumulated status must lead to a non-zero exit
                        exits = [x for x in own_nodes(main.node) if (isinstance(x, ast.Raise)) or (isinstance(x, ast.Call) and norm(x.func).split('.')[-1] in ('exit', '_exit'))]
                        if okall and not exits:
                            rep.violation(rid, key, 'a source that does not compile is reported but main() never exits with a non-zero status', f.loc(h))
                        elif okall:
                            rep.ok(rid, key, 'failure is returned to main(), which accumulates it and exits non-zero', f.loc(h))
                    else:
                        rep.violation(rid, key, 'main() swallows an exception of the compile call: a file that does not compile still '
                                      'exits with status 0', f.loc(h))
            child = p
    rep.minimum('handlers around the compile call in main()', len(caught), 1)
    ce = em.repo.cls('errors', 'CompilerError')
    for c in listener_classes:
        m = em.repo.lookup_method(c, 'syntaxError')
        for r in [x for x in own_nodes(m.node) if isinstance(x, ast.Raise) and x.exc is not None]:
            e = r.exc.func if isinstance(r.exc, ast.Call) else r.exc
            rc = em.repo.resolve_name(m, e.id) if isinstance(e, ast.Name) else None
            key = '%s:%s' % (m.qname, norm(e))
            if rc and rc[0] == 'class' and ce in em.repo.mro(rc[1]):
                # carries position: constructor receives line and column
                args = norm(r.exc)
                if 'line' in args and 'column' in args:
                    rep.ok(rid, key, 'syntax errors are CompilerErrors with file, line and column', m.loc(r))
                else:
                    rep.violation(rid, key, 'the syntax error does not carry line and column', m.loc(r))
            else:
                rep.violation(rid, key, 'the exception raised for a syntax error is not a CompilerError: the command line shows a '
                              'traceback instead of file:line:column and the documented error', m.loc(r))
    str_m = ce.methods.get('__str__')
    str_text = ''
    if str_m is not None:
        sv = em.view(str_m)
        str_text = norm(sv.node)
        for x in own_nodes(sv.node):          # format strings kept in module-level constants
            if isinstance(x, ast.Name):
                r = em.repo.resolve_name(sv, x.id)
                if r and r[0] == 'var' and isinstance(r[2], ast.Constant) and isinstance(r[2].value, str):
                    str_text += ' ' + r[2].value
    if str_m is not None and all(w in str_text for w in ('filename', 'line', 'column')):
        rep.ok(rid, 'errors.CompilerError.__str__', 'formats filename:line:column:message', ce.loc())
    else:
        rep.violation(rid, 'errors.CompilerError.__str__', 'the error text lacks file name, line or column', ce.loc())


def rule_main_compiles_every_source(em, rep, rid):
    rep.rule(rid, 'main() compiles what it is given, and a failure gets out: (1) no path of main() ends normally without having passed '
                  'the loop over the sources / a call that leads to the pipeline (only "no sources at all" may return early) - whether '
                  'the output is written may not hang on anything else (time stamps, an existing file); (2) no context manager '
                  'that is open around the compile call can swallow an exception: a class manager\'s __exit__ returns nothing or a '
                  'false constant, a generator manager\'s handlers around its yield end by raising, and contextlib.suppress is '
                  'not used there')
    main = em.repo.find_func('compiler.main')
    if main is None:
        raise AnalysisError('anchor vanished: compiler.main')
    comp = em.repo.module('compiler')
    pipes = [v.origin for v in pipeline_function(em)]

    def reaches(g, seen=None):
        seen = seen if seen is not None else set()
        if g in pipes:
            return True
        if g in seen:
            return False
        seen.add(g)
        return any(reaches(c, seen) for _, cs in em.cg.calls.get(g, ()) for c in cs if c.module is comp)

    def runs(f, call):
        return any(reaches(c) for c in em.cg.resolve_callable(f, call.func) if c.module is comp)
    # (1) must pass through
    calls = [n for n in own_nodes(main.node) if isinstance(n, ast.Call) and runs(main, n)]
    if not calls:
        raise AnalysisError('main() does not reach the compile pipeline')
    loops = set()
    for c in calls:
        for p in parents(c):
            if isinstance(p, (ast.FunctionDef, ast.Lambda)):
                break
            if isinstance(p, ast.For):
                loops.add(p)
    params = {a.arg for a in main.node.args.args + main.node.args.kwonlyargs}
    src_names = set()
    for lp in loops:
        src_names |= {x.id for x in ast.walk(lp.iter) if isinstance(x, ast.Name) and x.id in params}

    def only_about_sources(test):
        names = {x.id for x in ast.walk(test) if isinstance(x, ast.Name)} - {'len', 'list', 'tuple', 'bool'}
        return bool(names) and names <= src_names and not any(isinstance(x, (ast.Call, ast.Attribute)) and
                                                            not (isinstance(x, ast.Call) and is_name(x.func, 'len')) for x in ast.walk(test))

    def excused(ret_stmt):
        child = ret_stmt
        for p in parents(ret_stmt):
            if isinstance(p, ast.If) and any(child is x for x in p.body) and only_about_sources(p.test):
                return True
            if isinstance(p, (ast.FunctionDef, ast.For, ast.While)):
                return False
            child = p
        return False
    cfg = em.cfg(main)

    # simple statements that hold a compile call somewhere inside (an argument, a comprehension, a generator expression)
    simple = set()
    for c in calls:
        for p in parents(c):
            if isinstance(p, (ast.Expr, ast.Assign, ast.AugAssign, ast.AnnAssign, ast.Return)):
                simple.add(p)
                break
            if isinstance(p, ast.FunctionDef):
                break

    def passes(m):
        if m.kind == 'fornext' and m.stmt in loops:
            return True
        if m.stmt in simple and m.kind != 'return':
            return True
        return m.kind == 'call' and isinstance(m.ast, ast.Call) and m.ast in calls

    def goal(m):
        if m.kind == 'return':
            return not (m.stmt is not None and excused(m.stmt))
        return m.kind == 'exit' and m.info == 'fall'
    path = cfg.g.find_path(cfg.entry, goal, avoid=passes, edge_ok=lambda lbl, a, b: lbl not in ('exc', 'throw', 'close'))
    if path is not None:
        rep.violation(rid, '%s:path' % main.qname, 'main() can end normally without compiling its sources: the exit status is 0 and the '
                      'output is not what the library returns for the given text', main.loc(), cfg.describe_path(path))
    else:
        rep.ok(rid, '%s:path' % main.qname, 'every normal end of main() lies behind the loop over %s / the compile call (%d call site(s))'
               % (', '.join(sorted(src_names)) or 'the sources', len(calls)), main.loc(), nontrivial=True)
    # (2) managers around the compile call
    sites = []
    for f in em.cg.reachable([main], with_refs=False, include_nested=False):
        for n, cs in em.cg.calls.get(f, ()):
            if f.module is comp and (any(p in cs for p in pipes) or (f is main and n in calls)):
                sites.append((f, n))
    seen = set()
    nman = 0
    for f, c in sites:
        for p in parents(c):
            if isinstance(p, (ast.FunctionDef, ast.Lambda)):
                break
            if not isinstance(p, ast.With) or id(p) in seen:
                continue
            seen.add(id(p))
            for item in p.items:
                e = item.context_expr
                key = '%s:with %s' % (f.qname, norm(e)[:50])
                nman += 1
                if not isinstance(e, ast.Call):
                    rep.ok(rid, key, 'not a construction here: left to the other rules', f.loc(p))
                    continue
                if norm(e.func).split('.')[-1] == 'suppress':
                    rep.violation(rid, key, 'contextlib.suppress around the compile call: a source that does not compile is passed over '
                                  'in silence and the exit status is 0', f.loc(p))
                    continue
                k = em.cg.constructed_class(f, e)
                if k is not None:
                    ex = em.repo.lookup_method(k, '__exit__')
                    if ex is None:
                        rep.ok(rid, key, '%s has no __exit__ of its own' % k.name, f.loc(p))
                        continue
                    bad = [r for r in own_nodes(ex.node) if isinstance(r, ast.Return) and r.value is not None and
                           not (isinstance(r.value, ast.Constant) and not r.value.value)]
                    if bad:
                        rep.violation(rid, key, '%s.__exit__ can return a true value (%s): the exception of a source that does not compile '
                                      'is swallowed - no message, exit status 0' % (k.name, norm(bad[0])), ex.loc(bad[0]))
                    else:
                        rep.ok(rid, key, '%s.__exit__ returns nothing / a false constant: exceptions pass' % k.name, ex.loc())
                    continue
                gs = [g for g in em.cg.resolve_callable(f, e.func) if any(isinstance(y, (ast.Yield, ast.YieldFrom)) for y in own_nodes(g.node))]
                if gs:
                    g = gs[0]
                    bad = None
                    for y in own_nodes(g.node):
                        if not isinstance(y, ast.Yield):
                            continue
                        child = y
                        for q in parents(y):
                            if isinstance(q, ast.FunctionDef):
                                break
                            if isinstance(q, ast.Try) and any(child is b or any(z is child for z in ast.walk(b)) for b in q.body):
                                for h in q.handlers:
                                    if not (h.body and isinstance(h.body[-1], ast.Raise)):
                                        bad = h
                            child = q
                    if bad is not None:
                        rep.violation(rid, key, 'the generator manager %s catches what is thrown in at its yield and does not raise again: '
                                      'the failure of the compile is swallowed' % g.qname, g.loc(bad))
                    else:
                        rep.ok(rid, key, 'generator manager %s: every handler around the yield raises' % g.qname, g.loc())
                    continue
                rep.ok(rid, key, 'library manager (not suppress)', f.loc(p))
    rep.ok(rid, 'managers', '%d manager(s) open around the compile call' % nman, None)


def rule_visitor_dispatch(em, rep, rid):
    """G4 (informational): visit methods whose shape dispatch can fall through"""
    vis = em.repo.cls('yp_prolog_visitor', 'YPPrologVisitor')
    n = 0
    for name, m in vis.methods.items():
        if not name.startswith('visit'):
            continue
        cfg = em.cfg(m)
        n += 1
        if 'fall' in cfg.exits and cfg.exits['fall'] in cfg.live:
            rep.note(rid, '%s can return None for an unexpected context shape (the None reaches an attribute access and raises late)' % m.qname, m.loc())
    rep.ok(rid, 'visitor', '%d visit methods examined' % n, None, nontrivial=False)


def rule_rejections_not_swallowed(em, rep, rid, g):
    rep.rule(rid, 'in the compile pipeline and its helpers, no handler around a lexing or parsing call (stream.fill(), a parser rule '
                  'method) catches the exception that rejects the input and carries on - unless it rewinds the token stream '
                  '(seek(0)/reset()) and parses again with raising error handling: otherwise input that was rejected once is '
                  'compiled from wherever the first attempt stopped, or a lexical error is simply forgotten')
    views = pipeline_function(em)
    comp = em.repo.module('compiler')
    funcs = []
    for v in views:
        for f in [v.origin] + list(v.inlined):
            if f not in funcs:
                funcs.append(f)
        for f in em.cg.reachable([v.origin], with_refs=False, include_nested=True):
            if f.module is comp and f not in funcs:
                funcs.append(f)
    n = 0
    for f in funcs:
        mt = ExcMatcher(em.repo, f)
        for t in [x for x in own_nodes_ordered(f.node) if isinstance(x, ast.Try) and x.handlers]:
            calls = [c for b in t.body for c in ast.walk(b) if isinstance(c, ast.Call) and isinstance(c.func, ast.Attribute) and
                     (c.func.attr in ('fill', 'nextToken', 'getAllTokens') or (c.func.attr in g.rules and not g.is_lexer_rule(c.func.attr)))]
            # ... or a helper of the module that parses
            calls += [c for b in t.body for c in ast.walk(b) if isinstance(c, ast.Call) and isinstance(c.func, ast.Name) and
                      c.func.id in comp.functions and any(isinstance(y, ast.Call) and isinstance(y.func, ast.Attribute) and y.func.attr in g.rules
                                                          and not g.is_lexer_rule(y.func.attr) for y in ast.walk(comp.functions[c.func.id].node))]
            if not calls:
                continue
            for h in t.handlers:
                names = mt.handler_names(h)
                rejecting = any(nm in ('BaseException', 'Exception', 'RuntimeError', 'ParseCancellationException', 'RecognitionException',
                                       'CancellationException') for nm in names) or any(
                    mt.match(nm, h) != 'no' for nm in ('SyntaxCompilerError', 'CompilerError'))
                if not rejecting:
                    continue
                n += 1
                key = '%s:except %s' % (f.qname, norm(h.type) if h.type else '')
                last = h.body[-1] if h.body else None
                reraises = isinstance(last, ast.Raise)
                rewinds = any(isinstance(x, ast.Call) and isinstance(x.func, ast.Attribute) and x.func.attr in ('seek', 'reset') for b in h.body for x in ast.walk(b))
                if reraises:
                    rep.ok(rid, key, 'converts and re-raises', f.loc(h))
                elif rewinds:
                    rep.ok(rid, key, 'rewinds the token stream before parsing again', f.loc(h))
                else:
                    rep.violation(rid, key, 'the rejection of the input by %s is caught here and the compilation carries on (%s): text that is not '
                                  'a sentence of the grammar is compiled - from the token where the first attempt stopped, or with the '
                                  'offending characters dropped' % (norm(calls[0])[:40], norm(last)[:40] if last is not None else 'pass'), f.loc(h))
    rep.ok(rid, 'pipeline', '%d function(s) of the pipeline examined, %d handler(s) around lexing/parsing calls' % (len(funcs), n), None, nontrivial=False)
