"""E1 - program model: modules, classes, functions, name resolution, class hierarchy.

The model is built from source text only (``ast``).  Names are resolved by scope: function
locals / enclosing functions / module bindings / star imports of other repository modules /
builtins.
"""
import ast
import re
import builtins
import os


class AnalysisError(Exception):
    """The analysis cannot be carried out (anchor vanished, unsupported construct, ...).

    Turned into ``ANALYSIS-ERROR`` + exit status 2 by the driver; never a silent pass and
    never a VIOLATION line.
    """


PKG = 'yldprolog'
SRC_MODULES = ('engine', 'compiler', 'yp_generator', 'yp_prolog_visitor', 'errors')
GENERATED_MODULES = ('prologLexer', 'prologParser', 'prologVisitor', 'prologListener')


def set_parents(tree):
    for node in ast.walk(tree):
        for child in ast.iter_child_nodes(node):
            child._parent = node
    tree._parent = None


# ---------------------------------------------------------------------------------------------
# context-manager classes used only in ``with`` statements are expanded in place


def _clone(node):
    """deep copy of an AST without the parent links"""
    if isinstance(node, list):
        return [_clone(x) for x in node]
    if not isinstance(node, ast.AST):
        return node
    new = type(node)()
    for k, v in node.__dict__.items():
        if k.startswith('_'):
            # annotations of the analyses (parent links, caches): only the provenance mark is carried over, as it is
            if k == '_from':
                setattr(new, k, v)
            continue
        setattr(new, k, _clone(v))
    return new


def _simple_expr(e):
    if isinstance(e, (ast.Name, ast.Constant)):
        return True
    if isinstance(e, ast.UnaryOp) and isinstance(e.op, (ast.USub, ast.UAdd)) and isinstance(e.operand, ast.Constant):
        return True
    if isinstance(e, ast.Call) and isinstance(e.func, ast.Name) and e.func.id == 'len' and len(e.args) == 1 and not e.keywords and \
            _simple_expr(e.args[0]):
        return True
    if isinstance(e, ast.Attribute):
        return _simple_expr(e.value)
    return False


def _cm_spec(cdef):
    """(field -> constructor parameter index, enter statements, enter result, exit statements) of a class that is a
    plain context manager: fields copied from constructor parameters, straight-line __enter__/__exit__, exceptions
    not swallowed; None otherwise"""
    body = [m for m in cdef.body if not (isinstance(m, ast.Expr) and isinstance(m.value, ast.Constant))]
    if not all(isinstance(m, ast.FunctionDef) for m in body):
        return None
    meths = {m.name: m for m in body}
    if not ({'__enter__', '__exit__'} <= set(meths) <= {'__init__', '__enter__', '__exit__'}):
        return None
    if any(m.decorator_list for m in body):
        return None
    fields = {}
    nparams = 0
    if '__init__' in meths:
        init = meths['__init__']
        a = init.args
        if a.vararg or a.kwarg or a.kwonlyargs or a.defaults or not a.args:
            return None
        params = [x.arg for x in a.args[1:]]
        nparams = len(params)
        me = a.args[0].arg
        for st in init.body:
            if isinstance(st, ast.Expr) and isinstance(st.value, ast.Constant):
                continue
            if isinstance(st, ast.Assign) and len(st.targets) == 1 and isinstance(st.targets[0], ast.Attribute) and \
                    isinstance(st.targets[0].value, ast.Name) and st.targets[0].value.id == me and \
                    isinstance(st.value, ast.Name) and st.value.id in params:
                fields[st.targets[0].attr] = params.index(st.value.id)
            else:
                return None

    def straight(fn, nargs):
        a = fn.args
        if a.vararg or a.kwarg or a.kwonlyargs or len(a.args) != nargs:
            return None
        me = a.args[0].arg
        others = {x.arg for x in a.args[1:]}
        stmts, ret = [], None
        seq = [st for st in fn.body if not (isinstance(st, ast.Expr) and isinstance(st.value, ast.Constant))]
        for i, st in enumerate(seq):
            if isinstance(st, ast.Return):
                if i != len(seq) - 1:
                    return None
                ret = st.value
                continue
            if not isinstance(st, (ast.Assign, ast.AugAssign, ast.Expr, ast.Pass)):
                return None
            stmts.append(st)
        for st in stmts + ([ret] if ret is not None else []):
            for x in ast.walk(st):
                if isinstance(x, ast.Name) and x.id in others:
                    return None
                if isinstance(x, ast.Name) and x.id == me:
                    par = getattr(x, '_parent', None)
                    if not (isinstance(par, ast.Attribute) and par.value is x and par.attr in fields):
                        return None
                if isinstance(x, (ast.Yield, ast.YieldFrom, ast.Lambda, ast.Await)):
                    return None
                if isinstance(x, ast.Name) and isinstance(x.ctx, ast.Store):
                    return None
        return me, stmts, ret
    en = straight(meths['__enter__'], 1)
    ex = straight(meths['__exit__'], 4)
    normal_only = False
    if ex is None:
        # __exit__ of the shape  if <exc_type> is None: <statements> ; [return False]  - undone on a normal exit only
        fn = meths['__exit__']
        seq = [st for st in fn.body if not (isinstance(st, ast.Expr) and isinstance(st.value, ast.Constant))]
        if len(fn.args.args) == 4 and seq and isinstance(seq[0], ast.If) and not seq[0].orelse and isinstance(seq[0].test, ast.Compare) and \
                len(seq[0].test.ops) == 1 and isinstance(seq[0].test.ops[0], ast.Is) and isinstance(seq[0].test.left, ast.Name) and \
                seq[0].test.left.id == fn.args.args[1].arg and isinstance(seq[0].test.comparators[0], ast.Constant) and \
                seq[0].test.comparators[0].value is None and \
                all(isinstance(st, ast.Return) and (st.value is None or (isinstance(st.value, ast.Constant) and not st.value.value)) for st in seq[1:]):
            inner = ast.FunctionDef(name='__exit__', args=fn.args, body=seq[0].body, decorator_list=[], returns=None)
            for x in ast.walk(inner):
                for c in ast.iter_child_nodes(x):
                    c._parent = x
            ex = straight(inner, 4)
            normal_only = ex is not None
    if en is None or ex is None:
        return None
    if ex[2] is not None and not (isinstance(ex[2], ast.Constant) and not ex[2].value):
        return None             # may swallow the exception: not a try/finally
    return dict(fields=fields, nparams=nparams, enter=en, exit=ex, normal_only=normal_only)


def _cm_through_fields_and_factories(tree, specs):
    """``with self.F:`` where the field is bound once, in the constructor, to ``K(args)``, and ``with self.m():`` where the
    method only builds and returns a ``K`` - K a plain context-manager class (see _cm_spec) - are rewritten to
    ``with K(args):``; the binding / the factory method is removed when nothing else mentions it"""
    for Y in [c for c in tree.body if isinstance(c, ast.ClassDef) and c.name not in specs]:
        meths = [m for m in Y.body if isinstance(m, ast.FunctionDef)]
        # (a) fields
        init = next((m for m in meths if m.name == '__init__'), None)
        cand = {}
        if init is not None and init.args.args:
            me = init.args.args[0].arg
            for st in init.body:
                if isinstance(st, ast.Assign) and len(st.targets) == 1 and isinstance(st.targets[0], ast.Attribute) and \
                        isinstance(st.targets[0].value, ast.Name) and st.targets[0].value.id == me and isinstance(st.value, ast.Call) and \
                        isinstance(st.value.func, ast.Name) and st.value.func.id in specs and not st.value.keywords and \
                        all(isinstance(a, ast.Name) and a.id == me for a in st.value.args):
                    cand[st.targets[0].attr] = (st, st.value)
        for F, (asg, call) in list(cand.items()):
            uses = [n for n in ast.walk(tree) if isinstance(n, ast.Attribute) and n.attr == F and n is not asg.targets[0]]
            ok = bool(uses)
            for u in uses:
                par = getattr(u, '_parent', None)
                fn = u
                while fn is not None and not isinstance(fn, ast.FunctionDef):
                    fn = getattr(fn, '_parent', None)
                if not (isinstance(par, ast.withitem) and par.context_expr is u and par.optional_vars is None and fn in meths and
                        isinstance(u.value, ast.Name) and fn.args.args and u.value.id == fn.args.args[0].arg and isinstance(u.ctx, ast.Load)):
                    ok = False
            if not ok:
                continue
            for u in uses:
                fn = u
                while not isinstance(fn, ast.FunctionDef):
                    fn = fn._parent
                new = ast.Call(func=ast.Name(id=call.func.id, ctx=ast.Load()),
                               args=[ast.Name(id=fn.args.args[0].arg, ctx=ast.Load()) for _ in call.args], keywords=[])
                ast.copy_location(new, u)
                ast.fix_missing_locations(new)
                u._parent.context_expr = new
            init.body = [st for st in init.body if st is not asg] or [ast.Pass()]
        # (b) factory methods
        for m in list(meths):
            if not m.args.args or len(m.args.args) != 1 or m.decorator_list:
                continue
            me = m.args.args[0].arg
            body = [st for st in m.body if not (isinstance(st, ast.Expr) and isinstance(st.value, ast.Constant))]
            kname, args = None, None
            if len(body) == 1 and isinstance(body[0], ast.Return) and isinstance(body[0].value, ast.Call) and isinstance(body[0].value.func, ast.Name) and \
                    body[0].value.func.id in specs and not body[0].value.keywords and all(isinstance(a, ast.Name) and a.id == me for a in body[0].value.args):
                kname, args = body[0].value.func.id, len(body[0].value.args)
            elif len(body) >= 2 and isinstance(body[0], ast.Assign) and len(body[0].targets) == 1 and isinstance(body[0].targets[0], ast.Name) and \
                    isinstance(body[0].value, ast.Call) and isinstance(body[0].value.func, ast.Name) and body[0].value.func.id in specs and \
                    not body[0].value.args and isinstance(body[-1], ast.Return) and isinstance(body[-1].value, ast.Name) and \
                    body[-1].value.id == body[0].targets[0].id and not specs[body[0].value.func.id]['fields']:
                # x = K(); x.f = self; ..; return x   for a K without constructor: the assigned fields play the role of parameters
                x = body[0].targets[0].id
                sets = body[1:-1]
                if all(isinstance(st, ast.Assign) and len(st.targets) == 1 and isinstance(st.targets[0], ast.Attribute) and
                       isinstance(st.targets[0].value, ast.Name) and st.targets[0].value.id == x and isinstance(st.value, ast.Name) and st.value.id == me
                       for st in sets) and sets:
                    kname = body[0].value.func.id
                    sp = specs[kname]
                    sp['fields'] = {st.targets[0].attr: i for i, st in enumerate(sets)}
                    sp['nparams'] = len(sets)
                    # the enter/exit parts were read when no field was known: read them again
                    kdef = next(c for c in tree.body if isinstance(c, ast.ClassDef) and c.name == kname)
                    fake_init = ast.FunctionDef(name='__init__', args=ast.arguments(posonlyargs=[], args=[ast.arg(arg='self')] + [ast.arg(arg='p%d' % i) for i in range(len(sets))],
                                                                                 vararg=None, kwonlyargs=[], kw_defaults=[], kwarg=None, defaults=[]),
                                                body=[ast.Assign(targets=[ast.Attribute(value=ast.Name(id='self', ctx=ast.Load()), attr=st.targets[0].attr, ctx=ast.Store())],
                                                                 value=ast.Name(id='p%d' % i, ctx=ast.Load())) for i, st in enumerate(sets)],
                                                decorator_list=[], returns=None)
                    ast.copy_location(fake_init, kdef)
                    ast.fix_missing_locations(fake_init)
                    kdef.body = [st for st in kdef.body if not (isinstance(st, ast.Assign) and any(isinstance(t, ast.Name) and t.id == '__slots__' for t in st.targets))]
                    kdef.body.insert(0, fake_init)
                    set_parents(tree)
                    sp2 = _cm_spec(kdef)
                    if sp2 is None:
                        kname = None
                    else:
                        specs[kname] = sp2
                        args = len(sets)
            if kname is None:
                continue
            uses = [n for n in ast.walk(tree) if isinstance(n, ast.Attribute) and n.attr == m.name]
            ok = bool(uses)
            for u in uses:
                call = getattr(u, '_parent', None)
                item = getattr(call, '_parent', None)
                fn = u
                while fn is not None and not isinstance(fn, ast.FunctionDef):
                    fn = getattr(fn, '_parent', None)
                if not (isinstance(call, ast.Call) and call.func is u and not call.args and not call.keywords and isinstance(item, ast.withitem) and
                        item.context_expr is call and item.optional_vars is None and fn in meths and isinstance(u.value, ast.Name) and
                        fn.args.args and u.value.id == fn.args.args[0].arg):
                    ok = False
            if not ok:
                continue
            for u in uses:
                fn = u
                while not isinstance(fn, ast.FunctionDef):
                    fn = fn._parent
                new = ast.Call(func=ast.Name(id=kname, ctx=ast.Load()), args=[ast.Name(id=fn.args.args[0].arg, ctx=ast.Load()) for _ in range(args)], keywords=[])
                ast.copy_location(new, u)
                ast.fix_missing_locations(new)
                u._parent._parent.context_expr = new
            Y.body = [st for st in Y.body if st is not m]


def expand_context_manager_classes(tree):
    """``with C(x) [as v]: body`` for a plain context-manager class C of the same module becomes
    ``<C.__enter__ with self.f := x>; [v = result]; try: body; finally: <C.__exit__>`` and the class is dropped,
    provided every mention of C is such a with-item.  -> names of the expanded classes"""
    import copy
    specs = {}
    # a context-manager class without constructor whose fields are set by the one method that creates it
    # (x = K(); x.f = self; return x) is given the constructor K(f) and the method becomes ``return K(self)``
    for K in [c for c in tree.body if isinstance(c, ast.ClassDef)]:
        names = {m.name for m in K.body if isinstance(m, ast.FunctionDef)}
        if not ({'__enter__', '__exit__'} <= names) or '__init__' in names:
            continue
        makers = []
        for Y in [c for c in tree.body if isinstance(c, ast.ClassDef) and c is not K]:
            for m in [x for x in Y.body if isinstance(x, ast.FunctionDef)]:
                body = [st for st in m.body if not (isinstance(st, ast.Expr) and isinstance(st.value, ast.Constant))]
                if len(body) >= 3 and isinstance(body[0], ast.Assign) and len(body[0].targets) == 1 and isinstance(body[0].targets[0], ast.Name) and \
                        isinstance(body[0].value, ast.Call) and isinstance(body[0].value.func, ast.Name) and body[0].value.func.id == K.name and \
                        not body[0].value.args and not body[0].value.keywords and isinstance(body[-1], ast.Return) and \
                        isinstance(body[-1].value, ast.Name) and body[-1].value.id == body[0].targets[0].id:
                    x = body[0].targets[0].id
                    sets = body[1:-1]
                    if all(isinstance(st, ast.Assign) and len(st.targets) == 1 and isinstance(st.targets[0], ast.Attribute) and
                           isinstance(st.targets[0].value, ast.Name) and st.targets[0].value.id == x and _simple_expr(st.value) for st in sets):
                        makers.append((m, sets))
        mentions = [n for n in ast.walk(tree) if isinstance(n, ast.Name) and n.id == K.name]
        if len(makers) != 1 or len(mentions) != 1:
            continue
        m, sets = makers[0]
        fnames = [st.targets[0].attr for st in sets]
        init = ast.FunctionDef(name='__init__', args=ast.arguments(posonlyargs=[], args=[ast.arg(arg='self')] + [ast.arg(arg='p_' + f) for f in fnames],
                                                                 vararg=None, kwonlyargs=[], kw_defaults=[], kwarg=None, defaults=[]),
                               body=[ast.Assign(targets=[ast.Attribute(value=ast.Name(id='self', ctx=ast.Load()), attr=f, ctx=ast.Store())],
                                                value=ast.Name(id='p_' + f, ctx=ast.Load())) for f in fnames],
                               decorator_list=[], returns=None)
        if hasattr(ast, 'TypeVar'):
            init.type_params = []
        ast.copy_location(init, K)
        ast.fix_missing_locations(init)
        K.body = [st for st in K.body if not (isinstance(st, ast.Assign) and any(isinstance(t, ast.Name) and t.id == '__slots__' for t in st.targets))]
        K.body.insert(0, init)
        ret = ast.Return(value=ast.Call(func=ast.Name(id=K.name, ctx=ast.Load()), args=[_clone(st.value) for st in sets], keywords=[]))
        ast.copy_location(ret, m.body[-1])
        ast.fix_missing_locations(ret)
        m.body = [ret]
        set_parents(tree)
    for st in tree.body:
        if isinstance(st, ast.ClassDef) and any(isinstance(m, ast.FunctionDef) and m.name == '__enter__' for m in st.body):
            sp = _cm_spec(st)
            if sp is not None:
                specs[st.name] = sp
    if not specs:
        return []
    _cm_through_fields_and_factories(tree, specs)
    set_parents(tree)
    for n in ast.walk(tree):
        if isinstance(n, ast.Name) and n.id in specs:
            p = getattr(n, '_parent', None)
            pp = getattr(p, '_parent', None)
            ok = isinstance(p, ast.Call) and p.func is n and isinstance(pp, ast.withitem) and pp.context_expr is p and \
                not p.keywords and len(p.args) == specs[n.id]['nparams'] and all(_simple_expr(a) for a in p.args) and \
                (pp.optional_vars is None or isinstance(pp.optional_vars, ast.Name))
            if not ok:
                del specs[n.id]
        elif isinstance(n, ast.ClassDef) and any(ast.unparse(b).split('.')[-1] in specs for b in n.bases):
            for b in n.bases:
                specs.pop(ast.unparse(b).split('.')[-1], None)
    if not specs:
        return []

    def instantiate(part, args, spec, ref):
        me, stmts, ret = part

        class Sub(ast.NodeTransformer):
            def visit_Attribute(self, node):
                if isinstance(node.value, ast.Name) and node.value.id == me and node.attr in spec['fields']:
                    return _clone(args[spec['fields'][node.attr]])
                self.generic_visit(node)
                return node
        out = [Sub().visit(_clone(st)) for st in stmts]
        r = Sub().visit(_clone(ret)) if ret is not None else None
        for st in out + ([r] if r is not None else []):
            for x in ast.walk(st):
                x.lineno = ref.lineno
                x.col_offset = ref.col_offset
                x.end_lineno = getattr(ref, 'end_lineno', ref.lineno)
                x.end_col_offset = getattr(ref, 'end_col_offset', ref.col_offset)
        return out, r

    class Expand(ast.NodeTransformer):
        def visit_With(self, node):
            self.generic_visit(node)
            body = node.body
            changed = False
            for item in reversed(node.items):
                ce = item.context_expr
                if isinstance(ce, ast.Call) and isinstance(ce.func, ast.Name) and ce.func.id in specs:
                    sp = specs[ce.func.id]
                    pre, res = instantiate(sp['enter'], ce.args, sp, node)
                    post, _ = instantiate(sp['exit'], ce.args, sp, node)
                    if item.optional_vars is not None:
                        val = res if res is not None else ast.Constant(value=None)
                        pre.append(ast.Assign(targets=[item.optional_vars], value=val))
                    if sp.get('normal_only'):
                        if _body_jumps(body):
                            body = [ast.With(items=[item], body=body)]      # left by return/break/continue: not expanded
                            continue
                        body = pre + body + post
                    else:
                        tr = ast.Try(body=body, handlers=[], orelse=[], finalbody=post or [ast.Pass()])
                        body = pre + [tr]
                    changed = True
                else:
                    body = [ast.With(items=[item], body=body)]
            if not changed:
                return node
            for b in body:
                ast.copy_location(b, node)
                ast.fix_missing_locations(b)
            return body
    Expand().visit(tree)
    tree.body = [st for st in tree.body if not (isinstance(st, ast.ClassDef) and st.name in specs)]
    set_parents(tree)
    return sorted(specs)


def _cm_aliases(tree):
    out = {'contextmanager'}
    for n in tree.body:
        if isinstance(n, ast.ImportFrom) and n.module == 'contextlib':
            for a in n.names:
                if a.name == 'contextmanager':
                    out.add(a.asname or a.name)
    return out


def _is_yield_stmt(st):
    return isinstance(st, ast.Expr) and isinstance(st.value, ast.Yield)


def _has_yield(node):
    return any(isinstance(x, (ast.Yield, ast.YieldFrom)) for x in ast.walk(node))


def _body_jumps(body):
    stack = list(body)
    while stack:
        n = stack.pop()
        if isinstance(n, (ast.Return, ast.Break, ast.Continue)):
            return True
        if isinstance(n, (ast.FunctionDef, ast.AsyncFunctionDef, ast.Lambda, ast.ClassDef)):
            continue
        stack.extend(ast.iter_child_nodes(n))
    return False


def _cm_place(stmts, inner, jumps, tag):
    """the statements of a @contextmanager generator with its one ``yield`` statement replaced by ``inner`` (the
    binding of the target and the body of the with block), or None when the generator is not of a supported shape:
    the yield is reached through straight-line statements, ``with`` blocks and ``try`` bodies only, so it runs exactly
    once; what follows it runs on every exit of the block that is not an exception.  Exceptions of the block arrive
    at the yield, so handlers / finally clauses / enclosing with blocks of the generator apply to the block as
    written."""
    idx = [i for i, st in enumerate(stmts) if _has_yield(st)]
    if len(idx) != 1:
        return None
    i = idx[0]
    st, pre, post = stmts[i], stmts[:i], stmts[i + 1:]
    def plain(x):
        # statements that can be pasted around the block as they are: no jump leaves them
        if isinstance(x, ast.If):
            return all(plain(y) for y in x.body + x.orelse)
        return isinstance(x, (ast.Assign, ast.AugAssign, ast.Expr, ast.Pass, ast.Assert))
    for x in pre + post:
        if not plain(x):
            return None
        if any(isinstance(y, (ast.Lambda, ast.Await, ast.NamedExpr)) for y in ast.walk(x)):
            return None
    innermost = False
    if _is_yield_stmt(st):
        mid = list(inner)
        innermost = True
    elif isinstance(st, ast.With):
        if any(_has_yield(it) for it in st.items):
            return None
        new = _cm_place(st.body, inner, jumps, tag)
        if new is None:
            return None
        st.body = new
        mid = [st]
    elif isinstance(st, ast.Try):
        rest = st.handlers + st.orelse + st.finalbody
        if any(_has_yield(x) for x in rest) or _body_jumps(rest):
            return None
        if st.orelse and jumps:
            return None
        new = _cm_place(st.body, inner, jumps, tag)
        if new is None:
            return None
        st.body = new
        mid = [st]
    else:
        return None
    if post and jumps:
        if not innermost:
            return None
        # post runs on every exit of the block except an exception
        flag = '_cm%d_raised' % tag
        setf = ast.Assign(targets=[ast.Name(id=flag, ctx=ast.Store())], value=ast.Constant(value=False))
        hnd = ast.ExceptHandler(type=ast.Name(id='BaseException', ctx=ast.Load()), name=None,
                                body=[ast.Assign(targets=[ast.Name(id=flag, ctx=ast.Store())], value=ast.Constant(value=True)),
                                      ast.Raise(exc=None, cause=None)])
        fin = ast.If(test=ast.UnaryOp(op=ast.Not(), operand=ast.Name(id=flag, ctx=ast.Load())), body=post, orelse=[])
        return pre + [setf, ast.Try(body=mid, handlers=[hnd], orelse=[], finalbody=[fin])]
    return pre + mid + post


def _gen_cm_spec(fdef, is_method, aliases=('contextmanager',)):
    """a @contextmanager function whose single yield statement is reached exactly once (see _cm_place) -> dict, else None"""
    if not any(ast.unparse(d).split('.')[-1] in aliases for d in fdef.decorator_list) or len(fdef.decorator_list) != 1:
        return None
    a = fdef.args
    if a.vararg or a.kwarg or a.kwonlyargs or not all(isinstance(d, ast.Constant) for d in a.defaults):
        return None
    params = [x.arg for x in a.args]
    defaults = dict(zip(params[len(params) - len(a.defaults):], a.defaults)) if a.defaults else {}
    if is_method:
        if not params:
            return None
        me, params = params[0], params[1:]
        defaults.pop(me, None)
    else:
        me = None
    body = [st for st in fdef.body if not (isinstance(st, ast.Expr) and isinstance(st.value, ast.Constant))]
    ys = [x for st in body for x in ast.walk(st) if isinstance(x, (ast.Yield, ast.YieldFrom))]
    if len(ys) != 1 or not isinstance(ys[0], ast.Yield):
        return None
    if any(isinstance(x, (ast.Global, ast.Nonlocal, ast.FunctionDef, ast.ClassDef)) for st in body for x in ast.walk(st)):
        return None
    if _cm_place(_clone(body), [ast.Pass()], False, 0) is None or _body_jumps(body):
        return None
    stored = {x.id for st in body for x in ast.walk(st) if isinstance(x, ast.Name) and isinstance(x.ctx, ast.Store)}
    stored |= {x.name for st in body for x in ast.walk(st) if isinstance(x, ast.ExceptHandler) and x.name}
    if stored & set(params):
        return None
    return dict(me=me, params=params, body=body, locals=stored, name=fdef.name, defaults=defaults)


def expand_generator_context_managers(tree):
    """``with self.m(x):`` / ``with f(x):`` on a @contextmanager function of the same class / module that is a plain
    "pre; yield; post" generator is replaced by its pre and post statements around the body (try/finally when the
    generator has one); the function is dropped when no other mention of it is left.  -> names expanded"""
    import copy
    specs = {}          # (class name | None, function name) -> spec
    aliases = _cm_aliases(tree)
    for st in tree.body:
        if isinstance(st, ast.FunctionDef):
            sp = _gen_cm_spec(st, False, aliases)
            if sp:
                specs[(None, st.name)] = sp
        elif isinstance(st, ast.ClassDef):
            for m in st.body:
                if isinstance(m, ast.FunctionDef):
                    sp = _gen_cm_spec(m, True, aliases)
                    if sp:
                        specs[(st.name, m.name)] = sp
    if not specs:
        return []
    counter = [0]

    def enclosing_class(node):
        n = getattr(node, '_parent', None)
        while n is not None:
            if isinstance(n, ast.ClassDef):
                return n.name
            n = getattr(n, '_parent', None)
        return None

    def spec_for(ce, node):
        if not (isinstance(ce, ast.Call) and all(k.arg is not None and _simple_expr(k.value) for k in ce.keywords) and
                all(_simple_expr(x) for x in ce.args)):
            return None
        fn = ce.func
        sp = None
        if isinstance(fn, ast.Name):
            sp = specs.get((None, fn.id))
        elif isinstance(fn, ast.Attribute) and isinstance(fn.value, ast.Name) and fn.value.id == 'self':
            sp = specs.get((enclosing_class(node), fn.attr))
        if sp is None or bound_args(sp, ce) is None:
            return None
        return sp

    def bound_args(sp, ce):
        """the argument expression for every parameter: positional, by keyword, or the (constant) default"""
        if len(ce.args) > len(sp['params']):
            return None
        got = dict(zip(sp['params'], ce.args))
        for k in ce.keywords:
            if k.arg not in sp['params'] or k.arg in got:
                return None
            got[k.arg] = k.value
        for p_, d in sp.get('defaults', {}).items():
            got.setdefault(p_, d)
        if set(got) != set(sp['params']):
            return None
        return [got[p_] for p_ in sp['params']]

    def instantiate(stmts, sp, args, ref, tag):
        ren = {v: '_cm%d_%s' % (tag, v) for v in sp['locals']}

        class Sub(ast.NodeTransformer):
            def visit_Name(self, node):
                if node.id in ren:
                    return ast.copy_location(ast.Name(id=ren[node.id], ctx=node.ctx), node)
                if node.id in sp['params'] and isinstance(node.ctx, ast.Load):
                    return _clone(args[sp['params'].index(node.id)])
                if sp['me'] is not None and node.id == sp['me']:
                    return ast.copy_location(ast.Name(id='self', ctx=node.ctx), node)
                return node

            def visit_ExceptHandler(self, node):
                self.generic_visit(node)
                if node.name in ren:
                    node.name = ren[node.name]
                return node
        out = [Sub().visit(_clone(st)) for st in stmts]
        for st in out:
            for x in ast.walk(st):
                x.lineno = ref.lineno
                x.col_offset = ref.col_offset
                x.end_lineno = getattr(ref, 'end_lineno', ref.lineno)
                x.end_col_offset = getattr(ref, 'end_col_offset', ref.col_offset)
        return out
    used = set()

    class Expand(ast.NodeTransformer):
        def visit_With(self, node):
            self.generic_visit(node)
            body = node.body
            changed = False
            for item in reversed(node.items):
                sp = spec_for(item.context_expr, node)
                if sp is None or (item.optional_vars is not None and not isinstance(item.optional_vars, ast.Name)):
                    body = [ast.With(items=[item], body=body)]
                    continue
                counter[0] += 1
                tag = counter[0]
                args = bound_args(sp, item.context_expr)
                stmts = instantiate(sp['body'], sp, args, node, tag)
                ystmt = [x for st in stmts for x in ast.walk(st) if _is_yield_stmt(x)][0]
                bind = []
                if item.optional_vars is not None:
                    val = ystmt.value.value if ystmt.value.value is not None else ast.Constant(value=None)
                    bind = [ast.Assign(targets=[item.optional_vars], value=val)]
                new = _cm_place(stmts, bind + body, _body_jumps(body), tag)
                if new is None:
                    body = [ast.With(items=[item], body=body)]
                    continue
                body = new
                used.add(sp['name'])
                changed = True
            if not changed:
                return node
            for b in body:
                ast.copy_location(b, node)
                ast.fix_missing_locations(b)
            return body
    Expand().visit(tree)
    set_parents(tree)
    # drop the functions nothing mentions any more
    dropped = []
    for (cn, fn), sp in specs.items():
        if fn not in used:
            continue
        mention = False
        for n in ast.walk(tree):
            if (isinstance(n, ast.Name) and n.id == fn and cn is None) or (isinstance(n, ast.Attribute) and n.attr == fn):
                mention = True
            if isinstance(n, ast.Constant) and n.value == fn:
                mention = True
        if not mention:
            owner = tree if cn is None else next(c for c in tree.body if isinstance(c, ast.ClassDef) and c.name == cn)
            owner.body = [st for st in owner.body if not (isinstance(st, ast.FunctionDef) and st.name == fn)]
            dropped.append(fn)
    set_parents(tree)
    return dropped

def flatten_single_use_bases(tree, foreign_text=''):
    """A module-level class B that is nothing but the base of exactly one other class C of the same module (never
    mentioned otherwise, here or in another module; no super(); no name shared with C; no private-mangled names; plain
    bases) is merged into C: attribute lookup through the MRO finds the same functions either way.  Returns the names
    of the merged classes."""
    merged = []
    while True:
        classes = {c.name: c for c in tree.body if isinstance(c, ast.ClassDef)}
        base_refs = {}
        base_ids = set()
        for c in classes.values():
            for b in c.bases:
                if isinstance(b, ast.Name) and b.id in classes:
                    base_refs.setdefault(b.id, []).append(c)
                    base_ids.add(id(b))
        done = False
        for bname, subs in base_refs.items():
            B = classes[bname]
            if len(subs) != 1 or subs[0] is B:
                continue
            C = subs[0]
            if B.decorator_list or B.keywords or C.keywords:
                continue
            if any(not (isinstance(b, ast.Name) and b.id == 'object') for b in B.bases):
                continue
            if len([b for b in C.bases if not (isinstance(b, ast.Name) and b.id == 'object')]) != 1:
                continue
            if re.search(r'\b%s\b' % re.escape(bname), foreign_text):
                continue
            other = False
            for n in ast.walk(tree):
                if isinstance(n, ast.Name) and n.id == bname and id(n) not in base_ids:
                    other = True
                elif isinstance(n, ast.Attribute) and n.attr == bname:
                    other = True
                elif isinstance(n, ast.Constant) and n.value == bname:
                    other = True
                elif isinstance(n, (ast.Global, ast.Nonlocal)) and bname in n.names:
                    other = True
            if other:
                continue

            def defined(cdef):
                out = set()
                for st in cdef.body:
                    if isinstance(st, (ast.FunctionDef, ast.AsyncFunctionDef, ast.ClassDef)):
                        out.add(st.name)
                    elif isinstance(st, (ast.Assign, ast.AnnAssign, ast.AugAssign)):
                        for t in (st.targets if isinstance(st, ast.Assign) else [st.target]):
                            out |= {x.id for x in ast.walk(t) if isinstance(x, ast.Name)}
                    elif not (isinstance(st, ast.Pass) or (isinstance(st, ast.Expr) and isinstance(st.value, ast.Constant))):
                        out.add('*')
                return out
            db, dc = defined(B), defined(C)
            if '*' in db or '*' in dc or (db & dc):
                continue
            bad = False
            for n in list(ast.walk(B)) + list(ast.walk(C)):
                if isinstance(n, ast.Name) and n.id in ('super', '__class__'):
                    bad = True
                ident = n.attr if isinstance(n, ast.Attribute) else n.id if isinstance(n, ast.Name) else \
                    n.name if isinstance(n, ast.FunctionDef) else None
                if ident and ident.startswith('__') and not ident.endswith('__'):
                    bad = True
            if bad:
                continue
            moved = [st for st in B.body if not (isinstance(st, ast.Pass) or (isinstance(st, ast.Expr) and isinstance(st.value, ast.Constant)))]
            head = [st for st in C.body[:1] if isinstance(st, ast.Expr) and isinstance(st.value, ast.Constant)]
            C.body = head + moved + C.body[len(head):]
            C.bases = [b for b in C.bases if not (isinstance(b, ast.Name) and b.id == bname)] or [ast.copy_location(ast.Name(id='object', ctx=ast.Load()), C)]
            tree.body = [st for st in tree.body if st is not B]
            merged.append(bname)
            done = True
            break
        if not done:
            return merged

def specialise_template_methods(tree):
    """Template methods: a method m of a class B that calls a hook ``self.h(..)`` which direct subclasses of B (re)define is
    copied into every direct subclass that inherits m, so that per-class analyses see m together with that class's hook.
    The copy is what the subclass inherits anyway.  -> ['S.m', ...]"""
    classes = {c.name: c for c in tree.body if isinstance(c, ast.ClassDef)}
    out = []
    for B in list(classes.values()):
        subs = [c for c in classes.values() if any(isinstance(b, ast.Name) and b.id == B.name for b in c.bases) and c is not B]
        if not subs:
            continue
        bmeths = {m.name: m for m in B.body if isinstance(m, ast.FunctionDef)}
        for m in bmeths.values():
            if m.decorator_list or not m.args.args:
                continue
            me = m.args.args[0].arg
            if any(isinstance(x, ast.Name) and x.id in ('super', '__class__') for x in ast.walk(m)):
                continue
            hooks = {x.func.attr for x in ast.walk(m) if isinstance(x, ast.Call) and isinstance(x.func, ast.Attribute)
                     and isinstance(x.func.value, ast.Name) and x.func.value.id == me}
            for S in subs:
                smeths = {x.name for x in S.body if isinstance(x, ast.FunctionDef)}
                if m.name in smeths or not (hooks & smeths):
                    continue
                S.body.append(_clone(m))
                out.append('%s.%s' % (S.name, m.name))
    return out

def desugar_match(tree):
    """``match`` statements whose patterns are class patterns without sub-patterns, literals, ``|`` alternatives of these,
    captures and ``_`` become the if/elif chains they abbreviate (a class pattern ``C()`` is ``isinstance(subject, C)``;
    cases are tried in order; no case, no effect).  Other patterns are left alone.  -> number of statements rewritten"""
    counter = [0]

    def test_of(pat, subj):
        """-> (test expression | None for always, bindings [(name)]) or False when unsupported"""
        if isinstance(pat, ast.MatchClass):
            if pat.patterns or pat.kwd_patterns:
                return False
            return ast.Call(func=ast.Name(id='isinstance', ctx=ast.Load()), args=[_clone(subj), _clone(pat.cls)], keywords=[]), []
        if isinstance(pat, ast.MatchValue):
            return ast.Compare(left=_clone(subj), ops=[ast.Eq()], comparators=[_clone(pat.value)]), []
        if isinstance(pat, ast.MatchSingleton):
            return ast.Compare(left=_clone(subj), ops=[ast.Is()], comparators=[ast.Constant(value=pat.value)]), []
        if isinstance(pat, ast.MatchAs):
            if pat.pattern is None:
                return None, ([pat.name] if pat.name else [])
            r = test_of(pat.pattern, subj)
            if r is False:
                return False
            return r[0], r[1] + ([pat.name] if pat.name else [])
        if isinstance(pat, ast.MatchOr):
            tests = []
            for p in pat.patterns:
                r = test_of(p, subj)
                if r is False or r[1]:
                    return False
                if r[0] is None:
                    return None, []
                tests.append(r[0])
            return ast.BoolOp(op=ast.Or(), values=tests), []
        return False

    class T(ast.NodeTransformer):
        def visit_Match(self, node):
            self.generic_visit(node)
            pre = []
            subj = node.subject
            if not _simple_expr(subj):
                counter[0] += 1
                name = '_match%d_subject' % counter[0]
                pre = [ast.Assign(targets=[ast.Name(id=name, ctx=ast.Store())], value=subj)]
                subj = ast.Name(id=name, ctx=ast.Load())
            arms = []
            for c in node.cases:
                r = test_of(c.pattern, subj)
                if r is False:
                    return node
                test, binds = r
                if c.guard is not None:
                    if binds:
                        return node
                    test = c.guard if test is None else ast.BoolOp(op=ast.And(), values=[test, c.guard])
                body = [ast.Assign(targets=[ast.Name(id=b, ctx=ast.Store())], value=_clone(subj)) for b in binds] + c.body
                arms.append((test, body))
                if test is None:
                    break
            chain = []
            for test, body in reversed(arms):
                if test is None:
                    chain = body
                else:
                    chain = [ast.If(test=test, body=body, orelse=chain)]
            out = pre + (chain or [ast.Pass()])
            for st in out:
                ast.copy_location(st, node)
                ast.fix_missing_locations(st)
            counter[0] += 1
            return out
    if not any(isinstance(n, ast.Match) for n in ast.walk(tree)):
        return 0
    T().visit(tree)
    return counter[0]

def dissolve_field_helper_classes(tree, foreign_text=''):
    """A module-level class K without constructor and special methods that derives from dict / list / set (or nothing),
    whose instances are created only as ``self.F = K()`` in the methods of one class Y, always for the same field F, and
    used only as ``self.F.m(..)`` / through the operations of the base type: the methods of K become methods
    ``_K__m`` of Y working on ``self.F``, and the field holds a plain container.  The same code runs on the same data;
    the analyses then see the store and its helpers in one class.  -> names of the dissolved classes"""
    done = []
    for K in [c for c in tree.body if isinstance(c, ast.ClassDef)]:
        bases = [b.id if isinstance(b, ast.Name) else None for b in K.bases]
        if K.decorator_list or K.keywords or any(b not in ('object', 'dict', 'list', 'set') for b in bases):
            continue
        base = next((b for b in bases if b != 'object'), None)
        if base is None:
            continue
        if re.search(r'\b%s\b' % re.escape(K.name), foreign_text):
            continue
        body = [st for st in K.body if not (isinstance(st, ast.Pass) or (isinstance(st, ast.Expr) and isinstance(st.value, ast.Constant)))]
        if not body or not all(isinstance(st, ast.FunctionDef) for st in body):
            continue
        meths = {m.name: m for m in body}
        if any(n.startswith('__') for n in meths) or any(m.decorator_list or not m.args.args or m.args.vararg or m.args.kwarg for m in meths.values()):
            continue
        set_parents(tree)
        mentions = [n for n in ast.walk(tree) if (isinstance(n, ast.Name) and n.id == K.name) or
                    (isinstance(n, ast.Attribute) and n.attr == K.name) or (isinstance(n, ast.Constant) and n.value == K.name)]
        sites = []
        ok = True
        for n in mentions:
            call = getattr(n, '_parent', None)
            asg = getattr(call, '_parent', None)
            if not (isinstance(n, ast.Name) and isinstance(call, ast.Call) and call.func is n and not call.args and not call.keywords and
                    isinstance(asg, ast.Assign) and asg.value is call and len(asg.targets) == 1 and isinstance(asg.targets[0], ast.Attribute)
                    and isinstance(asg.targets[0].value, ast.Name)):
                ok = False
                break
            fn = asg
            while fn is not None and not isinstance(fn, ast.FunctionDef):
                fn = getattr(fn, '_parent', None)
            cls = getattr(fn, '_parent', None) if fn is not None else None
            if not isinstance(cls, ast.ClassDef) or cls is K or not fn.args.args or fn.args.args[0].arg != asg.targets[0].value.id:
                ok = False
                break
            sites.append((cls, asg.targets[0].attr, call))
        if not ok or not sites or len({id(c) for c, _, _ in sites}) != 1 or len({f for _, f, _ in sites}) != 1:
            continue
        Y, F = sites[0][0], sites[0][1]
        new_names = {m: '_%s__%s' % (K.name.lstrip('_'), m) for m in meths}
        ydefs = {st.name for st in Y.body if isinstance(st, (ast.FunctionDef, ast.ClassDef))}
        if set(new_names.values()) & ydefs:
            continue
        # every mention of the field: the receiver of a call / subscript / attribute, an operand of ``in``, the iterable of a
        # loop, or the target of one of the constructions above - never passed on as a value
        for n in ast.walk(tree):
            if isinstance(n, ast.Attribute) and n.attr == F:
                par = getattr(n, '_parent', None)
                if isinstance(n.ctx, ast.Store):
                    if not any(par is c._parent for _, _, c in sites):
                        ok = False
                elif isinstance(par, ast.Attribute) and par.value is n:
                    pass
                elif isinstance(par, ast.Subscript) and par.value is n:
                    pass
                elif isinstance(par, (ast.For, ast.comprehension)) and par.iter is n:
                    pass
                elif isinstance(par, ast.Compare) and n in par.comparators and all(isinstance(o, (ast.In, ast.NotIn)) for o in par.ops):
                    pass
                elif isinstance(par, ast.Call) and isinstance(par.func, ast.Name) and par.func.id in ('len', 'bool', 'list', 'sorted', 'iter') and n in par.args:
                    pass
                else:
                    ok = False
                # the field of another object than the method's own
                fn = n
                while fn is not None and not isinstance(fn, ast.FunctionDef):
                    fn = getattr(fn, '_parent', None)
                if fn is None or not isinstance(getattr(fn, '_parent', None), ast.ClassDef) or fn._parent is not Y or \
                        not fn.args.args or not (isinstance(n.value, ast.Name) and n.value.id == fn.args.args[0].arg):
                    ok = False
            if isinstance(n, ast.Constant) and n.value == F:
                ok = False
        for m in meths.values():
            me = m.args.args[0].arg
            for x in ast.walk(m):
                if isinstance(x, ast.Name) and x.id in ('super', '__class__'):
                    ok = False
                if isinstance(x, ast.Name) and x.id == me and isinstance(x.ctx, (ast.Store, ast.Del)):
                    ok = False
                if isinstance(x, ast.Attribute) and isinstance(x.value, ast.Name) and x.value.id == me and isinstance(x.ctx, (ast.Store, ast.Del)):
                    ok = False
                if isinstance(x, (ast.FunctionDef, ast.Lambda)) and x is not m and any(a.arg == me for a in x.args.args):
                    ok = False
        if not ok:
            continue
        # 1. calls self.F.m(..) in Y -> self._K__m(..)
        for n in ast.walk(Y):
            if isinstance(n, ast.Call) and isinstance(n.func, ast.Attribute) and n.func.attr in meths and \
                    isinstance(n.func.value, ast.Attribute) and n.func.value.attr == F:
                n.func = ast.copy_location(ast.Attribute(value=n.func.value.value, attr=new_names[n.func.attr], ctx=ast.Load()), n.func)
        # 2. the methods move: their own ``self`` becomes ``self.F``, calls among them stay among them
        for m in meths.values():
            me = m.args.args[0].arg

            class Sub(ast.NodeTransformer):
                def visit_Attribute(self, node):
                    if isinstance(node.value, ast.Name) and node.value.id == me and node.attr in meths:
                        return ast.copy_location(ast.Attribute(value=node.value, attr=new_names[node.attr], ctx=node.ctx), node)
                    self.generic_visit(node)
                    return node

                def visit_Name(self, node):
                    if node.id == me and isinstance(node.ctx, ast.Load):
                        return ast.copy_location(ast.Attribute(value=ast.Name(id=me, ctx=ast.Load()), attr=F, ctx=ast.Load()), node)
                    return node
            m.body = [Sub().visit(st) for st in m.body]
            m.name = new_names[m.name]
            ast.fix_missing_locations(m)
            Y.body.append(m)
        # 3. the field holds the plain container
        for _, _, call in sites:
            call.func = ast.copy_location(ast.Name(id=base, ctx=ast.Load()), call.func)
        tree.body = [st for st in tree.body if st is not K]
        done.append(K.name)
    return done

def inline_keyword_forwarders(tree):
    """A method ``def m(self, p.., **kw): return <expr>`` of a class, in which ``kw`` occurs only as ``**kw`` of calls, is a
    forwarder: every call ``self.m(a.., k=v..)`` (no star arguments, the parameters given by position) is replaced by
    <expr> with the arguments for the parameters and the keywords written out.  Repeated until nothing changes (a
    forwarder may call a forwarder).  -> ['C.m', ...]"""
    done = []
    for C in [c for c in tree.body if isinstance(c, ast.ClassDef)]:
        fw = {}
        for m in C.body:
            if not isinstance(m, ast.FunctionDef) or m.decorator_list or m.args.kwarg is None or m.args.vararg or \
                    m.args.kwonlyargs or m.args.defaults or not m.args.args:
                continue
            body = [st for st in m.body if not (isinstance(st, ast.Expr) and isinstance(st.value, ast.Constant))]
            if len(body) != 1 or not isinstance(body[0], ast.Return) or body[0].value is None:
                continue
            kw = m.args.kwarg.arg
            e = body[0].value
            uses = [x for x in ast.walk(e) if isinstance(x, ast.Name) and x.id == kw]
            stars = [k.value for c in ast.walk(e) if isinstance(c, ast.Call) for k in c.keywords if k.arg is None]
            if not uses or any(u not in stars for u in uses):
                continue
            params = [a.arg for a in m.args.args]
            if any(sum(1 for x in ast.walk(e) if isinstance(x, ast.Name) and x.id == p_) > 1 for p_ in params[1:]):
                continue            # an argument expression would be evaluated twice
            fw[m.name] = (params, kw, e)
        if not fw:
            continue
        for _ in range(4):
            changed = [False]

            class Sub(ast.NodeTransformer):
                def visit_Call(self, node):
                    self.generic_visit(node)
                    f = node.func
                    if isinstance(f, ast.Attribute) and isinstance(f.value, ast.Name) and f.value.id == 'self' and f.attr in fw and \
                            all(k.arg is not None for k in node.keywords) and not any(isinstance(a, ast.Starred) for a in node.args):
                        params, kw, e = fw[f.attr]
                        if len(node.args) != len(params) - 1:
                            return node
                        amap = dict(zip(params[1:], node.args))
                        amap[params[0]] = ast.Name(id='self', ctx=ast.Load())
                        kws = node.keywords

                        class Put(ast.NodeTransformer):
                            def visit_Name(self, n):
                                if n.id in amap and isinstance(n.ctx, ast.Load):
                                    return ast.copy_location(_clone(amap[n.id]), n)
                                return n

                            def visit_Call(self, c):
                                self.generic_visit(c)
                                new_kw = []
                                for k in c.keywords:
                                    if k.arg is None and isinstance(k.value, ast.Name) and k.value.id == kw:
                                        new_kw.extend(ast.keyword(arg=q.arg, value=_clone(q.value)) for q in kws)
                                    else:
                                        new_kw.append(k)
                                c.keywords = new_kw
                                return c
                        out = Put().visit(_clone(e))
                        ast.copy_location(out, node)
                        for x in ast.walk(out):
                            if not hasattr(x, 'lineno') and isinstance(x, (ast.expr, ast.keyword)):
                                ast.copy_location(x, node)
                        ast.fix_missing_locations(out)
                        changed[0] = True
                        if '%s.%s' % (C.name, f.attr) not in done:
                            done.append('%s.%s' % (C.name, f.attr))
                        return out
                    return node
            for m in C.body:
                if isinstance(m, ast.FunctionDef) and m.name not in fw:
                    Sub().visit(m)
            # forwarders that call forwarders
            for name, (params, kw, e) in list(fw.items()):
                e2 = Sub().visit(_clone(e))
                fw[name] = (params, kw, e2)
            if not changed[0]:
                break
    if done:
        set_parents(tree)
    return done


def format_calls_to_fstrings(tree):
    """``T.format(a.., k=v..)`` where T is a string literal, a module-level name bound once to a string literal, or
    ``D['key']`` with D a module-level dict display of string literals, becomes the f-string that it abbreviates
    (plain ``{}``, ``{0}``, ``{name}`` fields with an optional !s / !r conversion and no format spec; every argument used
    exactly once, so nothing is evaluated twice or dropped).  -> number of calls rewritten"""
    import string
    consts, tables = {}, {}
    counts = {}
    for st in tree.body:
        if isinstance(st, ast.Assign) and len(st.targets) == 1 and isinstance(st.targets[0], ast.Name):
            counts[st.targets[0].id] = counts.get(st.targets[0].id, 0) + 1
            if isinstance(st.value, ast.Constant) and isinstance(st.value.value, str):
                consts[st.targets[0].id] = st.value.value
            elif isinstance(st.value, ast.Dict) and st.value.keys and all(
                    isinstance(k, ast.Constant) and isinstance(v, ast.Constant) and isinstance(v.value, str) for k, v in zip(st.value.keys, st.value.values)):
                tables[st.targets[0].id] = {k.value: v.value for k, v in zip(st.value.keys, st.value.values)}
    stored = {x.id for x in ast.walk(tree) if isinstance(x, ast.Name) and isinstance(x.ctx, (ast.Store, ast.Del))}
    mutated = {x.value.id for x in ast.walk(tree) if isinstance(x, ast.Subscript) and isinstance(x.ctx, (ast.Store, ast.Del)) and isinstance(x.value, ast.Name)}
    mutated |= {x.func.value.id for x in ast.walk(tree) if isinstance(x, ast.Call) and isinstance(x.func, ast.Attribute) and
                isinstance(x.func.value, ast.Name) and x.func.attr in ('update', 'pop', 'clear', 'setdefault', 'popitem')}
    consts = {k: v for k, v in consts.items() if counts.get(k) == 1}
    tables = {k: v for k, v in tables.items() if counts.get(k) == 1 and k not in mutated}
    n = [0]

    def template(e):
        if isinstance(e, ast.Constant) and isinstance(e.value, str):
            return e.value
        if isinstance(e, ast.Name) and e.id in consts:
            return consts[e.id]
        if isinstance(e, ast.Subscript) and isinstance(e.value, ast.Name) and e.value.id in tables and isinstance(e.slice, ast.Constant):
            return tables[e.value.id].get(e.slice.value)
        return None

    class Sub(ast.NodeTransformer):
        def visit_Call(self, node):
            self.generic_visit(node)
            f = node.func
            if not (isinstance(f, ast.Attribute) and f.attr == 'format'):
                return node
            t = template(f.value)
            if t is None or any(isinstance(a, ast.Starred) for a in node.args) or any(k.arg is None for k in node.keywords):
                return node
            try:
                parts = list(string.Formatter().parse(t))
            except ValueError:
                return node
            kws = {k.arg: k.value for k in node.keywords}
            used = []
            vals = []
            auto = 0
            for lit, field, spec, conv in parts:
                if lit:
                    vals.append(ast.Constant(value=lit))
                if field is None:
                    continue
                if spec or conv not in (None, 's', 'r'):
                    return node
                if field == '':
                    key = auto
                    auto += 1
                elif field.isdigit():
                    key = int(field)
                elif field.isidentifier():
                    key = field
                else:
                    return node
                if isinstance(key, int):
                    if key >= len(node.args):
                        return node
                    v = node.args[key]
                else:
                    if key not in kws:
                        return node
                    v = kws[key]
                used.append(key)
                vals.append(ast.FormattedValue(value=v, conversion={None: -1, 's': 115, 'r': 114}[conv], format_spec=None))
            if sorted(map(str, used)) != sorted(map(str, list(range(len(node.args))) + list(kws))):
                return node         # an argument is used twice or not at all
            n[0] += 1
            out = ast.JoinedStr(values=vals) if vals else ast.Constant(value='')
            ast.copy_location(out, node)
            for x in ast.walk(out):
                if not hasattr(x, 'lineno'):
                    ast.copy_location(x, node)
            ast.fix_missing_locations(out)
            return out
    Sub().visit(tree)
    if n[0]:
        set_parents(tree)
    return n[0]


def inline_simple_properties(tree):
    """A read-only property with a private name that no other class of the module uses, whose body is one ``return`` of an
    expression over ``self``, is replaced at every read ``Y._p`` (Y a name or attribute chain) by that expression with Y
    for ``self``.  -> ['C._p', ...]"""
    props = {}
    for C in [c for c in tree.body if isinstance(c, ast.ClassDef)]:
        for m in C.body:
            if isinstance(m, ast.FunctionDef) and len(m.decorator_list) == 1 and isinstance(m.decorator_list[0], ast.Name) and \
                    m.decorator_list[0].id == 'property' and m.name.startswith('_') and not m.name.startswith('__') and len(m.args.args) == 1:
                body = [st for st in m.body if not (isinstance(st, ast.Expr) and isinstance(st.value, ast.Constant))]
                if len(body) == 1 and isinstance(body[0], ast.Return) and body[0].value is not None:
                    me = m.args.args[0].arg
                    e = body[0].value
                    if all(not isinstance(x, (ast.Call, ast.Lambda, ast.Yield, ast.Await, ast.NamedExpr)) for x in ast.walk(e)) and \
                            all(x.id == me or x.id in ('None', 'True', 'False') or x.id[:1].isupper() or x.id.startswith('_')
                                for x in ast.walk(e) if isinstance(x, ast.Name)):
                        props.setdefault(m.name, []).append((C, m, me, e))
    out = []
    for name, defs in props.items():
        if len(defs) != 1:
            continue
        C, m, me, e = defs[0]
        clash = False
        for n in ast.walk(tree):
            if isinstance(n, ast.Attribute) and n.attr == name and isinstance(n.ctx, (ast.Store, ast.Del)):
                clash = True
            if isinstance(n, ast.Constant) and n.value == name:
                clash = True
            if isinstance(n, (ast.FunctionDef, ast.ClassDef)) and n.name == name and n is not m:
                clash = True
            if isinstance(n, ast.Attribute) and n.attr in ('setter', 'deleter') and isinstance(n.value, ast.Name) and n.value.id == name:
                clash = True
            if isinstance(n, ast.Name) and n.id == name:
                clash = True
        if clash:
            continue

        def chain(y):
            return isinstance(y, ast.Name) or (isinstance(y, ast.Attribute) and chain(y.value))

        class T(ast.NodeTransformer):
            def visit_Attribute(self, node):
                self.generic_visit(node)
                if node.attr == name and isinstance(node.ctx, ast.Load) and chain(node.value):
                    recv = node.value

                    class S(ast.NodeTransformer):
                        def visit_Name(self, x):
                            if x.id == me:
                                return ast.copy_location(_clone(recv), x)
                            return x
                    new = S().visit(_clone(e))
                    for x in ast.walk(new):
                        ast.copy_location(x, node)
                    return new
                return node
        for st in tree.body:
            if isinstance(st, ast.ClassDef):
                for sub in st.body:
                    if sub is not m:
                        T().visit(sub)
            else:
                T().visit(st)
        out.append('%s.%s' % (C.name, name))
    return out

def desugar_conditional_statements(tree):
    """``return A if T else B`` and ``x = A if T else B`` (plain name / attribute targets) become the if/else statements
    they abbreviate.  -> number of statements rewritten"""
    count = [0]

    def split(st):
        if isinstance(st, ast.Return) and isinstance(st.value, ast.IfExp):
            e = st.value
            a = ast.copy_location(ast.Return(value=e.body), st)
            b = ast.copy_location(ast.Return(value=e.orelse), st)
        elif isinstance(st, ast.Assign) and isinstance(st.value, ast.IfExp) and len(st.targets) == 1 and \
                isinstance(st.targets[0], (ast.Name, ast.Attribute)) and (isinstance(st.targets[0], ast.Name) or isinstance(st.targets[0].value, ast.Name)):
            e = st.value
            a = ast.copy_location(ast.Assign(targets=[_clone(st.targets[0])], value=e.body), st)
            b = ast.copy_location(ast.Assign(targets=[_clone(st.targets[0])], value=e.orelse), st)
        else:
            return None
        count[0] += 1
        new = ast.copy_location(ast.If(test=e.test, body=split(a) or [a], orelse=split(b) or [b]), st)
        ast.fix_missing_locations(new)
        return [new]

    def first_walrus(e):
        """the assignment expression that is evaluated first, unconditionally, when e is evaluated (or None)"""
        if isinstance(e, ast.NamedExpr):
            return e
        if isinstance(e, ast.Compare):
            return first_walrus(e.left)
        if isinstance(e, ast.UnaryOp):
            return first_walrus(e.operand)
        if isinstance(e, ast.BoolOp):
            return first_walrus(e.values[0])
        if isinstance(e, ast.Call) and not isinstance(e.func, ast.NamedExpr) and not e.args:
            return None
        return None

    def hoist_walrus(st):
        """``if (x := E) is not None:`` -> ``x = E`` in front of ``if x is not None:``"""
        if not isinstance(st, ast.If):
            return None
        w = first_walrus(st.test)
        if w is None or not isinstance(w.target, ast.Name) or any(isinstance(x, ast.NamedExpr) for x in ast.walk(w.value)):
            return None
        assign = ast.copy_location(ast.Assign(targets=[ast.Name(id=w.target.id, ctx=ast.Store())], value=w.value), st)
        ast.fix_missing_locations(assign)

        class R(ast.NodeTransformer):
            def visit_NamedExpr(self, node):
                if node is w:
                    return ast.copy_location(ast.Name(id=w.target.id, ctx=ast.Load()), node)
                return self.generic_visit(node)
        st.test = R().visit(st.test)
        count[0] += 1
        return [assign, st]

    def walk(node):
        for fld in ('body', 'orelse', 'finalbody'):
            lst = getattr(node, fld, None)
            if isinstance(lst, list) and lst and isinstance(lst[0], ast.stmt):
                out = []
                for st in lst:
                    walk(st)
                    out.extend(split(st) or hoist_walrus(st) or [st])
                setattr(node, fld, out)
        for h in getattr(node, 'handlers', []) or []:
            walk(h)
        for c in getattr(node, 'cases', []) or []:
            walk(c)
    walk(tree)
    return count[0]

def synthesise_dataclass_constructors(tree):
    """A @dataclass without a constructor of its own gets the constructor the decorator would write: one parameter per
    annotated field, in order, with its default (``field(default_factory=F)`` reads as "F() when not given").  -> class names"""
    out = []
    for C in [c for c in ast.walk(tree) if isinstance(c, ast.ClassDef)]:
        decs = [ast.unparse(d.func if isinstance(d, ast.Call) else d).split('.')[-1] for d in C.decorator_list]
        if 'dataclass' not in decs or any(isinstance(m, ast.FunctionDef) and m.name == '__init__' for m in C.body):
            continue
        if any(isinstance(d, ast.Call) and any(k.arg == 'init' and isinstance(k.value, ast.Constant) and k.value.value is False for k in d.keywords)
               for d in C.decorator_list):
            continue
        fields = [st for st in C.body if isinstance(st, ast.AnnAssign) and isinstance(st.target, ast.Name) and
                  'ClassVar' not in ast.unparse(st.annotation)]
        if not fields:
            continue
        args, defaults, body = [ast.arg(arg='self')], [], []
        ok = True
        for st in fields:
            name = st.target.id
            args.append(ast.arg(arg=name))
            v = st.value
            factory = None
            if isinstance(v, ast.Call) and ast.unparse(v.func).split('.')[-1] == 'field':
                kw = {k.arg: k.value for k in v.keywords}
                if 'default_factory' in kw:
                    factory = kw['default_factory']
                    v = ast.Constant(value=None)
                elif 'default' in kw:
                    v = kw['default']
                else:
                    v = None
            if v is not None:
                defaults.append(v)
            elif defaults:
                ok = False
            if factory is not None:
                body.append(ast.If(test=ast.Compare(left=ast.Name(id=name, ctx=ast.Load()), ops=[ast.Is()], comparators=[ast.Constant(value=None)]),
                                   body=[ast.Assign(targets=[ast.Name(id=name, ctx=ast.Store())], value=ast.Call(func=_clone(factory), args=[], keywords=[]))],
                                   orelse=[]))
            body.append(ast.Assign(targets=[ast.Attribute(value=ast.Name(id='self', ctx=ast.Load()), attr=name, ctx=ast.Store())],
                                   value=ast.Name(id=name, ctx=ast.Load())))
        if not ok:
            continue
        post = [m for m in C.body if isinstance(m, ast.FunctionDef) and m.name == '__post_init__']
        if post:
            body.append(ast.Expr(value=ast.Call(func=ast.Attribute(value=ast.Name(id='self', ctx=ast.Load()), attr='__post_init__', ctx=ast.Load()), args=[], keywords=[])))
        init = ast.FunctionDef(name='__init__', args=ast.arguments(posonlyargs=[], args=args, vararg=None, kwonlyargs=[], kw_defaults=[], kwarg=None, defaults=defaults),
                               body=body, decorator_list=[], returns=None, type_comment=None)
        if hasattr(ast, 'TypeVar'):
            init.type_params = []
        ast.copy_location(init, C)
        for x in ast.walk(init):
            ast.copy_location(x, C)
        ast.fix_missing_locations(init)
        C.body.append(init)
        out.append(C.name)
    return out

def canonical_term_fields(tree):
    """The public term classes Atom(name) and Functor(name, args) keep their constructor arguments in private fields that the
    analyses know as ``_name`` and ``_args``.  When the fields carry other names (with the old names kept as alias
    properties or not at all), they are renamed back throughout the module.  -> {old: canonical}"""
    classes = {c.name: c for c in tree.body if isinstance(c, ast.ClassDef)}
    ren = {}
    for cname, canon in (('Atom', ('_name',)), ('Functor', ('_name', '_args'))):
        C = classes.get(cname)
        init = next((m for m in C.body if isinstance(m, ast.FunctionDef) and m.name == '__init__'), None) if C is not None else None
        if init is None or len(init.args.args) < 1 + len(canon):
            continue
        me = init.args.args[0].arg
        for p_, want in zip([a.arg for a in init.args.args[1:]], canon):
            flds = [t.attr for st in init.body if isinstance(st, ast.Assign) and isinstance(st.value, ast.Name) and st.value.id == p_
                    for t in st.targets if isinstance(t, ast.Attribute) and isinstance(t.value, ast.Name) and t.value.id == me]
            if len(flds) == 1 and flds[0] != want:
                if ren.get(flds[0], want) != want:
                    return {}
                ren[flds[0]] = want
    if not ren:
        return {}
    # the old names may only be used by these classes, and the canonical names only as alias properties
    for old, want in ren.items():
        for c in classes.values():
            if c.name in ('Atom', 'Functor'):
                continue
            for x in ast.walk(c):
                if isinstance(x, ast.Attribute) and x.attr == old and isinstance(x.ctx, ast.Store) and isinstance(x.value, ast.Name) and x.value.id == 'self':
                    return {}
    for c in (classes.get('Atom'), classes.get('Functor')):
        if c is None:
            continue
        keep = []
        for m in c.body:
            if isinstance(m, ast.FunctionDef) and m.name in ren.values():
                decs = [ast.unparse(d) for d in m.decorator_list]
                if decs == ['property'] or any(d.endswith('.setter') for d in decs):
                    body = [st for st in m.body if not (isinstance(st, ast.Expr) and isinstance(st.value, ast.Constant))]
                    if len(body) == 1 and any(isinstance(x, ast.Attribute) and x.attr in ren for x in ast.walk(body[0])):
                        continue            # an alias property of the renamed field: dropped
                return {}
            keep.append(m)
        c.body = keep
    for x in ast.walk(tree):
        if isinstance(x, ast.Attribute) and x.attr in ren:
            x.attr = ren[x.attr]
    return ren

def dissolve_field_helper_objects(tree, foreign_text=''):
    """A plain module-level class K (no bases, constructor ``__init__(self)`` made of ``self.x = <fresh value>`` statements,
    no other special methods) whose instances are created only as ``self.F = K()`` in the methods of one class Y, always
    for the same field F, and used there only as ``self.F.m(..)`` / ``self.F.x``: the fields of the object become fields
    ``F__x`` of Y and its methods become methods ``_K__m`` of Y.  -> names of the dissolved classes"""
    done = []
    for K in [c for c in tree.body if isinstance(c, ast.ClassDef)]:
        if K.decorator_list or K.keywords or any(not (isinstance(b, ast.Name) and b.id == 'object') for b in K.bases):
            continue
        if re.search(r'\b%s\b' % re.escape(K.name), foreign_text):
            continue
        body = [st for st in K.body if not (isinstance(st, ast.Pass) or (isinstance(st, ast.Expr) and isinstance(st.value, ast.Constant)))]
        if not body or not all(isinstance(st, ast.FunctionDef) for st in body):
            continue
        meths = {m.name: m for m in body}
        init = meths.pop('__init__', None)
        if init is None or len(init.args.args) != 1 or init.args.vararg or init.args.kwarg or init.decorator_list:
            continue
        if any(n.startswith('__') for n in meths) or any(m.decorator_list or not m.args.args or m.args.vararg or m.args.kwarg for m in meths.values()):
            continue
        ime = init.args.args[0].arg
        ibody = [st for st in init.body if not (isinstance(st, ast.Expr) and isinstance(st.value, ast.Constant))]
        fields = {}
        ok = True
        for st in ibody:
            if not (isinstance(st, ast.Assign) and len(st.targets) == 1 and isinstance(st.targets[0], ast.Attribute) and
                    isinstance(st.targets[0].value, ast.Name) and st.targets[0].value.id == ime and
                    not any(isinstance(x, ast.Name) and x.id == ime for x in ast.walk(st.value))):
                ok = False
                break
            fields[st.targets[0].attr] = st.value
        if not ok or not fields:
            continue
        set_parents(tree)
        sites = []
        for n in ast.walk(tree):
            hit = (isinstance(n, ast.Name) and n.id == K.name) or (isinstance(n, ast.Attribute) and n.attr == K.name) or \
                (isinstance(n, ast.Constant) and n.value == K.name)
            if not hit:
                continue
            call = getattr(n, '_parent', None)
            asg = getattr(call, '_parent', None)
            if not (isinstance(n, ast.Name) and isinstance(call, ast.Call) and call.func is n and not call.args and not call.keywords and
                    isinstance(asg, ast.Assign) and asg.value is call and len(asg.targets) == 1 and isinstance(asg.targets[0], ast.Attribute)
                    and isinstance(asg.targets[0].value, ast.Name)):
                ok = False
                break
            fn = asg
            while fn is not None and not isinstance(fn, ast.FunctionDef):
                fn = getattr(fn, '_parent', None)
            cls = getattr(fn, '_parent', None) if fn is not None else None
            holder = getattr(asg, '_parent', None)
            if not isinstance(cls, ast.ClassDef) or cls is K or not fn.args.args or fn.args.args[0].arg != asg.targets[0].value.id or \
                    not any(isinstance(getattr(holder, fld, None), list) and asg in getattr(holder, fld) for fld in ('body', 'orelse', 'finalbody')):
                ok = False
                break
            sites.append((cls, asg.targets[0].attr, asg, holder))
        if not ok or not sites or len({id(c) for c, _, _, _ in sites}) != 1 or len({f for _, f, _, _ in sites}) != 1:
            continue
        Y, F = sites[0][0], sites[0][1]
        new_m = {m: '_%s__%s' % (K.name.lstrip('_'), m) for m in meths}
        new_f = {x: '%s__%s' % (F, x.lstrip('_')) for x in fields}
        ynames = {st.name for st in Y.body if isinstance(st, (ast.FunctionDef, ast.ClassDef))} | \
            {x.attr for x in ast.walk(Y) if isinstance(x, ast.Attribute)}
        if (set(new_m.values()) | set(new_f.values())) & ynames:
            continue
        # uses of the field: self.F.m(..) and self.F.x inside Y only, never the object itself
        for n in ast.walk(tree):
            if isinstance(n, ast.Attribute) and n.attr == F:
                par = getattr(n, '_parent', None)
                fn = n
                while fn is not None and not isinstance(fn, ast.FunctionDef):
                    fn = getattr(fn, '_parent', None)
                inside = fn is not None and isinstance(getattr(fn, '_parent', None), ast.ClassDef) and fn._parent is Y and fn.args.args and \
                    isinstance(n.value, ast.Name) and n.value.id == fn.args.args[0].arg
                if isinstance(n.ctx, ast.Store):
                    if not any(n is a.targets[0] for _, _, a, _ in sites):
                        ok = False
                elif not (inside and isinstance(par, ast.Attribute) and par.value is n and (par.attr in meths or par.attr in fields)):
                    ok = False
                elif par.attr in meths and not (isinstance(getattr(par, '_parent', None), ast.Call) and par._parent.func is par):
                    ok = False
            if isinstance(n, ast.Constant) and n.value == F:
                ok = False
        for m in meths.values():
            me = m.args.args[0].arg
            for x in ast.walk(m):
                if isinstance(x, ast.Name) and x.id in ('super', '__class__'):
                    ok = False
                if isinstance(x, ast.Name) and x.id == me:
                    par = getattr(x, '_parent', None)
                    if isinstance(x.ctx, (ast.Store, ast.Del)) or not (isinstance(par, ast.Attribute) and par.value is x and
                                                                       (par.attr in fields or par.attr in meths)):
                        ok = False
                if isinstance(x, (ast.FunctionDef, ast.Lambda)) and x is not m:
                    ok = False
        if not ok:
            continue
        # 1. uses in Y
        class U(ast.NodeTransformer):
            def visit_Attribute(self, node):
                self.generic_visit(node)
                if isinstance(node.value, ast.Attribute) and node.value.attr == F and isinstance(node.value.ctx, ast.Load):
                    if node.attr in meths:
                        return ast.copy_location(ast.Attribute(value=node.value.value, attr=new_m[node.attr], ctx=node.ctx), node)
                    if node.attr in fields:
                        return ast.copy_location(ast.Attribute(value=node.value.value, attr=new_f[node.attr], ctx=node.ctx), node)
                return node
        U().visit(Y)
        # 2. the constructions: self.F = K()  ->  self.F__x = <initial value> ...
        for _, _, asg, holder in sites:
            recv = asg.targets[0].value
            stmts = []
            for x, v in fields.items():
                st = ast.Assign(targets=[ast.Attribute(value=_clone(recv), attr=new_f[x], ctx=ast.Store())], value=_clone(v))
                ast.copy_location(st, asg)
                ast.fix_missing_locations(st)
                stmts.append(st)
            for fld in ('body', 'orelse', 'finalbody'):
                lst = getattr(holder, fld, None)
                if isinstance(lst, list) and asg in lst:
                    i = lst.index(asg)
                    lst[i:i + 1] = stmts
        # 3. the methods move
        for m in meths.values():
            me = m.args.args[0].arg

            class Sub(ast.NodeTransformer):
                def visit_Attribute(self, node):
                    self.generic_visit(node)
                    if isinstance(node.value, ast.Name) and node.value.id == me:
                        if node.attr in meths:
                            return ast.copy_location(ast.Attribute(value=node.value, attr=new_m[node.attr], ctx=node.ctx), node)
                        if node.attr in fields:
                            return ast.copy_location(ast.Attribute(value=node.value, attr=new_f[node.attr], ctx=node.ctx), node)
                    return node
            m.body = [Sub().visit(st) for st in m.body]
            m.name = new_m[m.name]
            ast.fix_missing_locations(m)
            Y.body.append(m)
        tree.body = [st for st in tree.body if st is not K]
        done.append(K.name)
    return done


class FuncInfo:
    def __init__(self, module, node, cls=None, parent=None):
        self.module = module
        self.node = node
        self.cls = cls
        self.parent = parent          # enclosing FuncInfo for nested functions
        self.name = node.name if hasattr(node, 'name') else '<lambda>'
        self.nested = {}
        if parent is not None:
            self.qname = parent.qname + '.<locals>.' + self.name
        elif cls is not None:
            self.qname = '%s.%s.%s' % (module.name, cls.name, self.name)
        else:
            self.qname = '%s.%s' % (module.name, self.name)
        self.decorators = [ast.unparse(d) for d in getattr(node, 'decorator_list', [])]
        self._is_gen = None

    @property
    def params(self):
        a = self.node.args
        return [x.arg for x in a.posonlyargs + a.args]

    @property
    def all_params(self):
        a = self.node.args
        r = [x.arg for x in a.posonlyargs + a.args]
        if a.vararg:
            r.append(a.vararg.arg)
        r += [x.arg for x in a.kwonlyargs]
        if a.kwarg:
            r.append(a.kwarg.arg)
        return r

    @property
    def is_method(self):
        return self.cls is not None and self.parent is None

    @property
    def is_generator(self):
        if self._is_gen is None:
            self._is_gen = any(isinstance(n, (ast.Yield, ast.YieldFrom)) for n in own_nodes(self.node))
        return self._is_gen

    @property
    def is_property(self):
        return 'property' in self.decorators

    @property
    def is_contextmanager(self):
        for d in self.decorators:
            last = d.split('.')[-1]
            if last == 'contextmanager' or self.module.imports.get(last, '').endswith(':contextmanager'):
                return True
        return False

    def loc(self, node=None):
        node = node or self.node
        return '%s:%d' % (self.module.relpath, getattr(node, 'lineno', 0))

    def __repr__(self):
        return '<func %s>' % self.qname


def own_nodes(fnode):
    """All AST nodes of a function body, not descending into nested functions/lambdas/classes."""
    stack = list(fnode.body) if isinstance(fnode.body, list) else [fnode.body]
    while stack:
        n = stack.pop()
        yield n
        for c in ast.iter_child_nodes(n):
            if isinstance(c, (ast.FunctionDef, ast.AsyncFunctionDef, ast.Lambda, ast.ClassDef)):
                continue
            stack.append(c)


def own_nodes_ordered(fnode):
    """Like own_nodes, in source order."""
    out = []

    def rec(n):
        out.append(n)
        for c in ast.iter_child_nodes(n):
            if isinstance(c, (ast.FunctionDef, ast.AsyncFunctionDef, ast.Lambda, ast.ClassDef)):
                continue
            rec(c)
    for s in (fnode.body if isinstance(fnode.body, list) else [fnode.body]):
        rec(s)
    return out


class ClassInfo:
    def __init__(self, module, node):
        self.module = module
        self.node = node
        self.name = node.name
        self.qname = '%s.%s' % (module.name, node.name)
        self.base_exprs = [ast.unparse(b) for b in node.bases]
        self.methods = {}
        self.class_attrs = {}      # name -> value node
        for s in node.body:
            if isinstance(s, ast.Assign):
                for t in s.targets:
                    if isinstance(t, ast.Name):
                        self.class_attrs[t.id] = s.value
            elif isinstance(s, ast.AnnAssign) and isinstance(s.target, ast.Name) and s.value is not None:
                self.class_attrs[s.target.id] = s.value

    def loc(self, node=None):
        return '%s:%d' % (self.module.relpath, (node or self.node).lineno)

    def __repr__(self):
        return '<class %s>' % self.qname


class Module:
    def __init__(self, repo, name, path):
        self.repo = repo
        self.name = name
        self.path = path
        self.relpath = os.path.relpath(path, repo.root)
        with open(path, encoding='utf-8') as f:
            self.src = f.read()
        self.tree = repo.parsed(name)
        self.canonical_fields = canonical_term_fields(self.tree) if name == 'engine' else {}
        self.desugared = desugar_match(self.tree)
        self.dataclasses = synthesise_dataclass_constructors(self.tree)
        self.conditionals = desugar_conditional_statements(self.tree)
        self.inlined_properties = inline_simple_properties(self.tree)
        self.keyword_forwarders = inline_keyword_forwarders(self.tree)
        self.format_calls = format_calls_to_fstrings(self.tree)
        self.flattened = flatten_single_use_bases(self.tree, repo.foreign_text(name))
        self.specialised = specialise_template_methods(self.tree)
        self.dissolved = dissolve_field_helper_classes(self.tree, repo.foreign_text(name)) + \
            dissolve_field_helper_objects(self.tree, repo.foreign_text(name))
        set_parents(self.tree)
        self.expanded = expand_context_manager_classes(self.tree) + expand_generator_context_managers(self.tree)
        self.classes = {}
        self.functions = {}
        self.star_imports = []     # repo module names (or external dotted names)
        self.imports = {}          # local name -> dotted external/internal name
        self.assigns = {}          # module-level name -> value node (last)
        self.assign_nodes = {}     # name -> list of assign stmts
        self.all_funcs = []
        self._index()

    def _index(self):
        for s in self.tree.body:
            self._index_stmt(s)

    def _index_stmt(self, s):
        if isinstance(s, ast.ClassDef):
            ci = ClassInfo(self, s)
            self.classes[s.name] = ci
            for m in s.body:
                if isinstance(m, (ast.FunctionDef, ast.AsyncFunctionDef)):
                    fi = FuncInfo(self, m, cls=ci)
                    ci.methods[m.name] = fi
                    self._register(fi)
            # class-level aliases of methods:  a = b = method
            for m in s.body:
                if isinstance(m, ast.Assign) and isinstance(m.value, ast.Name) and m.value.id in ci.methods:
                    for t in m.targets:
                        if isinstance(t, ast.Name) and t.id not in ci.methods:
                            ci.methods[t.id] = ci.methods[m.value.id]
        elif isinstance(s, (ast.FunctionDef, ast.AsyncFunctionDef)):
            fi = FuncInfo(self, s)
            self.functions[s.name] = fi
            self._register(fi)
        elif isinstance(s, ast.Import):
            for a in s.names:
                self.imports[(a.asname or a.name).split('.')[0]] = a.name if a.asname else a.name.split('.')[0]
        elif isinstance(s, ast.ImportFrom):
            mod = ('.' * s.level) + (s.module or '')
            for a in s.names:
                if a.name == '*':
                    self.star_imports.append(mod)
                else:
                    self.imports[a.asname or a.name] = mod + ':' + a.name
        elif isinstance(s, ast.Assign):
            for t in s.targets:
                for n in ast.walk(t):
                    if isinstance(n, ast.Name):
                        self.assigns[n.id] = s.value
                        self.assign_nodes.setdefault(n.id, []).append(s)
        elif isinstance(s, (ast.If, ast.Try)):
            for b in ast.iter_child_nodes(s):
                if isinstance(b, ast.stmt):
                    self._index_stmt(b)
            for h in getattr(s, 'handlers', []):
                for b in h.body:
                    self._index_stmt(b)

    def _register(self, fi):
        self.all_funcs.append(fi)
        for n in own_nodes(fi.node):
            if isinstance(n, ast.stmt):
                pass
        # nested functions (one level at a time)
        for n in own_nodes_with_defs(fi.node):
            if isinstance(n, (ast.FunctionDef, ast.AsyncFunctionDef)):
                nf = FuncInfo(self, n, cls=fi.cls, parent=fi)
                fi.nested[n.name] = nf
                self._register(nf)

    def loc(self, node):
        return '%s:%d' % (self.relpath, getattr(node, 'lineno', 0))


def own_nodes_with_defs(fnode):
    """Direct nested function definitions of a function (not inside further nested defs)."""
    stack = list(fnode.body)
    while stack:
        n = stack.pop()
        if isinstance(n, (ast.FunctionDef, ast.AsyncFunctionDef)):
            yield n
            continue
        if isinstance(n, (ast.Lambda, ast.ClassDef)):
            continue
        stack.extend(ast.iter_child_nodes(n))


class Repo:
    """The repository under analysis (default /repo), parsed on every run."""

    def __init__(self, root='/repo', with_generated=False):
        self.root = os.path.abspath(root)
        self.srcdir = os.path.join(self.root, 'src', PKG)
        if not os.path.isdir(self.srcdir):
            raise AnalysisError('source directory %s not found' % self.srcdir)
        self.modules = {}
        self._texts = {}
        for fn in sorted(os.listdir(self.srcdir)):
            if fn.endswith('.py') and fn[:-3] not in GENERATED_MODULES:
                with open(os.path.join(self.srcdir, fn), encoding='utf-8') as fh:
                    self._texts[fn[:-3]] = fh.read()
        names = list(SRC_MODULES) + (list(GENERATED_MODULES) if with_generated else [])
        self._trees = {}
        self.merged = self._merge_private_modules()
        self.debug_writers = self._canonical_debug_writer()
        for name in names:
            p = os.path.join(self.srcdir, name + '.py')
            if not os.path.isfile(p):
                raise AnalysisError('module %s not found at %s' % (name, p))
            self.modules[name] = Module(self, name, p)
        # extra non-generated modules that a change may have added
        for fn in sorted(os.listdir(self.srcdir)):
            if fn.endswith('.py') and fn[:-3] not in self.modules and fn[:-3] not in GENERATED_MODULES \
                    and fn != '__init__.py' and fn[:-3] not in self.merged:
                self.modules[fn[:-3]] = Module(self, fn[:-3], os.path.join(self.srcdir, fn))
        self._mro_cache = {}

    def parsed(self, name):
        if name not in self._trees:
            p = os.path.join(self.srcdir, name + '.py')
            try:
                with open(p, encoding='utf-8') as fh:
                    self._trees[name] = ast.parse(fh.read(), filename=p)
            except SyntaxError as e:
                raise AnalysisError('cannot parse %s: %s' % (os.path.relpath(p, self.root), e))
        return self._trees[name]

    def _canonical_debug_writer(self):
        """The methods of the compiler-side classes that write a debug message - the whole body is one test of a debug flag
        (an attribute whose name contains ``debug``) around writes, with a ``*args`` parameter - are known to the analyses
        as ``_debug``: when they carry another name, definition and uses (``X.<name>(..)``) are renamed.  -> old names"""
        found = set()
        mods = [n for n in self._texts if n not in ('engine', '__init__')]
        for n in mods:
            for c in [x for x in ast.walk(self.parsed(n)) if isinstance(x, ast.ClassDef)]:
                for m in c.body:
                    if not (isinstance(m, ast.FunctionDef) and m.args.vararg is not None and len(m.args.args) == 1 and not m.decorator_list):
                        continue
                    body = [st for st in m.body if not (isinstance(st, ast.Expr) and isinstance(st.value, ast.Constant))]
                    if len(body) == 1 and isinstance(body[0], ast.If) and not body[0].orelse and \
                            any(isinstance(x, ast.Attribute) and 'debug' in x.attr for x in ast.walk(body[0].test)) or \
                            (len(body) == 1 and isinstance(body[0], ast.If) and not body[0].orelse and
                             any(isinstance(x, ast.Call) and isinstance(x.func, ast.Name) and x.func.id == 'getattr' and len(x.args) > 1 and
                                 ((isinstance(x.args[1], ast.Constant) and 'debug' in str(x.args[1].value)) or 'debug' in ast.unparse(x.args[1]))
                                 for x in ast.walk(body[0].test))):
                        if not any(isinstance(x, (ast.Return, ast.Yield)) and getattr(x, 'value', None) is not None for x in ast.walk(body[0])):
                            found.add(m.name)
        renamed = sorted(found - {'_debug'})
        if not renamed:
            return []
        for n in mods:
            t = self.parsed(n)
            if any(isinstance(x, ast.FunctionDef) and x.name == '_debug' for x in ast.walk(t)) and '_debug' not in found:
                return []          # something else is called _debug already
        for n in mods:
            for x in ast.walk(self.parsed(n)):
                if isinstance(x, ast.FunctionDef) and x.name in renamed:
                    x.name = '_debug'
                elif isinstance(x, ast.Attribute) and x.attr in renamed:
                    x.attr = '_debug'
        return renamed

    def _merge_private_module_groups(self, extras):
        """Several new modules that import each other and are all reached, through top-level ``from .x import ..`` statements
        (names or *), from exactly one of the known modules: their statements are pasted into that module in import order
        (each module once, where it is first imported).  -> {merged module: host}"""
        if len(extras) < 2:
            return {}

        def imports_of(name):
            out = []
            for st in self.parsed(name).body:
                if isinstance(st, ast.ImportFrom) and st.level == 1 and st.module in extras:
                    out.append(st.module)
            return out
        roots = {}
        for r in SRC_MODULES:
            if r not in self._texts:
                continue
            seen, stack = set(), list(imports_of(r))
            while stack:
                x = stack.pop()
                if x in seen:
                    continue
                seen.add(x)
                stack.extend(imports_of(x))
            for x in seen:
                roots.setdefault(x, set()).add(r)
        group = {x for x in extras if len(roots.get(x, ())) == 1}
        if len(group) < 2:
            return {}
        merged = {}
        for host in sorted({next(iter(roots[x])) for x in group}):
            mine = {x for x in group if roots[x] == {host}}
            # only imports at top level, no other mention of the module names, no __all__
            ok = True
            for n in list(mine) + [host]:
                t = self.parsed(n)
                for st in ast.walk(t):
                    if isinstance(st, ast.ImportFrom) and st.level == 1 and st.module in mine and st not in t.body:
                        ok = False
                    if isinstance(st, ast.Import) and any(a.name.split('.')[-1] in mine for a in st.names):
                        ok = False
                if n in mine and any(isinstance(st, ast.Assign) and any(isinstance(tg, ast.Name) and tg.id == '__all__' for tg in st.targets) for st in t.body):
                    ok = False
            for other, text in self._texts.items():
                if other != host and other not in mine and any(re.search(r'\b%s\b' % re.escape(x), text) for x in mine):
                    ok = False
            if not ok:
                continue
            done = set()

            def expand(name):
                out = []
                for st in self.parsed(name).body:
                    if isinstance(st, ast.ImportFrom) and st.level == 1 and st.module in mine:
                        if st.module not in done:
                            done.add(st.module)
                            out.extend(expand(st.module))
                        for a in st.names:
                            if a.asname and a.asname != a.name and a.name != '*':
                                al = ast.copy_location(ast.Assign(targets=[ast.Name(id=a.asname, ctx=ast.Store())], value=ast.Name(id=a.name, ctx=ast.Load())), st)
                                ast.fix_missing_locations(al)
                                out.append(al)
                        continue
                    if name != host and ((isinstance(st, ast.Expr) and isinstance(st.value, ast.Constant)) or
                                         (isinstance(st, ast.ImportFrom) and st.module == '__future__')):
                        continue
                    out.append(st)
                return out
            body = expand(host)
            # a name defined (def/class) in two of the merged modules would change meaning
            defs = {}
            clash = False
            for st in body:
                if isinstance(st, (ast.FunctionDef, ast.ClassDef)):
                    if st.name in defs:
                        clash = True
                    defs[st.name] = st
            if clash:
                continue
            self.parsed(host).body = body
            for x in done:
                merged[x] = host
                self._texts[host] = self._texts[host] + '\n' + self._texts[x]
        for x in merged:
            self._texts.pop(x, None)
        return merged

    def _merge_private_modules(self):
        """A hand-written module that is not one of the known ones and is imported by exactly one other module, through
        top-level ``from .x import names`` statements only, is read as part of that module: its statements take the place
        of the first import (no top-level name may be bound in both).  The classes and functions are then seen where the
        rest of the analysis looks for them.  -> {merged module: host}"""
        merged = {}
        extras = [n for n in self._texts if n not in SRC_MODULES and n != '__init__']
        merged.update(self._merge_private_module_groups(extras))
        extras = [n for n in extras if n not in merged]
        for x in extras:
            pat = re.compile(r'^\s*(from\s+(\.|%s\.)%s\s+import|import\s+%s\.%s\b|from\s+(\.|%s)\s+import\s+.*\b%s\b)' % (PKG, re.escape(x), PKG, re.escape(x), PKG, re.escape(x)), re.M)
            hosts = [n for n, t in self._texts.items() if n != x and pat.search(t)]
            if len(hosts) != 1 or hosts[0] in merged:
                continue
            host = hosts[0]
            ht, xt = self.parsed(host), self.parsed(x)
            imps = [st for st in ast.walk(ht) if isinstance(st, ast.ImportFrom) and st.level == 1 and st.module == x]
            if not imps or any(st not in ht.body for st in imps):
                continue
            if any(isinstance(st, (ast.Import, ast.ImportFrom)) and x in ast.unparse(st).split() for st in ast.walk(ht) if st not in imps):
                continue

            def bound(tree):
                out = {}
                for st in tree.body:
                    if isinstance(st, (ast.FunctionDef, ast.ClassDef)):
                        out[st.name] = 'def'
                    elif isinstance(st, (ast.Assign, ast.AnnAssign, ast.AugAssign)):
                        for t in (st.targets if isinstance(st, ast.Assign) else [st.target]):
                            for n in ast.walk(t):
                                if isinstance(n, ast.Name):
                                    out[n.id] = 'var'
                    elif isinstance(st, (ast.Import, ast.ImportFrom)):
                        for a in st.names:
                            out[(a.asname or a.name).split('.')[0]] = 'import:' + ast.unparse(st).split(' import ')[0] + ':' + a.name
                return out
            bx, bh = bound(xt), bound(ht)
            imported = {a.name for st in imps for a in st.names}
            clash = [n for n in bx if n in bh and bx[n] != bh[n] and not (n in imported and bh[n].startswith('import:from .%s' % x))]
            if clash or any(a.name == '*' and len(imps) > 1 for st in imps for a in st.names):
                continue
            if any(isinstance(st, ast.Assign) and any(isinstance(t, ast.Name) and t.id == '__all__' for t in st.targets) for st in xt.body):
                continue
            # the statements of x (docstring and __future__ imports dropped, imports already present in the host kept once)
            body = [st for st in xt.body if not (isinstance(st, ast.Expr) and isinstance(st.value, ast.Constant)) and
                    not (isinstance(st, ast.ImportFrom) and st.module == '__future__')]
            alias = []
            for st in imps:
                for a in st.names:
                    if a.asname and a.asname != a.name:
                        alias.append(ast.copy_location(ast.Assign(targets=[ast.Name(id=a.asname, ctx=ast.Store())],
                                                                  value=ast.Name(id=a.name, ctx=ast.Load())), st))
            for st in alias:
                ast.fix_missing_locations(st)
            i = ht.body.index(imps[0])
            ht.body = ht.body[:i] + body + alias + [st for st in ht.body[i:] if st not in imps]
            merged[x] = host
            self._texts[host] = self._texts[host] + '\n' + self._texts[x]
        for x in merged:
            self._texts.pop(x, None)
        return merged

    def foreign_text(self, name):
        """the source text of every other hand-written module (used to see whether a name is mentioned elsewhere)"""
        return '\n'.join(t for n, t in self._texts.items() if n != name)

    # -- lookup ---------------------------------------------------------------------------
    def module(self, name):
        try:
            return self.modules[name]
        except KeyError:
            raise AnalysisError('module %s is not part of the model' % name)

    def cls(self, module, name):
        ci = self.module(module).classes.get(name)
        if ci is None:
            raise AnalysisError('anchor vanished: class %s.%s' % (module, name))
        return ci

    def func(self, qname):
        """'engine.unify' or 'engine.YP.query'"""
        parts = qname.split('.')
        m = self.module(parts[0])
        if len(parts) == 2:
            f = m.functions.get(parts[1])
        else:
            c = m.classes.get(parts[1])
            f = c.methods.get(parts[2]) if c else None
        if f is None:
            raise AnalysisError('anchor vanished: function %s' % qname)
        return f

    def find_func(self, qname):
        try:
            return self.func(qname)
        except AnalysisError:
            return None

    def all_functions(self, modules=None):
        for mn, m in self.modules.items():
            if modules is not None and mn not in modules:
                continue
            if mn in GENERATED_MODULES:
                continue
            for f in m.all_funcs:
                yield f

    def all_classes(self, modules=None):
        for mn, m in self.modules.items():
            if modules is not None and mn not in modules:
                continue
            if mn in GENERATED_MODULES:
                continue
            for c in m.classes.values():
                yield c

    def _star_module(self, mod, spec):
        name = spec.lstrip('.')
        if spec.startswith('.') and name in self.modules:
            return self.modules[name]
        if name.startswith(PKG + '.') and name[len(PKG) + 1:] in self.modules:
            return self.modules[name[len(PKG) + 1:]]
        return None

    def module_binding(self, mod, name, _seen=None):
        """Resolve a module-level name: ('class', ClassInfo) | ('func', FuncInfo) |
        ('var', Module, value-node) | ('ext', dotted) | None."""
        _seen = _seen or set()
        if (mod.name, name) in _seen:
            return None
        _seen.add((mod.name, name))
        if name in mod.classes:
            return ('class', mod.classes[name])
        if name in mod.functions:
            return ('func', mod.functions[name])
        if name in mod.assigns:
            v = mod.assigns[name]
            if isinstance(v, ast.Name) and len(mod.assign_nodes.get(name, ())) == 1 and v.id != name:
                # a module-level alias of a class or function
                r = self.module_binding(mod, v.id, _seen)
                if r and r[0] in ('class', 'func'):
                    return r
            return ('var', mod, v)
        if name in mod.imports:
            spec = mod.imports[name]
            if ':' in spec:
                m, n = spec.split(':')
                tm = self._star_module(mod, m)
                if tm is not None:
                    r = self.module_binding(tm, n, _seen)
                    if r:
                        return r
                return ('ext', m.lstrip('.') + '.' + n)
            return ('ext', spec)
        for spec in reversed(mod.star_imports):
            tm = self._star_module(mod, spec)
            if tm is not None:
                r = self.module_binding(tm, name, _seen)
                if r and r[0] != 'ext':
                    return r
                if r:
                    return r
        return None

    def resolve_name(self, func, name):
        """Resolve ``name`` as seen from inside ``func`` (FuncInfo) or a Module.

        -> ('local', FuncInfo owner) | ('nested', FuncInfo) | module_binding result |
           ('builtin', name) | None
        """
        f = func if isinstance(func, FuncInfo) else None
        mod = func.module if f else func
        while f is not None:
            if name in f.nested:
                return ('nested', f.nested[name])
            if name in local_names(f):
                return ('local', f)
            f = f.parent
        r = self.module_binding(mod, name)
        if r:
            return r
        if hasattr(builtins, name):
            return ('builtin', name)
        return None

    # -- hierarchy ------------------------------------------------------------------------
    def bases(self, ci):
        out = []
        for b in ci.base_exprs:
            r = self.module_binding(ci.module, b.split('.')[-1]) if '.' not in b else None
            if r is None and '.' not in b:
                r = self.module_binding(ci.module, b)
            if r and r[0] == 'class':
                out.append(r[1])
        return out

    def mro(self, ci):
        if ci.qname in self._mro_cache:
            return self._mro_cache[ci.qname]
        out = [ci]
        for b in self.bases(ci):
            for x in self.mro(b):
                if x not in out:
                    out.append(x)
        self._mro_cache[ci.qname] = out
        return out

    def is_subclass(self, ci, base):
        return base in self.mro(ci)

    def subclasses(self, base, strict=False):
        return [c for c in self.all_classes() if base in self.mro(c) and (not strict or c is not base)]

    def instantiated(self):
        """classes of the repository that are constructed somewhere in it (a call of the class name)"""
        if getattr(self, '_instantiated', None) is None:
            out = set()
            for mn, m in self.modules.items():
                if mn in GENERATED_MODULES:
                    continue
                for n in ast.walk(m.tree):
                    if isinstance(n, ast.Call) and isinstance(n.func, ast.Name):
                        r = self.module_binding(m, n.func.id)
                        if r and r[0] == 'class':
                            out.add(r[1])
            self._instantiated = out
        return self._instantiated

    def lookup_method(self, ci, name):
        for c in self.mro(ci):
            if name in c.methods:
                return c.methods[name]
        return None

    def external_bases(self, ci):
        out = []
        for c in self.mro(ci):
            for b in c.base_exprs:
                r = self.module_binding(c.module, b.split('.')[0])
                if not (r and r[0] == 'class'):
                    out.append(b)
        return out

    def classes_defining(self, method):
        return [c for c in self.all_classes() if method in c.methods]


def local_names(fi):
    """Names bound in the function's own scope (params, assignments, for targets, with/except
    targets, imports, nested defs) minus those declared global/nonlocal."""
    cached = getattr(fi.node, '_local_names', None)      # kept on the node itself: ids of freed nodes are reused
    if cached is not None:
        return cached
    names = set(fi.all_params)
    declared = set()
    for n in own_nodes(fi.node):
        if isinstance(n, ast.Name) and isinstance(n.ctx, (ast.Store, ast.Del)):
            names.add(n.id)
        elif isinstance(n, (ast.Global, ast.Nonlocal)):
            declared.update(n.names)
        elif isinstance(n, ast.ExceptHandler) and n.name:
            names.add(n.name)
        elif isinstance(n, (ast.Import, ast.ImportFrom)):
            for a in n.names:
                names.add((a.asname or a.name).split('.')[0])
    for n in own_nodes_with_defs(fi.node):
        names.add(n.name)
    # comprehension targets live in their own scope in py3; they are not function locals, but
    # treating them as locals is harmless for resolution purposes
    names -= declared
    fi.node._local_names = names
    return names


def declared_globals(fi):
    out = set()
    for n in own_nodes(fi.node):
        if isinstance(n, ast.Global):
            out.update(n.names)
    return out


def declared_nonlocals(fi):
    out = set()
    for n in own_nodes(fi.node):
        if isinstance(n, ast.Nonlocal):
            out.update(n.names)
    return out


def enclosing_stmt(node):
    n = node
    while n is not None and not isinstance(n, ast.stmt):
        n = getattr(n, '_parent', None)
    return n


def parents(node):
    n = getattr(node, '_parent', None)
    while n is not None:
        yield n
        n = getattr(n, '_parent', None)


def norm(node):
    """Normalised source text of a node (used in finding keys instead of line numbers)."""
    try:
        return ' '.join(ast.unparse(node).split())
    except Exception:
        return type(node).__name__


def is_name(node, ident=None):
    return isinstance(node, ast.Name) and (ident is None or node.id == ident)


def is_self_attr(node, attr=None):
    return isinstance(node, ast.Attribute) and is_name(node.value, 'self') and (attr is None or node.attr == attr)


def call_name(call):
    """'f' for f(...), 'x.m' tail 'm' for x.m(...): returns (kind, name, receiver-node)."""
    f = call.func
    if isinstance(f, ast.Name):
        return ('name', f.id, None)
    if isinstance(f, ast.Attribute):
        return ('attr', f.attr, f.value)
    return ('expr', None, None)
