"""Shared analyses over the engine (and any other) module: roles, definite assignment,
dereference discipline, escaping exceptions, store aliases."""
import ast

from .model import (AnalysisError, FuncInfo, own_nodes, own_nodes_ordered, is_name, is_self_attr, norm, parents,
                    local_names)
from .cfg import CFG, ProductCFG, ANY, GENEXIT, _store_targets
from .callgraph import CallGraph, arg_for_param, builtin_table

TERM_CLASS_NAMES = ('Atom', 'Functor', 'Variable', 'IUnifiable')


def is_deref_call(e):
    """get_value(x) / x.get_value()"""
    if isinstance(e, ast.Call):
        f = e.func
        if isinstance(f, ast.Name) and f.id == 'get_value':
            return True
        if isinstance(f, ast.Attribute) and f.attr == 'get_value':
            return True
    return False


def deref_arg(e):
    if isinstance(e.func, ast.Name):
        return e.args[0] if e.args else None
    return e.func.value


class EngineModel:
    def __init__(self, repo):
        self.repo = repo
        self.cg = CallGraph(repo)
        self._cfgs = {}
        self._index = {}
        self.engine = repo.module('engine')
        self.YP = repo.cls('engine', 'YP')

    def view(self, f, keep=()):
        """helper-inlined view of f (sa/inline.py): same-module helpers and helper methods of the same class pasted in,
        except the functions in ``keep`` (calls of those stay calls)"""
        if not hasattr(self, '_views'):
            self._views = {}
        key = (f, tuple(sorted(g.qname for g in keep)))
        if key not in self._views:
            from .inline import inline_view
            self._views[key] = inline_view(self.repo, f, keep=keep)
        return self._views[key]

    # -- CFGs -------------------------------------------------------------------------------
    def cfg(self, f, **kw):
        key = (f, tuple(sorted(kw.items())))
        if key not in self._cfgs:
            self._cfgs[key] = CFG(f.node, self.repo, f, **kw)
        return self._cfgs[key]

    def node_index(self, f):
        """AST expression node id -> CFG nodes that evaluate it"""
        if f in self._index:
            return self._index[f]
        cfg = self.cfg(f)
        idx = {}
        for n in cfg.nodes:
            roots = []
            if n.ast is not None and n.kind not in ('exit', 'entry', 'join', 'handler', 'withexit'):
                roots.append(n.ast)
            if n.kind == 'store' and isinstance(n.info, ast.AST) and not isinstance(n.info, ast.stmt):
                roots.append(n.info)
            if n.kind == 'store' and isinstance(n.info, ast.AugAssign):
                roots.append(n.info.value)
            for r in roots:
                for d in ast.walk(r):
                    idx.setdefault(id(d), [])
                    if n not in idx[id(d)]:
                        idx[id(d)].append(n)
        self._index[f] = idx
        return idx

    def nodes_for(self, f, astnode):
        """CFG nodes evaluating astnode; falls back to the nodes of the enclosing statement"""
        idx = self.node_index(f)
        if id(astnode) in idx:
            return idx[id(astnode)]
        cfg = self.cfg(f)
        st = astnode
        while st is not None and not isinstance(st, ast.stmt):
            st = getattr(st, '_parent', None)
        if st is None:
            return []
        return [n for n in cfg.nodes if n.stmt is st and n.kind not in ('join',)][:1]

    # -- roles ------------------------------------------------------------------------------
    def cell(self):
        """the binding cell, found by role (see class Cell)"""
        if not hasattr(self, '_cell'):
            self._cell = Cell(self)
        return self._cell

    def variable_class(self):
        """the classes whose methods write the binding cell (one, on a sound tree: the class that owns it)"""
        cell = self.cell()
        owners = [cell.cls]
        for f in self.repo.all_functions():
            for n in own_nodes(f.node):
                if isinstance(n, ast.Attribute) and n.attr in cell.fields and isinstance(n.ctx, ast.Store):
                    if f.cls is not None and f.cls not in owners and is_name(n.value, 'self') and cell.owns_field(f.cls, n.attr):
                        owners.append(f.cls)
        return owners

    def builtins(self):
        if not hasattr(self, '_builtins'):
            self._builtins = builtin_table(self.repo, self.cg)
        return self._builtins

    def entry_points(self):
        """functions compiled code can reach as predicates: the builtin table + call/query"""
        out = []
        for b in self.builtins():
            if b['func'] is not None and b['func'] not in out:
                out.append(b['func'])
        for name in ('call', 'query', 'match_dynamic'):
            m = self.repo.lookup_method(self.YP, name)
            if m is not None and m not in out:
                out.append(m)
        return out

    def binder_family(self):
        """least set containing every function that stores into ``_is_bound`` (outside __init__),
        closed under: returns / yields from / loops-and-yields over a call to a member"""
        if hasattr(self, '_binders'):
            return self._binders
        fam = []
        cell = self.cell()
        for f in self.repo.all_functions():
            if f.name == '__init__':
                continue
            for n in own_nodes(f.node):
                if isinstance(n, ast.Attribute) and n.attr == cell.state_field and isinstance(n.ctx, ast.Store):
                    if f not in fam:
                        fam.append(f)
        changed = True
        while changed:
            changed = False
            for f in self.repo.all_functions():
                if f in fam or f.name == '__init__':
                    continue
                if self._delegates_to(f, fam):
                    fam.append(f)
                    changed = True
        self._binders = fam
        return fam

    def _delegates_to(self, f, fam):
        if f.is_generator:
            # a generator that calls a member anywhere suspends with that member's bindings in place
            for call, callees in self.cg.calls.get(f, ()):
                if any(c in fam for c in callees):
                    return True
            return False
        for n in own_nodes(f.node):
            if isinstance(n, ast.Return) and n.value is not None:
                call = n.value
                while isinstance(call, ast.Call) and isinstance(call.func, ast.Name) and call.func.id in ('iter',) and call.args:
                    call = call.args[0]
                if isinstance(call, ast.Call):
                    for c in self.cg.resolve_callable(f, call.func):
                        if c in fam:
                            return True
        return False

    def is_binder_call(self, f, call):
        """does this call (in f) produce a generator that may hold bindings?"""
        if not isinstance(call, ast.Call):
            return False
        fam = self.binder_family()
        cs = self.cg.resolve_callable(f, call.func)
        if any(c in fam for c in cs):
            return True
        # a predicate looked up at run time: function(*args) on a local that came out of eval_context
        if isinstance(call.func, ast.Name) and f.cls is self.YP:
            # follow plain local-to-local copies (a helper pasted into a view hands its result over through a local)
            names, todo = set(), [call.func.id]
            while todo:
                n0 = todo.pop()
                if n0 in names:
                    continue
                names.add(n0)
                for s in own_nodes(f.node):
                    if isinstance(s, ast.Assign) and any(is_name(t, n0) for t in s.targets) and isinstance(s.value, ast.Name):
                        todo.append(s.value.id)
            for s in own_nodes(f.node):
                if isinstance(s, ast.Assign) and any(isinstance(t, ast.Name) and t.id in names for t in s.targets):
                    if 'eval_context' in norm(s.value):
                        return True
                    # looked up through a helper and called with the caller's argument list
                    if any(isinstance(a, ast.Starred) for a in call.args) and isinstance(s.value, ast.Call) and not cs:
                        return True
        return False


# ---------------------------------------------------------------------------------------------
# definite assignment


def names_loaded(expr):
    """Names loaded by an expression, not descending into lambdas; comprehension targets are
    excluded."""
    out = []
    bound = set()

    def rec(e):
        if isinstance(e, ast.Lambda):
            return
        if isinstance(e, (ast.ListComp, ast.SetComp, ast.GeneratorExp, ast.DictComp)):
            for g in e.generators:
                for x in ast.walk(g.target):
                    if isinstance(x, ast.Name):
                        bound.add(x.id)
        if isinstance(e, ast.Name) and isinstance(e.ctx, ast.Load):
            out.append(e)
        for c in ast.iter_child_nodes(e):
            rec(c)
    rec(expr)
    return [n for n in out if n.id not in bound]


def node_uses(n):
    """Name loads evaluated at CFG node n"""
    roots = []
    if n.kind in ('call', 'test', 'return', 'iter', 'yield', 'yieldfrom', 'comp', 'raise', 'withenter') and n.ast is not None:
        roots.append(n.ast)
    if n.kind == 'store':
        if isinstance(n.info, ast.AugAssign):
            roots.append(n.info.value)
            roots.append(n.info.target)
        elif isinstance(n.info, ast.AST) and not isinstance(n.info, ast.stmt):
            roots.append(n.info)
        if not isinstance(n.ast, ast.Name):
            roots.append(n.ast)        # x[i] = v / x.a = v use x and i
    if n.kind == 'del' and not isinstance(n.ast, ast.Name):
        roots.append(n.ast)
    out = []
    for r in roots:
        for x in names_loaded(r):
            out.append(x)
        if isinstance(r, ast.Name) and isinstance(r.ctx, ast.Store):
            pass
    if n.kind == 'store' and isinstance(n.info, ast.AugAssign) and isinstance(n.ast, ast.Name):
        out.append(n.ast)
    return out


def definite_assignment(em, f):
    """-> list of (name node, cfg node, path) for uses of a local on a path where it is
    unassigned; only branch decisions of if/elif/else and loop exits count, exception edges out
    of calls are not followed."""
    cfg = em.cfg(f)
    locs = local_names(f) - set(f.all_params)
    # names that are never stored by an ordinary statement (e.g. only comprehension targets) are skipped
    stored = set()
    for n in cfg.nodes:
        if n.kind == 'store' and isinstance(n.ast, ast.Name):
            stored.add(n.ast.id)
        if n.kind == 'handler' and n.info:
            stored.add(n.info)
    out = []

    def edge_ok(lbl, a, b):
        if lbl in ('exc', 'throw', 'close'):
            return a.kind == 'raise'
        return True
    for n in cfg.nodes:
        for use in node_uses(n):
            name = use.id
            if name not in locs or name not in stored:
                continue

            def avoid(m, name=name):
                return (m.kind == 'store' and isinstance(m.ast, ast.Name) and m.ast.id == name) or \
                       (m.kind == 'handler' and m.info == name)
            if avoid(n) and not (isinstance(n.info, ast.AugAssign)):
                # x = f(x): the use happens before the store of the same node
                pass
            path = cfg.g.find_path(cfg.entry, lambda m: m is n, avoid=lambda m: avoid(m) and m is not n, edge_ok=edge_ok)
            if path is None:
                continue
            # zero-iteration paths of a loop that defines the name are not decidable here
            loop_targets = set()
            for lbl, m in path:
                if lbl == 'exhausted' and m.stmt is not None and isinstance(m.stmt, ast.For):
                    for x in ast.walk(m.stmt):
                        if isinstance(x, ast.Name) and isinstance(x.ctx, ast.Store):
                            loop_targets.add(x.id)
            if name in loop_targets:
                continue
            out.append((use, n, path))
    return out


def branch_decisions(cfg, path):
    out = []
    prev = None
    for lbl, n in path:
        if lbl in ('true', 'false') and prev is not None and prev.kind == 'test':
            out.append('%s is %s' % (norm(prev.ast), 'true' if lbl == 'true' else 'false'))
        elif lbl in ('exhausted', 'exc', 'throw', 'close', 'break'):
            out.append(lbl)
        prev = n
    return out


# ---------------------------------------------------------------------------------------------
# dereference discipline


CELL_FIELDS_HINT = ('_value', '_is_bound')       # replaced by the discovered names when an EngineModel is built


class Cell:
    """The binding cell by role: the fields of a term class that its own ``get_value`` reads and that its methods
    other than the constructor write.  Two representations are understood:

    flag      one field only ever holds True/False (bound?), the other holds the value
    sentinel  one field holds the value, and a fixed marker (None or a module-level ``object()``) while unbound
    """

    def __init__(self, em):
        repo = em.repo
        cands = []
        # fields written outside constructors - through any receiver: a write from outside the class is for the ownership
        # rule to report, not a reason to overlook the field - except what dereferencing itself writes (a cache is not the cell)
        gen_writes = {n.attr for m in repo.all_functions(('engine',)) if m.name != 'get_value' for n in own_nodes(m.node)
                      if isinstance(n, ast.Attribute) and isinstance(n.ctx, ast.Store) and
                      not (m.name == '__init__' and is_name(n.value, m.params[0] if m.params else 'self'))}
        for c in repo.all_classes(('engine',)):
            gv = c.methods.get('get_value')
            if gv is None:
                continue
            declared = {n.attr for m in c.methods.values() for n in own_nodes(m.node)
                        if isinstance(n, ast.Attribute) and isinstance(n.ctx, ast.Store) and is_name(n.value, m.params[0] if m.params else 'self')}
            reads = {n.attr for n in own_nodes(gv.node) if isinstance(n, ast.Attribute) and isinstance(n.ctx, ast.Load)} & declared
            if reads & gen_writes:
                cands.append((c, tuple(sorted(reads & gen_writes))))
        if len(cands) != 1:
            raise AnalysisError('anchor vanished: the binding cell (fields of a term class that its get_value reads and that are '
                                'written outside constructors and outside get_value) is found in %d classes' % len(cands))
        self.cls, self.fields = cands[0]
        stores = {}
        for f in repo.all_functions(('engine',)):
            for n in own_nodes(f.node):
                if isinstance(n, ast.Assign):
                    for t in n.targets:
                        if isinstance(t, ast.Attribute) and t.attr in self.fields:
                            stores.setdefault(t.attr, []).append((f, n.value))
        flags = [k for k in self.fields if stores.get(k) and all(isinstance(v, ast.Constant) and isinstance(v.value, bool) for _, v in stores[k])]
        self.flag = self.value = self.sentinel = None
        if len(flags) == 1 and len(self.fields) == 2:
            self.kind = 'flag'
            self.flag = flags[0]
            self.value = [k for k in self.fields if k != self.flag][0]
            self.state_field = self.flag
        elif len(self.fields) == 1 and not flags:
            self.kind = 'sentinel'
            self.value = self.fields[0]
            self.state_field = self.value
            init = self.cls.methods.get('__init__')
            inits = [v for f, v in stores.get(self.value, []) if f is init]
            if len(inits) != 1 or not self._marker(inits[0], repo):
                raise AnalysisError('the binding cell %s.%s has no recognisable "unbound" marker (its constructor stores %s)' % (
                    self.cls.name, self.value, [norm(v) for v in inits]))
            self.sentinel = inits[0]
        else:
            raise AnalysisError('the binding cell of %s has an unsupported shape: fields %s' % (self.cls.name, list(self.fields)))
        global CELL_FIELDS_HINT
        CELL_FIELDS_HINT = tuple(self.fields)

    @staticmethod
    def _marker(v, repo):
        if isinstance(v, ast.Constant) and v.value is None:
            return True
        if isinstance(v, ast.Name):
            r = repo.module_binding(repo.module('engine'), v.id)
            return bool(r and r[0] == 'var' and isinstance(r[2], ast.Call) and is_name(r[2].func, 'object') and not r[2].args)
        return False

    def owns_field(self, cls, attr):
        return attr in self.fields

    def is_unbound_marker(self, v):
        if self.kind == 'flag':
            return isinstance(v, ast.Constant) and v.value is False
        return norm(v) == norm(self.sentinel)

    def is_state_store(self, n):
        """a CFG store node that writes the field which says whether the variable is bound"""
        return n.kind == 'store' and isinstance(n.ast, ast.Attribute) and n.ast.attr == self.state_field

    def is_bind(self, n):
        return self.is_state_store(n) and not self.is_unbound_marker(n.info)

    def is_unbind(self, n, recv=None):
        return self.is_state_store(n) and self.is_unbound_marker(n.info) and (recv is None or norm(n.ast.value) == recv)

    def unbound_label(self, test, recv, f=None):
        """which out-edge of this test means 'recv is not bound' (None: not a test of the cell); with f, a local that is
        assigned once, from the cell field of recv, stands for that field"""
        t = test
        if f is not None:
            copies = {}
            for s_ in own_nodes(f.node):
                if isinstance(s_, ast.Assign) and len(s_.targets) == 1 and isinstance(s_.targets[0], ast.Name) and \
                        isinstance(s_.value, ast.Attribute) and s_.value.attr in self.fields and norm(s_.value.value) == recv:
                    copies.setdefault(s_.targets[0].id, []).append(s_.value)
            stores = {}
            for x in own_nodes(f.node):
                if isinstance(x, ast.Name) and isinstance(x.ctx, ast.Store):
                    stores[x.id] = stores.get(x.id, 0) + 1
            copies = {k: v[0] for k, v in copies.items() if len(v) == 1 and stores.get(k) == 1 and k not in f.all_params}
            if copies and any(isinstance(x, ast.Name) and x.id in copies for x in ast.walk(t)):
                from .model import _clone

                class Sub(ast.NodeTransformer):
                    def visit_Name(self, node):
                        if node.id in copies and isinstance(node.ctx, ast.Load):
                            return _clone(copies[node.id])
                        return node
                t = Sub().visit(_clone(t))
                ast.fix_missing_locations(t)
        if self.kind == 'flag':
            fld = recv + '.' + self.flag
            if isinstance(t, ast.UnaryOp) and isinstance(t.op, ast.Not) and norm(t.operand) == fld:
                return 'true'
            if norm(t) == fld:
                return 'false'
            if isinstance(t, ast.Compare) and len(t.ops) == 1 and norm(t.left) == fld and \
                    isinstance(t.comparators[0], ast.Constant) and isinstance(t.comparators[0].value, bool):
                eq = isinstance(t.ops[0], (ast.Eq, ast.Is))
                val = t.comparators[0].value
                return 'true' if (eq and val is False) or (not eq and val is True) else 'false'
            return None
        fld = recv + '.' + self.value
        if isinstance(t, ast.UnaryOp) and isinstance(t.op, ast.Not):
            inner = self.unbound_label(t.operand, recv, f)
            return None if inner is None else ('false' if inner == 'true' else 'true')
        if isinstance(t, ast.Compare) and len(t.ops) == 1 and isinstance(t.ops[0], (ast.Is, ast.IsNot)):
            sides = [norm(t.left), norm(t.comparators[0])]
            if fld in sides and norm(self.sentinel) in sides:
                return 'true' if isinstance(t.ops[0], ast.Is) else 'false'
        return None

    def mentions_state(self, e):
        return any(isinstance(x, ast.Attribute) and x.attr == self.state_field for x in ast.walk(e))


def inspections(f):
    """(name node, kind) for every place where the class or the fields of a term held in a plain
    name are looked at: isinstance(V, <term class>), V._name, V._args, V.name()"""
    out = []
    for n in own_nodes_ordered(f.node):
        if isinstance(n, ast.Call) and is_name(n.func, 'isinstance') and len(n.args) == 2 and isinstance(n.args[0], ast.Name):
            classes = [x.id for x in ast.walk(n.args[1]) if isinstance(x, ast.Name)]
            if any(c in TERM_CLASS_NAMES for c in classes):
                out.append((n.args[0], 'isinstance(%s, %s)' % (n.args[0].id, norm(n.args[1])), n))
        elif isinstance(n, ast.Attribute) and isinstance(n.value, ast.Name) and isinstance(n.ctx, ast.Load) \
                and n.attr in ('_name', '_args', 'name') + CELL_FIELDS_HINT:
            if n.value.id == 'self':
                continue
            if n.attr == 'name' and not (isinstance(getattr(n, '_parent', None), ast.Call) and n._parent.func is n):
                continue
            out.append((n.value, '%s.%s' % (n.value.id, n.attr), n))
    return out


def raw_possible(em, f, name, at_nodes, raw_params):
    """Can ``name`` hold an un-dereferenced term at the CFG nodes ``at_nodes``?  -> path or None"""
    cfg = em.cfg(f)

    def is_store(m):
        return m.kind == 'store' and isinstance(m.ast, ast.Name) and m.ast.id == name

    def is_deref_store(m):
        return is_store(m) and isinstance(m.info, ast.AST) and is_deref_call(m.info)

    def edge_ok(lbl, a, b):
        return lbl not in ('exc', 'throw', 'close') or a.kind == 'raise'
    starts = []
    if name in raw_params:
        starts.append(cfg.entry)
    for m in cfg.nodes:
        if is_store(m) and not is_deref_store(m) and isinstance(m.info, ast.Name) and m.info.id in raw_params \
                and m.info.id != name:
            starts.append(m)
    for s in starts:
        for t in at_nodes:
            p = cfg.g.find_path(s, lambda m: m is t, avoid=lambda m: is_store(m) and m is not t, edge_ok=edge_ok)
            if p is not None:
                return p
    return None


def deref_violations(em, f, term_params):
    """-> list of (what, ast node, path) : inspections of possibly un-dereferenced terms"""
    out = []
    for namenode, what, node in inspections(f):
        v = namenode.id
        at = em.nodes_for(f, node)
        if not at:
            continue
        # which raw names can v alias?
        p = raw_possible(em, f, v, at, set(term_params))
        if p is not None:
            out.append((what, node, p))
    return out


def term_params_of(f):
    ps = f.params[1:] if (f.is_method) else list(f.params)
    return ps


def raw_param_closure(em, roots):
    """{FuncInfo: set(param names that may receive an un-dereferenced term)} starting from the
    entry points (all their parameters) and following parameters forwarded as they are."""
    raw = {}
    work = []
    for f in roots:
        raw[f] = set(term_params_of(f))
        work.append(f)
    while work:
        f = work.pop()
        for call, callees in em.cg.calls.get(f, ()):
            for c in callees:
                if c.module.name != 'engine' or c.name in ('get_value', 'to_python', '__init__'):
                    continue
                for p in term_params_of(c):
                    a = arg_for_param(call, c, p)
                    if isinstance(a, ast.Name) and a.id in raw.get(f, ()):
                        # forwarded raw unless re-bound to its value before the call
                        at = em.nodes_for(f, call)
                        if at and raw_possible(em, f, a.id, at, raw[f]) is None:
                            continue
                        if p not in raw.setdefault(c, set()):
                            raw[c].add(p)
                            work.append(c)
    return raw


# ---------------------------------------------------------------------------------------------
# exceptions that may escape


class Raises:
    """Which exception classes, raised by explicit ``raise`` statements of the repository, may
    leave each function (fix-point over the call graph, handlers taken into account)."""

    def __init__(self, em, modules=('engine',)):
        self.em = em
        self.funcs = [f for f in em.repo.all_functions(modules)]
        self.raises = {f: {} for f in self.funcs}      # f -> {class name: origin text}
        self._solve()

    def _local(self, f):
        from .cfg import CFGBuilder
        cfg = self.em.cfg(f)
        found = {}
        # explicit raise statements
        for n in cfg.nodes:
            if n.kind == 'raise':
                cls = None
                if n.ast is not None:
                    e = n.ast.func if isinstance(n.ast, ast.Call) else n.ast
                    if isinstance(e, (ast.Name, ast.Attribute)):
                        cls = ast.unparse(e).split('.')[-1]
                        if isinstance(n.ast, ast.Name) and not n.ast.id[:1].isupper():
                            cls = None
                if cls is None:
                    # bare raise / re-raise of a caught object: the handler's class
                    for p in parents(n.stmt):
                        if isinstance(p, ast.ExceptHandler):
                            cls = norm(p.type).split('.')[-1] if p.type is not None else None
                            break
                if cls is None:
                    continue
                if self._escapes(cfg, n):
                    found.setdefault(cls, '%s: %s' % (f.loc(n.stmt), norm(n.stmt)))
        # calls to functions that may raise
        for call, callees in self.em.cg.calls.get(f, ()):
            for c in callees:
                for cls, origin in self.raises.get(c, {}).items():
                    if cls in found:
                        continue
                    for cn in self.em.nodes_for(f, call):
                        if cn.kind == 'call' and cn.ast is call and self._call_escapes(f, cfg, cn, cls):
                            found[cls] = origin + ' via %s' % c.qname
        return found

    def _escapes(self, cfg, raise_node):
        """does the exception raised at raise_node reach EXIT(exc)?"""
        seen = set()
        stack = [m for lbl, m in cfg.g.succ.get(raise_node, ()) if lbl == 'exc']
        while stack:
            m = stack.pop()
            if m in seen:
                continue
            seen.add(m)
            if m.kind == 'exit':
                if m.info in ('exc', 'close'):
                    return True
                continue
            if m.kind == 'handler':
                continue
            if not (m.kind == 'join' and str(m.info).startswith('finally:raise')) and not self._in_finally_copy(m):
                pass
            for lbl, k in cfg.g.succ.get(m, ()):
                if lbl in ('exc', 'throw', 'close'):
                    continue
                stack.append(k)
        return False

    def _in_finally_copy(self, m):
        return True

    def _call_escapes(self, f, cfg, call_node, cls):
        """would an exception of class cls raised by this call leave f?  The CFG's 'exc' edges out
        of a call are typed ANY; redo the handler matching for the concrete class."""
        matcher = self.em.cfg(f).g and None
        # walk the enclosing try statements syntactically
        from .cfg import ExcMatcher
        mt = ExcMatcher(self.em.repo, f)
        node = call_node.ast
        child = node
        for p in parents(node):
            if isinstance(p, (ast.FunctionDef, ast.AsyncFunctionDef, ast.Lambda)):
                break
            if isinstance(p, ast.Try) and any(child is s or _contains(s, child) for s in p.body):
                for h in p.handlers:
                    if mt.match(cls, h) == 'yes':
                        return False
            child = p
        return True

    def _solve(self):
        changed = True
        rounds = 0
        while changed:
            changed = False
            rounds += 1
            if rounds > 12:
                raise AnalysisError('exception fix-point does not converge')
            for f in self.funcs:
                new = self._local(f)
                if set(new) != set(self.raises[f]):
                    merged = dict(self.raises[f])
                    merged.update(new)
                    if set(merged) != set(self.raises[f]):
                        self.raises[f] = merged
                        changed = True


def _contains(stmt, node):
    for x in ast.walk(stmt):
        if x is node:
            return True
    return False


# ---------------------------------------------------------------------------------------------
# class narrowing by enclosing isinstance tests


def narrowed_class(node, name):
    """class names that ``name`` is known to be an instance of at ``node`` because node lies in
    the body of ``if isinstance(name, C)`` (elif chains included)"""
    out = []
    child = node
    for p in parents(node):
        if isinstance(p, ast.If) and any(child is s for s in p.body):
            t = p.test
            if isinstance(t, ast.Call) and is_name(t.func, 'isinstance') and len(t.args) == 2 \
                    and is_name(t.args[0], name):
                out += [x.id for x in ast.walk(t.args[1]) if isinstance(x, ast.Name)]
        if isinstance(p, (ast.FunctionDef, ast.Lambda)):
            break
        child = p
    return out
