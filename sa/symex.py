"""E6 (first half) - symbolic evaluation of decision chains over a structured argument.

Functions such as ``compile_body``, ``compile_expression``, ``unify`` or ``visitPredicateexpression``
are ``isinstance``/``==`` decision chains.  They are evaluated with symbolic arguments: pattern
variables carry class constraints that the tests refine; attribute paths of pattern variables are
pattern variables again; constructor applications, list literals and concatenations are kept as
terms; same-class helpers are inlined; selected calls are kept as uninterpreted holes.  The
result is one (constraints, value) pair per path.
"""
import ast

from .model import AnalysisError, own_nodes, is_name, is_self_attr, norm


class Sym:
    """pattern variable: a path from a parameter"""

    def __init__(self, path):
        self.path = path

    def __repr__(self):
        return self.path

    def __eq__(self, o):
        return isinstance(o, Sym) and o.path == self.path

    def __hash__(self):
        return hash(('sym', self.path))


class Const:
    def __init__(self, v):
        self.v = v

    def __repr__(self):
        return repr(self.v)

    def __eq__(self, o):
        return isinstance(o, Const) and o.v == self.v and type(o.v) is type(self.v)

    def __hash__(self):
        return hash(('const', repr(self.v)))


class New:
    def __init__(self, cls, args, kwargs=None):
        self.cls = cls
        self.args = list(args)
        self.kwargs = dict(kwargs or {})

    def __repr__(self):
        return '%s(%s)' % (self.cls.name, ', '.join(map(repr, self.args)))


class ListV:
    def __init__(self, items):
        self.items = list(items)

    def __repr__(self):
        return '[%s]' % ', '.join(map(repr, self.items))


class CatV:
    def __init__(self, parts):
        flat = []
        for p in parts:
            if isinstance(p, CatV):
                flat.extend(p.parts)
            else:
                flat.append(p)
        self.parts = flat

    def __repr__(self):
        return ' ++ '.join(map(repr, self.parts))


class CallV:
    """uninterpreted call"""

    def __init__(self, name, args, recv=None, node=None):
        self.name = name
        self.args = list(args)
        self.recv = recv
        self.node = node

    def __repr__(self):
        return '%s%s<%s>' % ((repr(self.recv) + '.') if self.recv is not None else '', self.name, ', '.join(map(repr, self.args)))


class Fresh:
    def __init__(self, tag, n):
        self.tag = tag
        self.n = n

    def __repr__(self):
        return '%s#%d' % (self.tag, self.n)


class SelfV:
    def __init__(self, cls):
        self.cls = cls

    def __repr__(self):
        return 'self'


class Opaque:
    def __init__(self, text):
        self.text = text

    def __repr__(self):
        return '?%s' % self.text


class PathState:
    def __init__(self):
        self.classes = {}      # path -> frozenset(class names)   (possible classes)
        self.eqs = []          # (text of lhs, '==' | '!=', python value)
        self.truth = []        # (text, bool)
        self.env = {}
        self.fresh = 0
        self.effects = []      # attribute stores / mutating calls seen on the path

    def copy(self):
        p = PathState()
        p.classes = dict(self.classes)
        p.eqs = list(self.eqs)
        p.truth = list(self.truth)
        p.env = dict(self.env)
        p.fresh = self.fresh
        p.effects = list(self.effects)
        return p

    def describe(self):
        parts = ['%s:%s' % (k, '|'.join(sorted(v))) for k, v in sorted(self.classes.items())]
        parts += ['%s %s %r' % e for e in self.eqs]
        parts += ['%s%s' % ('' if t else 'not ', x) for x, t in self.truth]
        return ', '.join(parts)


class _Ret(Exception):
    pass


NORET = object()


class SymEx:
    def __init__(self, repo, universe=None, inline=None, opaque=None, max_depth=8, ignore_calls=('_debug',)):
        """universe(path) -> iterable of class names a pattern variable may have (None = unknown);
        inline(callee FuncInfo) -> bool ; opaque(callee name) -> bool"""
        self.repo = repo
        self.universe = universe or (lambda path: None)
        self.inline = inline or (lambda f: False)
        self.opaque = opaque or (lambda name: False)
        self.max_depth = max_depth
        self.ignore_calls = ignore_calls
        self.depth = 0

    # -- entry ----------------------------------------------------------------------------
    def run(self, func, args=None, state=None, with_self=False, kwargs=None):
        """-> list of (PathState, value); value None for an implicit ``return None``"""
        st = state or PathState()
        params = func.params
        env = {}
        a = list(args or [])
        if func.is_method and not with_self:
            a = [SelfV(func.cls)] + a
        defaults = func.node.args.defaults
        ndef = len(defaults)
        for i, p in enumerate(params):
            if i < len(a):
                env[p] = a[i]
                continue
            k = i - (len(params) - ndef)
            d = defaults[k] if k >= 0 else None
            if isinstance(d, ast.Constant):
                env[p] = Const(d.value)
            elif isinstance(d, ast.List) and not d.elts:
                env[p] = ListV([])
            else:
                env[p] = Sym(p)
        for k2, v2 in (kwargs or {}).items():
            if k2 in params:
                env[k2] = v2
        if func.node.args.vararg is not None:
            env[func.node.args.vararg.arg] = ListV(a[len(params):])
        saved = st.env
        st.env = env
        outs = []
        for s, v in self.block(func.node.body, st, func):
            s2 = s
            s2.env = saved
            outs.append((s2, None if v is NORET else v))
        return outs

    # -- class constraints ----------------------------------------------------------------
    def classes_of(self, st, path):
        if path in st.classes:
            return st.classes[path]
        u = self.universe(path)
        return frozenset(u) if u is not None else None

    def _subclasses_named(self, names):
        out = set()
        for c in self.repo.all_classes():
            if any(b.name in names for b in self.repo.mro(c)):
                out.add(c.name)
        return out

    def split_isinstance(self, st, v, cls_names):
        """-> (state where v is an instance, state where it is not); None for infeasible"""
        sub = self._subclasses_named(cls_names)
        if isinstance(v, Sym):
            cur = self.classes_of(st, v.path)
            if cur is None:
                t, f = st.copy(), st.copy()
                t.classes[v.path] = frozenset(sub) if sub else frozenset(cls_names)
                f.truth.append(('isinstance(%s, %s)' % (v.path, '|'.join(cls_names)), False))
                return t, f
            yes = cur & sub
            no = cur - sub
            t = f = None
            if yes:
                t = st.copy()
                t.classes[v.path] = frozenset(yes)
            if no:
                f = st.copy()
                f.classes[v.path] = frozenset(no)
            return t, f
        if isinstance(v, New):
            return (st, None) if v.cls.name in sub else (None, st)
        if isinstance(v, Const):
            return (None, st)
        if isinstance(v, SelfV):
            return (st, None) if v.cls.name in sub else (None, st)
        t, f = st.copy(), st.copy()
        t.truth.append(('isinstance(%r, %s)' % (v, '|'.join(cls_names)), True))
        f.truth.append(('isinstance(%r, %s)' % (v, '|'.join(cls_names)), False))
        return t, f

    # -- statements -----------------------------------------------------------------------
    def block(self, stmts, st, func):
        states = [(st, NORET)]
        for s in stmts:
            nxt = []
            for cur, rv in states:
                if rv is not NORET:
                    nxt.append((cur, rv))
                else:
                    nxt.extend(self.stmt(s, cur, func))
            states = nxt
        return states

    def stmt(self, s, st, func):
        if isinstance(s, ast.Expr):
            if isinstance(s.value, ast.Constant):
                return [(st, NORET)]
            if isinstance(s.value, ast.Call) and isinstance(s.value.func, ast.Attribute) and s.value.func.attr in self.ignore_calls:
                return [(st, NORET)]
            return [(s2, NORET) for s2, _ in self.ev(s.value, st, func)]
        if isinstance(s, ast.Assign):
            out = []
            for s2, v in self.ev(s.value, st, func):
                for t in s.targets:
                    self.assign(t, v, s2, func)
                out.append((s2, NORET))
            return out
        if isinstance(s, ast.AugAssign):
            if is_self_attr(s.target):
                st.effects.append('self.%s %s= %s' % (s.target.attr, type(s.op).__name__, norm(s.value)))
                return [(st, NORET)]
            out = []
            for s2, v in self.ev(ast.BinOp(left=_load(s.target), op=s.op, right=s.value), st, func):
                self.assign(s.target, v, s2, func)
                out.append((s2, NORET))
            return out
        if isinstance(s, ast.Return):
            if s.value is None:
                return [(st, Const(None))]
            return list(self.ev(s.value, st, func))
        if isinstance(s, ast.If):
            out = []
            for br, s2 in self.cond(s.test, st, func):
                out.extend(self.block(s.body if br else s.orelse, s2, func))
            return out
        if isinstance(s, ast.Pass):
            return [(st, NORET)]
        if isinstance(s, ast.Raise):
            st.effects.append('raise %s' % norm(s.exc) if s.exc is not None else 'raise')
            return [(st, CallV('raise', [Opaque(norm(s.exc) if s.exc is not None else '')]))]
        if isinstance(s, ast.For):
            out = []
            for s2, it in self.ev(s.iter, st, func):
                if isinstance(it, ListV):
                    states = [(s2, NORET)]
                    for item in it.items:
                        nxt = []
                        for cur, rv in states:
                            if rv is not NORET:
                                nxt.append((cur, rv))
                                continue
                            self.assign(s.target, item, cur, func)
                            nxt.extend(self.block(s.body, cur, func))
                        states = nxt
                    out.extend(states)
                else:
                    raise AnalysisError('symex: loop over a symbolic sequence at %s line %d' % (func.qname, s.lineno))
            return out
        if isinstance(s, ast.While):
            # unrolled as long as the condition is decided on every path (bounded)
            done = []
            states = [(st, NORET)]
            for _ in range(64):
                nxt = []
                for cur, rv in states:
                    if rv is not NORET:
                        done.append((cur, rv))
                        continue
                    for br, s2 in self.cond(s.test, cur, func):
                        if br:
                            nxt.extend(self.block(s.body, s2, func))
                        else:
                            done.append((s2, NORET))
                states = nxt
                if not states:
                    break
                if len(states) + len(done) > 256:
                    raise AnalysisError('symex: while loop with a symbolic condition at %s line %d' % (func.qname, s.lineno))
            if states:
                raise AnalysisError('symex: while loop does not terminate symbolically at %s line %d' % (func.qname, s.lineno))
            return done
        if isinstance(s, (ast.Yield,)):
            raise AnalysisError('symex: generator body')
        raise AnalysisError('symex: unsupported statement %s at %s line %d' % (type(s).__name__, func.qname, s.lineno))

    def assign(self, t, v, st, func):
        if isinstance(t, ast.Name):
            st.env[t.id] = v
        elif isinstance(t, ast.Attribute):
            st.effects.append('%s = %r' % (norm(t), v))
        elif isinstance(t, (ast.Tuple, ast.List)) and isinstance(v, ListV) and len(v.items) == len(t.elts):
            for x, y in zip(t.elts, v.items):
                self.assign(x, y, st, func)
        else:
            raise AnalysisError('symex: unsupported assignment target %s at %s' % (norm(t), func.qname))

    # -- conditions -----------------------------------------------------------------------
    def cond(self, test, st, func):
        """-> list of (bool, state)"""
        if isinstance(test, ast.BoolOp):
            if isinstance(test.op, ast.And):
                out = []
                states = [st]
                for i, v in enumerate(test.values):
                    nxt = []
                    for s in states:
                        for br, s2 in self.cond(v, s, func):
                            if br:
                                nxt.append(s2)
                            else:
                                out.append((False, s2))
                    states = nxt
                out.extend((True, s) for s in states)
                return out
            out = []
            states = [st]
            for v in test.values:
                nxt = []
                for s in states:
                    for br, s2 in self.cond(v, s, func):
                        if br:
                            out.append((True, s2))
                        else:
                            nxt.append(s2)
                states = nxt
            out.extend((False, s) for s in states)
            return out
        if isinstance(test, ast.UnaryOp) and isinstance(test.op, ast.Not):
            return [(not br, s) for br, s in self.cond(test.operand, st, func)]
        if isinstance(test, ast.Call) and is_name(test.func, 'isinstance') and len(test.args) == 2:
            names = [x.id for x in ast.walk(test.args[1]) if isinstance(x, ast.Name)]
            out = []
            for s2, v in self.ev(test.args[0], st, func):
                t, f = self.split_isinstance(s2, v, names)
                if t is not None:
                    out.append((True, t))
                if f is not None:
                    out.append((False, f))
            return out
        if isinstance(test, ast.Compare) and len(test.ops) == 1:
            out = []
            op = test.ops[0]
            for s2, l in self.ev(test.left, st, func):
                for s3, r in self.ev(test.comparators[0], s2, func):
                    out.extend(self.compare(op, l, r, s3, test))
            return out
        out = []
        for s2, v in self.ev(test, st, func):
            out.extend(self.truthy(v, s2, test))
        return out

    def compare(self, op, l, r, st, test):
        eq = isinstance(op, (ast.Eq, ast.Is))
        ne = isinstance(op, (ast.NotEq, ast.IsNot))
        if not (eq or ne):
            t, f = st.copy(), st.copy()
            t.truth.append((norm(test), True))
            f.truth.append((norm(test), False))
            return [(True, t), (False, f)]
        if isinstance(l, Const) and isinstance(r, Const):
            res = (l.v == r.v) if eq else (l.v != r.v)
            return [(res, st)]
        if isinstance(l, ListV) and isinstance(r, ListV):
            if not l.items and not r.items:
                return [(eq, st)]
            if bool(l.items) != bool(r.items):
                return [(ne, st)]
        if isinstance(l, (New, Fresh)) and isinstance(r, Const):
            return [(ne, st)]
        sym, other = (l, r) if not isinstance(l, Const) else (r, l)
        key = repr(sym)
        val = other.v if isinstance(other, Const) else repr(other)
        # consistency with earlier decisions on the same path
        for k, o, v in st.eqs:
            if k == key and v == val:
                return [((o == '==') == eq, st)]
            if k == key and o == '==' and v != val and isinstance(other, Const):
                return [(ne, st)]
        t, f = st.copy(), st.copy()
        t.eqs.append((key, '==' if eq else '!=', val))
        f.eqs.append((key, '!=' if eq else '==', val))
        return [(True, t), (False, f)]

    def truthy(self, v, st, test):
        if isinstance(v, Const):
            return [(bool(v.v), st)]
        if isinstance(v, ListV):
            return [(bool(v.items), st)]
        if isinstance(v, (New, Fresh)):
            return [(True, st)]
        key = repr(v)
        for k, t in st.truth:
            if k == key:
                return [(t, st)]
        t, f = st.copy(), st.copy()
        t.truth.append((key, True))
        f.truth.append((key, False))
        return [(True, t), (False, f)]

    # -- expressions ----------------------------------------------------------------------
    def ev(self, e, st, func):
        if e is None:
            return [(st, Const(None))]
        if isinstance(e, ast.Constant):
            return [(st, Const(e.value))]
        if isinstance(e, ast.Name):
            if e.id in st.env:
                return [(st, st.env[e.id])]
            r = self.repo.resolve_name(func, e.id)
            if r and r[0] == 'class':
                return [(st, ('class', r[1]))]
            if r and r[0] in ('func', 'nested'):
                return [(st, ('func', r[1]))]
            if r and r[0] == 'var' and isinstance(r[2], ast.Constant):
                return [(st, Const(r[2].value))]
            return [(st, Opaque(e.id))]
        if isinstance(e, ast.Attribute):
            out = []
            for s2, b in self.ev(e.value, st, func):
                out.append((s2, self.attr(b, e.attr, s2, func, e)))
            return out
        if isinstance(e, (ast.List, ast.Tuple)):
            states = [(st, [])]
            for x in e.elts:
                nxt = []
                for s2, items in states:
                    for s3, v in self.ev(x.value if isinstance(x, ast.Starred) else x, s2, func):
                        if isinstance(x, ast.Starred) and isinstance(v, ListV):
                            nxt.append((s3, items + v.items))
                        else:
                            nxt.append((s3, items + [v]))
                states = nxt
            return [(s2, ListV(items)) for s2, items in states]
        if isinstance(e, ast.BinOp) and isinstance(e.op, ast.Add):
            out = []
            for s2, l in self.ev(e.left, st, func):
                for s3, r in self.ev(e.right, s2, func):
                    if isinstance(l, ListV) and isinstance(r, ListV):
                        out.append((s3, ListV(l.items + r.items)))
                    elif isinstance(l, Const) and isinstance(r, Const):
                        try:
                            out.append((s3, Const(l.v + r.v)))
                        except TypeError:
                            out.append((s3, Opaque(norm(e))))
                    else:
                        out.append((s3, CatV([l, r])))
            return out
        if isinstance(e, ast.BinOp):
            outs = []
            for s2, l in self.ev(e.left, st, func):
                for s3, r in self.ev(e.right, s2, func):
                    outs.append((s3, CallV(type(e.op).__name__, [l, r])))
            return outs
        if isinstance(e, ast.Call):
            return self.call(e, st, func)
        if isinstance(e, ast.JoinedStr):
            return [(st, Opaque('fstring'))]
        if isinstance(e, ast.Subscript):
            out = []
            for s2, b in self.ev(e.value, st, func):
                for s3, i in self.ev(e.slice, s2, func):
                    if isinstance(b, ListV) and isinstance(i, Const) and isinstance(i.v, int) and -len(b.items) <= i.v < len(b.items):
                        out.append((s3, b.items[i.v]))
                    elif isinstance(b, Sym):
                        out.append((s3, Sym('%s[%s]' % (b.path, i.v if isinstance(i, Const) else repr(i)))))
                    else:
                        out.append((s3, CallV('getitem', [b, i])))
            return out
        if isinstance(e, ast.UnaryOp) and not isinstance(e.op, ast.Not):
            out = []
            for s2, v in self.ev(e.operand, st, func):
                if isinstance(v, Const) and isinstance(v.v, (int, float)) and isinstance(e.op, ast.USub):
                    out.append((s2, Const(-v.v)))
                else:
                    out.append((s2, CallV(type(e.op).__name__, [v])))
            return out
        if isinstance(e, (ast.Compare, ast.BoolOp, ast.UnaryOp)):
            out = []
            for br, s2 in self.cond(e, st, func):
                out.append((s2, Const(br)))
            return out
        if isinstance(e, ast.IfExp):
            out = []
            for br, s2 in self.cond(e.test, st, func):
                out.extend(self.ev(e.body if br else e.orelse, s2, func))
            return out
        if isinstance(e, ast.ListComp) and len(e.generators) == 1 and not e.generators[0].ifs:
            g = e.generators[0]
            out = []
            for s2, it in self.ev(g.iter, st, func):
                if isinstance(it, ListV):
                    states = [(s2, [])]
                    for item in it.items:
                        nxt = []
                        for s3, items in states:
                            self.assign(g.target, item, s3, func)
                            for s4, v in self.ev(e.elt, s3, func):
                                nxt.append((s4, items + [v]))
                        states = nxt
                    out.extend((s3, ListV(items)) for s3, items in states)
                else:
                    s3 = s2.copy()
                    var = Sym('elem(%r)' % (it,))
                    self.assign(g.target, var, s3, func)
                    res = self.ev(e.elt, s3, func)
                    out.append((s2, CallV('map', [res[0][1] if res else Opaque('?'), it])))
            return out
        if isinstance(e, ast.Lambda):
            return [(st, Opaque('lambda'))]
        if isinstance(e, ast.Dict):
            return [(st, Opaque('dict'))]
        raise AnalysisError('symex: unsupported expression %s at %s line %d' % (type(e).__name__, func.qname, getattr(e, 'lineno', 0)))

    def attr(self, b, name, st, func, node):
        if isinstance(b, Sym):
            return Sym('%s.%s' % (b.path, name))
        if isinstance(b, New):
            v = self.new_field(b, name)
            if v is not None:
                return v
            m = self.repo.lookup_method(b.cls, name)
            if m is not None:
                return ('bound', m, b)
            return CallV('attr:' + name, [b])
        if isinstance(b, SelfV):
            m = self.repo.lookup_method(b.cls, name)
            if m is not None:
                return ('bound', m, b)
            return Sym('self.%s' % name)
        if isinstance(b, tuple) and b[0] == 'class':
            m = self.repo.lookup_method(b[1], name)
            if m is not None:
                return ('func', m)
        return CallV('attr:' + name, [b])

    def new_field(self, obj, attr):
        init = self.repo.lookup_method(obj.cls, '__init__')
        if init is None:
            return None
        params = init.params[1:]
        for n in own_nodes(init.node):
            if isinstance(n, ast.Assign) and any(is_self_attr(t, attr) for t in n.targets):
                if isinstance(n.value, ast.Name) and n.value.id in params:
                    i = params.index(n.value.id)
                    if i < len(obj.args):
                        return obj.args[i]
                    if n.value.id in obj.kwargs:
                        return obj.kwargs[n.value.id]
                    a = init.node.args
                    k = i - (len(params) - len(a.defaults))
                    if k >= 0:
                        d = a.defaults[k]
                        if isinstance(d, ast.Constant):
                            return Const(d.value)
                        if isinstance(d, ast.List) and not d.elts:
                            return ListV([])
                    return None
                if isinstance(n.value, ast.Constant):
                    return Const(n.value.value)
        return None

    # -- calls ----------------------------------------------------------------------------
    def call(self, e, st, func):
        # functools.reduce(lambda acc, el: ..., <list of known length>, init): unrolled
        if norm(e.func) in ('functools.reduce', 'reduce') and len(e.args) >= 2 and isinstance(e.args[0], ast.Lambda):
            lam = e.args[0]
            ps = [a.arg for a in lam.args.args]
            outs = []
            for s2, seq in self.ev(e.args[1], st, func):
                inits = self.ev(e.args[2], s2, func) if len(e.args) > 2 else [(s2, None)]
                for s3, init in inits:
                    if not isinstance(seq, ListV) or len(ps) != 2:
                        outs.append((s3, CallV('reduce', [Opaque('lambda'), seq, init])))
                        continue
                    items = list(seq.items)
                    acc = init
                    if acc is None:
                        if not items:
                            outs.append((s3, CallV('raise', [Opaque('reduce of empty sequence')])))
                            continue
                        acc, items = items[0], items[1:]
                    cur = s3
                    for it in items:
                        saved = dict(cur.env)
                        cur.env[ps[0]] = acc
                        cur.env[ps[1]] = it
                        res = self.ev(lam.body, cur, func)
                        cur, acc = res[0]
                        cur.env = saved
                    outs.append((cur, acc))
            return outs
        # evaluate callee and arguments
        outs = []
        for s2, f in self.ev(e.func, st, func):
            states = [(s2, [])]
            for a in e.args:
                nxt = []
                for s3, args in states:
                    for s4, v in self.ev(a.value if isinstance(a, ast.Starred) else a, s3, func):
                        if isinstance(a, ast.Starred) and isinstance(v, ListV):
                            nxt.append((s4, args + v.items))
                        else:
                            nxt.append((s4, args + [v]))
                states = nxt
            kw = {}
            for k in e.keywords:
                if k.arg is not None:
                    res = self.ev(k.value, st, func)
                    kw[k.arg] = res[0][1]
            for s3, args in states:
                outs.extend(self.apply(e, f, args, kw, s3, func))
        return outs

    def apply(self, e, f, args, kw, st, func):
        if isinstance(f, tuple) and f[0] == 'class':
            return [(st, New(f[1], args, kw))]
        if isinstance(f, tuple) and f[0] == 'bound':
            m, recv = f[1], f[2]
            if self.opaque(m.name):
                return [(st, CallV(m.name, args, recv=None if isinstance(recv, SelfV) else recv, node=e))]
            if m.is_generator:
                return [(st, CallV('gen:' + m.qname, args, recv=recv, node=e))]
            if self.inline(m) and self.depth < self.max_depth:
                self.depth += 1
                try:
                    return self.run(m, [recv] + args, st, with_self=True, kwargs=kw)
                finally:
                    self.depth -= 1
            return [(st, CallV(m.name, args, recv=None if isinstance(recv, SelfV) else recv, node=e))]
        if isinstance(f, tuple) and f[0] == 'func':
            m = f[1]
            if self.opaque(m.name):
                return [(st, CallV(m.name, args, node=e))]
            if m.is_generator:
                return [(st, CallV('gen:' + m.qname, args, node=e))]
            if self.inline(m) and self.depth < self.max_depth:
                self.depth += 1
                try:
                    return self.run(m, args, st, kwargs=kw)
                finally:
                    self.depth -= 1
            return [(st, CallV(m.name, args, node=e))]
        if isinstance(e.func, ast.Name):
            n = e.func.id
            if n == 'len' and args and isinstance(args[0], ListV):
                return [(st, Const(len(args[0].items)))]
            if n == 'str' and args and isinstance(args[0], Const):
                return [(st, Const(str(args[0].v)))]
            if n == 'list' and args and isinstance(args[0], ListV):
                return [(st, ListV(args[0].items))]
            if n == 'reversed' and args and isinstance(args[0], ListV):
                return [(st, ListV(list(reversed(args[0].items))))]
            return [(st, CallV(n, args, node=e))]
        if isinstance(e.func, ast.Attribute):
            recv = self.ev(e.func.value, st, func)[0][1]
            name = e.func.attr
            if isinstance(recv, ListV) and name == 'append' and args:
                recv.items.append(args[0])
                return [(st, Const(None))]
            if isinstance(recv, ListV) and name == 'extend' and args and isinstance(args[0], ListV):
                recv.items.extend(args[0].items)
                return [(st, Const(None))]
            # method call on a pattern variable of known class(es): dispatch
            if isinstance(recv, Sym):
                cls = self.classes_of(st, recv.path)
                return self.dispatch(e, recv, name, args, cls, st, func)
            return [(st, CallV(name, args, recv=recv, node=e))]
        return [(st, CallV(norm(e.func), args, node=e))]

    def dispatch(self, e, recv, name, args, classes, st, func):
        if not classes:
            return [(st, CallV(name, args, recv=recv, node=e))]
        outs = []
        for cn in sorted(classes):
            ci = None
            for c in self.repo.all_classes():
                if c.name == cn:
                    ci = c
            s2 = st.copy()
            s2.classes[recv.path] = frozenset([cn])
            m = self.repo.lookup_method(ci, name) if ci else None
            if m is None or self.opaque(name):
                outs.append((s2, CallV(name, args, recv=recv, node=e)))
            elif m.is_generator:
                outs.append((s2, CallV('gen:' + m.qname, args, recv=recv, node=e)))
            elif self.inline(m) and self.depth < self.max_depth:
                self.depth += 1
                try:
                    outs.extend(self.run(m, [recv] + args, s2, with_self=True))
                finally:
                    self.depth -= 1
            else:
                outs.append((s2, CallV(name, args, recv=recv, node=e)))
        return outs


def _load(t):
    import copy
    c = copy.copy(t)
    c.ctx = ast.Load()
    return c
