"""E6 (first half) - symbolic evaluation of the compiler's Python subset.

Functions such as ``compile_body``, ``compile_expression``, ``unify`` or ``visitPredicateexpression``
are ``isinstance``/``==`` decision chains over a structured argument.  They are evaluated with
symbolic arguments: pattern variables carry class constraints that the tests refine; attribute
paths of pattern variables are pattern variables again; constructor applications, lists, dicts
and strings are kept as terms; helpers are inlined (policy given by the caller); selected calls
are kept as uninterpreted holes.  The result is one (constraints, value) pair per path.

With *concrete* arguments (syntax-tree objects built by the checker) every test is decided and the
evaluation has a single path; the state then also carries the fields of ``self`` (scope stacks,
counters), so that whole compile functions can be evaluated on sample clauses.

Nothing of the repository is imported or executed: this is an evaluator over ``ast`` nodes.
"""
import ast

from .model import local_names, AnalysisError, own_nodes, is_name, is_self_attr, norm, FuncInfo


class Sym:
    """pattern variable: a path from a parameter"""

    def __init__(self, path):
        self.path = path

    def __repr__(self):
        return self.path

    def __eq__(self, o):
        return isinstance(o, Sym) and o.path == self.path

    def __hash__(self):
        return hash(('sym', self.path))


class Const:
    def __init__(self, v):
        self.v = v

    def __repr__(self):
        return repr(self.v)

    def __eq__(self, o):
        return isinstance(o, Const) and o.v == self.v and type(o.v) is type(self.v)

    def __hash__(self):
        return hash(('const', repr(self.v)))


class New:
    def __init__(self, cls, args, kwargs=None):
        self.cls = cls
        self.args = list(args)
        self.kwargs = dict(kwargs or {})
        self.fields = None          # set lazily when a method assigns a field of the object

    def __repr__(self):
        return '%s(%s)' % (self.cls.name, ', '.join(map(repr, self.args)))


class ListV:
    def __init__(self, items, tuple_=False):
        self.items = list(items)
        self.tuple_ = tuple_

    def __repr__(self):
        return '[%s]' % ', '.join(map(repr, self.items))


class DictV:
    def __init__(self, pairs=(), missing=None):
        self.pairs = [list(p) for p in pairs]
        self.missing = missing          # what a missing key reads as: None (KeyError), a value (Counter: 0), ('factory', kind)

    def __repr__(self):
        return '{%s}' % ', '.join('%r: %r' % (k, v) for k, v in self.pairs)


class CatV:
    def __init__(self, parts):
        flat = []
        for p in parts:
            if isinstance(p, CatV):
                flat.extend(p.parts)
            else:
                flat.append(p)
        self.parts = flat

    def __repr__(self):
        return ' ++ '.join(map(repr, self.parts))


class CallV:
    """uninterpreted call"""

    def __init__(self, name, args, recv=None, node=None):
        self.name = name
        self.args = list(args)
        self.recv = recv
        self.node = node

    def __repr__(self):
        return '%s%s<%s>' % ((repr(self.recv) + '.') if self.recv is not None else '', self.name, ', '.join(map(repr, self.args)))


class Fresh:
    def __init__(self, tag, n):
        self.tag = tag
        self.n = n

    def __repr__(self):
        return '%s#%d' % (self.tag, self.n)

    def __eq__(self, o):
        return isinstance(o, Fresh) and (o.tag, o.n) == (self.tag, self.n)

    def __hash__(self):
        return hash(('fresh', self.tag, self.n))


class SelfV:
    def __init__(self, cls):
        self.cls = cls

    def __repr__(self):
        return 'self'


class Opaque:
    def __init__(self, text):
        self.text = text

    def __repr__(self):
        return '?%s' % self.text


def _deep(v, memo):
    """copy the mutable containers of a value (aliasing between them is preserved)"""
    if isinstance(v, ListV):
        if id(v) in memo:
            return memo[id(v)]
        c = ListV([], v.tuple_)
        memo[id(v)] = c
        c.items = [_deep(x, memo) for x in v.items]
        return c
    if isinstance(v, DictV):
        if id(v) in memo:
            return memo[id(v)]
        c = DictV(missing=v.missing)
        memo[id(v)] = c
        c.pairs = [[_deep(k, memo), _deep(x, memo)] for k, x in v.pairs]
        return c
    return v


class PathState:
    def __init__(self):
        self.classes = {}      # path -> frozenset(class names)   (possible classes)
        self.eqs = []          # (text of lhs, '==' | '!=', python value)
        self.truth = []        # (text, bool)
        self.env = {}
        self.fields = {}       # fields of ``self``
        self.fresh = 0
        self.effects = []      # attribute stores / mutating calls seen on the path
        self.yields = None
        self.stack = []        # environments of the callers of the function being evaluated (forked with the path)

    def copy(self):
        p = PathState()
        p.classes = dict(self.classes)
        p.eqs = list(self.eqs)
        p.truth = list(self.truth)
        memo = {}
        p.env = {k: _deep(v, memo) for k, v in self.env.items()}
        p.stack = [{k: _deep(v, memo) for k, v in fr.items()} for fr in self.stack]
        p.fields = {k: _deep(v, memo) for k, v in self.fields.items()}
        p.fresh = self.fresh
        p.effects = list(self.effects)
        p.yields = _deep(self.yields, memo) if self.yields is not None else None
        return p

    def describe(self):
        parts = ['%s:%s' % (k, '|'.join(sorted(v))) for k, v in sorted(self.classes.items())]
        parts += ['%s %s %r' % e for e in self.eqs]
        parts += ['%s%s' % ('' if t else 'not ', x) for x, t in self.truth]
        return ', '.join(parts)


NORET = object()
_PURE_STR_METHODS = frozenset('''splitlines split rsplit replace lower upper strip lstrip rstrip startswith endswith isidentifier isdigit isalpha isalnum title capitalize zfill ljust rjust center find rfind index count partition rpartition expandtabs casefold isupper islower isspace removeprefix removesuffix isascii isdecimal isnumeric swapcase'''.split())


def _where(func):
    return getattr(func, 'qname', getattr(func, 'name', '?'))


def values_equal(a, b):
    """True / False / None (undecided)"""
    if isinstance(a, Const) and isinstance(b, Const):
        return a.v == b.v
    if isinstance(a, (New, SelfV)) or isinstance(b, (New, SelfV)):
        if isinstance(a, Const) or isinstance(b, Const):
            return False
        if isinstance(a, (New, SelfV)) and isinstance(b, (New, SelfV)):
            return a is b
    if isinstance(a, Fresh) or isinstance(b, Fresh):
        if isinstance(a, Fresh) and isinstance(b, Fresh):
            return a == b
        if isinstance(a, (Const, New, ListV, DictV, SelfV, Sym, tuple)) or isinstance(b, (Const, New, ListV, DictV, SelfV, Sym, tuple)):
            # (an input of the evaluated function is never an object created by the evaluated code itself)
            return False
    if isinstance(a, ListV) and isinstance(b, ListV):
        if len(a.items) != len(b.items):
            return False
        res = True
        for x, y in zip(a.items, b.items):
            r = values_equal(x, y)
            if r is False:
                return False
            if r is None:
                res = None
        return res
    if isinstance(a, Sym) and isinstance(b, Sym) and a.path == b.path:
        return True
    if isinstance(a, tuple) and isinstance(b, tuple) and a and b and a[0] == b[0] == 'class':
        return a[1] is b[1]
    if (isinstance(a, tuple) and isinstance(b, Const)) or (isinstance(b, tuple) and isinstance(a, Const)):
        return False
    if (_library_callable(a) and isinstance(b, Const)) or (_library_callable(b) and isinstance(a, Const)):
        return False
    return None


_BUILTIN_CALLABLES = ('list', 'tuple', 'dict', 'set', 'frozenset', 'str', 'int', 'len', 'sorted', 'reversed', 'bool', 'sum', 'min', 'max')


def _library_callable(v):
    """a builtin or a function of operator / functools / itertools, mentioned as a value"""
    return isinstance(v, Opaque) and (v.text in _BUILTIN_CALLABLES or v.text.split('.')[0] in ('operator', 'functools', 'itertools'))


def _lookup_error(v):
    """'KeyError' / 'IndexError' when the value is the result of a lookup that certainly failed"""
    if isinstance(v, CallV) and v.name == 'raise' and len(v.args) == 1 and isinstance(v.args[0], Opaque) \
            and v.args[0].text in ('KeyError', 'IndexError'):
        return v.args[0].text
    return None


def _raised(v):
    """the exception class name when the value is a raised exception (``raise X(..)`` evaluated in a callee, a lookup that
    certainly failed), else None"""
    if isinstance(v, CallV) and v.name == 'raise' and len(v.args) == 1 and isinstance(v.args[0], Opaque):
        t = v.args[0].text.split('(')[0].strip()
        if t.endswith('?'):
            return None
        return t or 'BaseException'
    return None


def _raised_inside(v):
    """a raised exception among the direct components of a freshly built value (an element of a list display, an operand,
    an argument of an uninterpreted or constructor call), else None"""
    if isinstance(v, CallV):
        if _raised(v):
            return v
        parts = v.args + ([v.recv] if v.recv is not None else [])
    elif isinstance(v, ListV):
        parts = v.items
    elif isinstance(v, CatV):
        parts = v.parts
    elif isinstance(v, New):
        parts = v.args
    else:
        return None
    for x in parts:
        if isinstance(x, CallV) and _raised(x):
            return x
    return None


class SymEx:
    def __init__(self, repo, universe=None, inline=None, opaque=None, max_depth=8, ignore_calls=('_debug',)):
        """universe(path) -> iterable of class names a pattern variable may have (None = unknown);
        inline(callee FuncInfo) -> bool ; opaque(callee name) -> bool"""
        self.repo = repo
        self.universe = universe or (lambda path: None)
        self.inline = inline or (lambda f: False)
        self.opaque = opaque or (lambda name: False)
        self.max_depth = max_depth
        self.ignore_calls = ignore_calls
        self.depth = 0
        self.steps = 0
        self.max_steps = 400000
        self._consts = {}

    # -- entry ----------------------------------------------------------------------------
    def run(self, func, args=None, state=None, with_self=False, kwargs=None):
        """-> list of (PathState, value); value None for an implicit ``return None``"""
        st = state or PathState()
        if self.depth == 0:
            self.steps = 0
        params = func.params
        env = {}
        a = list(args or [])
        if func.is_method and not with_self:
            a = [SelfV(func.cls)] + a
        defaults = func.node.args.defaults
        ndef = len(defaults)
        for i, p in enumerate(params):
            if i < len(a):
                env[p] = a[i]
                continue
            k = i - (len(params) - ndef)
            d = defaults[k] if k >= 0 else None
            if isinstance(d, ast.Constant):
                env[p] = Const(d.value)
            elif isinstance(d, ast.List) and not d.elts:
                env[p] = ListV([])
            else:
                env[p] = Sym(p)
        for k2, v2 in (kwargs or {}).items():
            if k2 in params:
                env[k2] = v2
        if func.node.args.vararg is not None:
            env[func.node.args.vararg.arg] = ListV(a[len(params):], True)
        st.stack.append(st.env)
        st.env = env
        outs = []
        gen = func.is_generator and not func.is_contextmanager
        saved_y = st.yields
        if gen:
            st.yields = ListV([])
        for s, v in self.block(func.node.body, st, func):
            if gen:
                v = s.yields
                s.yields = saved_y
            s.env = s.stack.pop()       # every path has its own copy of the caller's frame
            outs.append((s, None if v is NORET else v))
        return outs

    _BUILTIN_EXC = {'KeyError': ('LookupError', 'Exception', 'BaseException'), 'IndexError': ('LookupError', 'Exception', 'BaseException'),
                    'ValueError': ('Exception', 'BaseException'), 'TypeError': ('Exception', 'BaseException'),
                    'RuntimeError': ('Exception', 'BaseException'), 'NotImplementedError': ('RuntimeError', 'Exception', 'BaseException'),
                    'AttributeError': ('Exception', 'BaseException'), 'StopIteration': ('Exception', 'BaseException'),
                    'AssertionError': ('Exception', 'BaseException'), 'Exception': ('BaseException',), 'BaseException': ()}

    def _exc_matches(self, kind, handler, func):
        """does ``except <handler>`` catch an exception of class ``kind`` (both simple names)?"""
        kind = kind.split('.')[-1]
        if kind == handler or handler == 'BaseException':
            return True
        if kind in self._BUILTIN_EXC:
            return handler in self._BUILTIN_EXC[kind]
        for c in self.repo.all_classes():
            if c.name == kind:
                names = {b.name for b in self.repo.mro(c)} | set(self.repo.external_bases(c) or ())
                if handler in names:
                    return True
                # a repository exception class: derives from Exception unless it says otherwise
                return handler == 'Exception' and 'BaseException' not in names
        return False

    # -- class constraints ----------------------------------------------------------------
    def classes_of(self, st, path):
        if path in st.classes:
            return st.classes[path]
        u = self.universe(path)
        return frozenset(u) if u is not None else None

    def _subclasses_named(self, names):
        out = set()
        for c in self.repo.all_classes():
            if any(b.name in names for b in self.repo.mro(c)):
                out.add(c.name)
        return out

    def split_isinstance(self, st, v, cls_names):
        """-> (state where v is an instance, state where it is not); None for infeasible"""
        sub = self._subclasses_named(cls_names)
        if isinstance(v, Sym):
            cur = self.classes_of(st, v.path)
            if cur is None:
                t, f = st.copy(), st.copy()
                t.classes[v.path] = frozenset(sub) if sub else frozenset(cls_names)
                f.truth.append(('isinstance(%s, %s)' % (v.path, '|'.join(cls_names)), False))
                return t, f
            yes = cur & sub
            no = cur - sub
            t = f = None
            if yes:
                t = st.copy()
                t.classes[v.path] = frozenset(yes)
            if no:
                f = st.copy()
                f.classes[v.path] = frozenset(no)
            return t, f
        if isinstance(v, New):
            return (st, None) if v.cls.name in sub else (None, st)
        if isinstance(v, (Const, ListV, DictV, Fresh)):
            k = {'str': str, 'int': int, 'list': list, 'dict': dict, 'tuple': tuple, 'bool': bool}
            if isinstance(v, Const) and any(n in k and isinstance(v.v, k[n]) for n in cls_names):
                return (st, None)
            if isinstance(v, ListV) and (('tuple' in cls_names and v.tuple_) or ('list' in cls_names and not v.tuple_)):
                return (st, None)
            if isinstance(v, DictV) and 'dict' in cls_names:
                return (st, None)
            return (None, st)
        if isinstance(v, SelfV):
            return (st, None) if v.cls.name in sub else (None, st)
        if isinstance(v, tuple) and v and v[0] in ('func', 'bound', 'lambda', 'method', 'attrgetter', 'itemgetter') and \
                all(n in ('str', 'int', 'list', 'dict', 'tuple', 'bool', 'float', 'bytes', 'set', 'frozenset') for n in cls_names):
            return (None, st)           # a function is none of the data types
        t, f = st.copy(), st.copy()
        t.truth.append(('isinstance(%r, %s)' % (v, '|'.join(cls_names)), True))
        f.truth.append(('isinstance(%r, %s)' % (v, '|'.join(cls_names)), False))
        return t, f

    # -- statements -----------------------------------------------------------------------
    def block(self, stmts, st, func):
        states = [(st, NORET)]
        for s in stmts:
            nxt = []
            for cur, rv in states:
                if rv is not NORET:
                    nxt.append((cur, rv))
                else:
                    nxt.extend(self.stmt(s, cur, func))
            states = nxt
            if len(states) > 4096:
                raise AnalysisError('symex: too many symbolic paths in %s' % _where(func))
        return states

    def stmt(self, s, st, func):
        self.steps += 1
        if self.steps > self.max_steps:
            raise AnalysisError('symex: evaluation of %s does not finish' % _where(func))
        if isinstance(s, ast.Expr):
            v = s.value
            if isinstance(v, ast.Constant):
                return [(st, NORET)]
            if isinstance(v, ast.Call) and isinstance(v.func, ast.Attribute) and v.func.attr in self.ignore_calls:
                return [(st, NORET)]
            if isinstance(v, ast.Yield):
                out = []
                for s2, x in self.ev(v.value, st, func):
                    if s2.yields is not None:
                        s2.yields.items.append(x)
                    out.append((s2, NORET))
                return out
            if isinstance(v, ast.YieldFrom):
                out = []
                for s2, x in self.ev(v.value, st, func):
                    if s2.yields is not None:
                        if isinstance(x, ListV):
                            s2.yields.items.extend(x.items)
                        else:
                            s2.yields.items.append(CallV('yieldfrom', [x]))
                    out.append((s2, NORET))
                return out
            return [(s2, x if _raised(x) else NORET) for s2, x in self.ev(v, st, func)]
        if isinstance(s, ast.Assign):
            out = []
            for s2, v in self.ev(s.value, st, func):
                if _raised(v):
                    out.append((s2, v))         # the evaluation raised: the statement is abandoned
                    continue
                for t in s.targets:
                    self.assign(t, v, s2, func)
                out.append((s2, NORET))
            return out
        if isinstance(s, ast.AnnAssign):
            if s.value is None:
                return [(st, NORET)]
            out = []
            for s2, v in self.ev(s.value, st, func):
                self.assign(s.target, v, s2, func)
                out.append((s2, NORET))
            return out
        if isinstance(s, ast.AugAssign):
            out = []
            for s2, v in self.ev(ast.BinOp(left=_load(s.target), op=s.op, right=s.value, lineno=s.lineno, col_offset=0), st, func):
                if is_self_attr(s.target):
                    s2.effects.append('self.%s %s= %s' % (s.target.attr, type(s.op).__name__, norm(s.value)))
                self.assign(s.target, v, s2, func)
                out.append((s2, NORET))
            return out
        if isinstance(s, ast.Return):
            if s.value is None:
                return [(st, Const(None))]
            return list(self.ev(s.value, st, func))
        if isinstance(s, ast.If):
            out = []
            for br, s2 in self.cond(s.test, st, func):
                out.extend(self.block(s.body if br else s.orelse, s2, func))
            return out
        if isinstance(s, (ast.Pass, ast.Global, ast.Nonlocal, ast.Import, ast.ImportFrom)):
            return [(st, NORET)]
        if isinstance(s, ast.Raise):
            st.effects.append('raise %s' % norm(s.exc) if s.exc is not None else 'raise')
            return [(st, CallV('raise', [Opaque(norm(s.exc) if s.exc is not None else '')]))]
        if isinstance(s, ast.For):
            out = []
            for s2, it in self.ev(s.iter, st, func):
                seq_value = it
                it = self.as_sequence(it)
                if it is None:
                    # for x in xs: [t = g(x);] acc.append(f(x, t))  with acc still empty  is  acc = [f(x, g(x)) for x in xs]
                    from .templates import Extractor
                    al = Extractor._append_loop(s)
                    if al is not None and isinstance(s2.env.get(al[0]), ListV) and not s2.env[al[0]].items and not s2.env[al[0]].tuple_:
                        comp = ast.ListComp(elt=al[1], generators=[ast.comprehension(target=s.target, iter=s.iter, ifs=[], is_async=0)])
                        ast.copy_location(comp, s)
                        ast.fix_missing_locations(comp)
                        for s3, v in self.comprehension(comp, s2, func):
                            s3.env[al[0]] = v
                            out.append((s3, NORET))
                        continue
                    raise AnalysisError('symex: loop over a symbolic sequence at %s line %d' % (_where(func), s.lineno))
                states = [(s2, NORET)]
                for item in it:
                    nxt = []
                    for cur, rv in states:
                        if rv is not NORET:
                            nxt.append((cur, rv))
                            continue
                        self.assign(s.target, item, cur, func)
                        for c2, r2 in self.block(s.body, cur, func):
                            if r2 is _BREAK:
                                nxt.append((c2, _BROKE))
                            elif r2 is _CONTINUE:
                                nxt.append((c2, NORET))
                            else:
                                nxt.append((c2, r2))
                    states = nxt
                fin = []
                for cur, rv in states:
                    if rv is _BROKE:
                        fin.append((cur, NORET))
                    elif rv is NORET and s.orelse:
                        fin.extend(self.block(s.orelse, cur, func))
                    else:
                        fin.append((cur, rv))
                out.extend(fin)
            return out
        if isinstance(s, ast.Break):
            return [(st, _BREAK)]
        if isinstance(s, ast.Continue):
            return [(st, _CONTINUE)]
        if isinstance(s, ast.While):
            done = []
            states = [(st, NORET)]
            for _ in range(256):
                nxt = []
                for cur, rv in states:
                    if rv is not NORET:
                        done.append((cur, rv))
                        continue
                    for br, s2 in self.cond(s.test, cur, func):
                        if br:
                            for c2, r2 in self.block(s.body, s2, func):
                                if r2 is _BREAK:
                                    done.append((c2, NORET))
                                elif r2 is _CONTINUE:
                                    nxt.append((c2, NORET))
                                else:
                                    nxt.append((c2, r2))
                        else:
                            done.append((s2, NORET))
                states = nxt
                if not states:
                    break
                if len(states) + len(done) > 512:
                    raise AnalysisError('symex: while loop with a symbolic condition at %s line %d' % (_where(func), s.lineno))
            if states:
                raise AnalysisError('symex: while loop does not terminate symbolically at %s line %d' % (_where(func), s.lineno))
            return done
        if isinstance(s, ast.Try):
            # no exception is assumed inside the evaluated subset: body, else, finally
            out = []
            for s2, rv in self.block(s.body, st, func):
                kind = _raised(rv)
                if kind:
                    # an exception raised in the body: the first handler that certainly matches it takes over
                    hnd = None
                    for h in s.handlers:
                        names = [norm(x) for x in (h.type.elts if isinstance(h.type, ast.Tuple) else [h.type])] if h.type is not None else None
                        if names is None or any(self._exc_matches(kind, n.split('.')[-1], func) for n in names):
                            hnd = h
                            break
                    if hnd is not None:
                        if hnd.name:
                            s2.env[hnd.name] = Opaque(kind)
                        res = self.block(hnd.body, s2, func)
                        for s3, rv3 in res:
                            if s.finalbody:
                                for s4, rv4 in self.block(s.finalbody, s3, func):
                                    out.append((s4, rv3 if rv4 is NORET else rv4))
                            else:
                                out.append((s3, rv3))
                        continue
                if rv is NORET and s.orelse:
                    res = self.block(s.orelse, s2, func)
                else:
                    res = [(s2, rv)]
                for s3, rv3 in res:
                    if s.finalbody:
                        for s4, rv4 in self.block(s.finalbody, s3, func):
                            out.append((s4, rv3 if rv4 is NORET else rv4))
                    else:
                        out.append((s3, rv3))
            return out
        if isinstance(s, ast.With):
            return self._with(s, st, func)
        if isinstance(s, ast.Assert):
            return [(st, NORET)]
        if isinstance(s, (ast.FunctionDef, ast.ClassDef)):
            return [(st, NORET)]
        if isinstance(s, ast.Delete):
            return [(st, NORET)]
        raise AnalysisError('symex: unsupported statement %s at %s line %d' % (type(s).__name__, _where(func), s.lineno))

    def _with(self, s, st, func):
        """``with self.helper():`` on a @contextmanager method: enter part, body, exit part"""
        states = [(st, [])]
        for item in s.items:
            nxt = []
            for cur, exits in states:
                ce = item.context_expr
                target = None
                if isinstance(ce, ast.Call):
                    for s2, f in self.ev(ce.func, cur, func):
                        if isinstance(f, tuple) and f[0] in ('bound', 'func') and f[1].is_contextmanager:
                            target = f
                            cur = s2
                if target is None:
                    # an object with __enter__ / __exit__ (a class of the repository): enter now, exit after the body
                    vals = self.ev(ce, cur, func)
                    if len(vals) == 1 and isinstance(vals[0][1], New):
                        cur, obj = vals[0]
                        en = self.repo.lookup_method(obj.cls, '__enter__')
                        ex = self.repo.lookup_method(obj.cls, '__exit__')
                        if en is not None and ex is not None:
                            self.depth += 1
                            try:
                                res = self.run(en, [obj], cur, with_self=True)
                            finally:
                                self.depth -= 1
                            for c2, yv in res:
                                if item.optional_vars is not None:
                                    self.assign(item.optional_vars, yv if yv is not None else Const(None), c2, func)
                                nxt.append((c2, exits + [('object', obj, ex)]))
                            continue
                    raise AnalysisError('symex: unsupported context manager %s at %s line %d' % (norm(ce), _where(func), s.lineno))
                m = target[1]
                body = m.node.body
                idx = [i for i, b in enumerate(body) if isinstance(b, ast.Expr) and isinstance(b.value, ast.Yield)]
                if len(idx) != 1:
                    raise AnalysisError('symex: context manager %s is not "enter; yield; exit"' % m.qname)
                args = [self.ev(a, cur, func)[0][1] for a in ce.args]
                env = {}
                ps = m.params
                vals = ([target[2]] if target[0] == 'bound' else []) + args
                for p, a in zip(ps, vals):
                    env[p] = a
                cur.stack.append(cur.env)
                cur.env = env
                res = self.block(body[:idx[0]], cur, m)
                for c2, rv in res:
                    yv = Const(None)
                    yexpr = body[idx[0]].value.value
                    if yexpr is not None:
                        yv = self.ev(yexpr, c2, m)[0][1]
                    menv = c2.env
                    c2.env = c2.stack.pop()
                    if item.optional_vars is not None:
                        self.assign(item.optional_vars, yv, c2, func)
                    nxt.append((c2, exits + [(m, body[idx[0] + 1:], menv)]))
            states = nxt
        out = []
        for cur, exits in states:
            for c2, rv in self.block(s.body, cur, func):
                cs = [(c2, rv)]
                for m, tail, menv in reversed(exits):
                    n2 = []
                    if m == 'object':
                        # __exit__(None, None, None) on the normal path
                        for c3, rv3 in cs:
                            self.depth += 1
                            try:
                                for c4, _ in self.run(menv, [tail, Const(None), Const(None), Const(None)], c3, with_self=True):
                                    n2.append((c4, rv3))
                            finally:
                                self.depth -= 1
                        cs = n2
                        continue
                    for c3, rv3 in cs:
                        c3.stack.append(c3.env)
                        c3.env = menv
                        for c4, rv4 in self.block(tail, c3, m):
                            c4.env = c4.stack.pop()
                            n2.append((c4, rv3))
                    cs = n2
                out.extend(cs)
        return out

    def assign(self, t, v, st, func):
        if isinstance(t, ast.Name):
            st.env[t.id] = v
        elif isinstance(t, ast.Attribute):
            base = self.ev(t.value, st, func)[0][1]
            if isinstance(base, SelfV):
                st.fields[t.attr] = v
            elif isinstance(base, New):
                if base.fields is None:
                    # not constructed yet (objects are built on first use): run the constructor before the store
                    init = self.repo.lookup_method(base.cls, '__init__')
                    if init is not None:
                        self._construct(base, init)
                    else:
                        base.fields = {}
                base.fields[t.attr] = v
            st.effects.append('%s = %r' % (norm(t), v))
        elif isinstance(t, (ast.Tuple, ast.List)):
            seq = self.as_sequence(v)
            if seq is None or len(seq) != len(t.elts):
                raise AnalysisError('symex: cannot unpack %r into %s at %s' % (v, norm(t), _where(func)))
            for x, y in zip(t.elts, seq):
                self.assign(x, y, st, func)
        elif isinstance(t, ast.Subscript):
            base = self.ev(t.value, st, func)[0][1]
            idx = self.ev(t.slice, st, func)[0][1]
            if isinstance(base, DictV):
                for p in base.pairs:
                    if values_equal(p[0], idx) is True:
                        p[1] = v
                        return
                base.pairs.append([idx, v])
            elif isinstance(base, ListV) and isinstance(idx, Const) and isinstance(idx.v, int) and -len(base.items) <= idx.v < len(base.items):
                base.items[idx.v] = v
            else:
                st.effects.append('%s = %r' % (norm(t), v))
        else:
            raise AnalysisError('symex: unsupported assignment target %s at %s' % (norm(t), _where(func)))

    def as_sequence(self, v):
        if isinstance(v, ListV):
            return list(v.items)
        if isinstance(v, DictV):
            return [k for k, _ in v.pairs]
        if isinstance(v, Const) and isinstance(v.v, str):
            return [Const(c) for c in v.v]
        if isinstance(v, Const) and isinstance(v.v, (tuple, list)):
            return [Const(c) for c in v.v]
        return None

    # -- conditions -----------------------------------------------------------------------
    def cond(self, test, st, func):
        """-> list of (bool, state)"""
        if isinstance(test, ast.BoolOp):
            if isinstance(test.op, ast.And):
                out = []
                states = [st]
                for v in test.values:
                    nxt = []
                    for s in states:
                        for br, s2 in self.cond(v, s, func):
                            if br:
                                nxt.append(s2)
                            else:
                                out.append((False, s2))
                    states = nxt
                out.extend((True, s) for s in states)
                return out
            out = []
            states = [st]
            for v in test.values:
                nxt = []
                for s in states:
                    for br, s2 in self.cond(v, s, func):
                        if br:
                            out.append((True, s2))
                        else:
                            nxt.append(s2)
                states = nxt
            out.extend((False, s) for s in states)
            return out
        if isinstance(test, ast.UnaryOp) and isinstance(test.op, ast.Not):
            return [(not br, s) for br, s in self.cond(test.operand, st, func)]
        if isinstance(test, ast.Call) and is_name(test.func, 'isinstance') and len(test.args) == 2:
            out = []
            for s1, cv in self.ev(test.args[1], st, func):
                if isinstance(cv, Opaque) and cv.text == 'object':
                    out.extend((True, s2) for s2, _ in self.ev(test.args[0], s1, func))     # everything is an object
                    continue
                names = self._class_names(cv)
                if names is None:
                    names = [x.id for x in ast.walk(test.args[1]) if isinstance(x, ast.Name)]
                for s2, v in self.ev(test.args[0], s1, func):
                    t, f = self.split_isinstance(s2, v, names)
                    if t is not None:
                        out.append((True, t))
                    if f is not None:
                        out.append((False, f))
            return out
        if isinstance(test, ast.Compare) and len(test.ops) == 1:
            out = []
            op = test.ops[0]
            for s2, l in self.ev(test.left, st, func):
                for s3, r in self.ev(test.comparators[0], s2, func):
                    out.extend(self.compare(op, l, r, s3, test))
            return out
        out = []
        for s2, v in self.ev(test, st, func):
            out.extend(self.truthy(v, s2, test))
        return out

    def _class_names(self, v):
        if isinstance(v, tuple) and v and v[0] == 'class':
            return [v[1].name]
        if isinstance(v, ListV) and v.items and all(isinstance(x, tuple) and x and x[0] == 'class' for x in v.items):
            return [x[1].name for x in v.items]
        return None

    def compare(self, op, l, r, st, test):
        eq = isinstance(op, (ast.Eq, ast.Is))
        ne = isinstance(op, (ast.NotEq, ast.IsNot))
        if isinstance(op, (ast.In, ast.NotIn)):
            seq = self.as_sequence(r)
            if isinstance(l, Const) and isinstance(r, Const) and isinstance(l.v, str) and isinstance(r.v, str):
                res = l.v in r.v
                return [(res if isinstance(op, ast.In) else not res, st)]
            if seq is not None:
                found = False
                unknown = False
                for x in seq:
                    e_ = values_equal(l, x)
                    if e_ is True:
                        found = True
                        break
                    if e_ is None:
                        unknown = True
                if found or not unknown:
                    return [(found if isinstance(op, ast.In) else not found, st)]
            t, f = st.copy(), st.copy()
            t.truth.append((norm(test), True))
            f.truth.append((norm(test), False))
            return [(True, t), (False, f)]
        if not (eq or ne):
            if isinstance(l, Const) and isinstance(r, Const):
                try:
                    res = {ast.Lt: l.v < r.v, ast.Gt: l.v > r.v, ast.LtE: l.v <= r.v, ast.GtE: l.v >= r.v}[type(op)]
                    return [(res, st)]
                except (TypeError, KeyError):
                    pass
            t, f = st.copy(), st.copy()
            t.truth.append((norm(test), True))
            f.truth.append((norm(test), False))
            return [(True, t), (False, f)]
        d = values_equal(l, r)
        if d is not None:
            return [(d if eq else not d, st)]
        if isinstance(l, ListV) and isinstance(r, ListV):
            if not l.items and not r.items:
                return [(eq, st)]
            if bool(l.items) != bool(r.items):
                return [(ne, st)]
        if isinstance(l, (New, Fresh, ListV, DictV)) and isinstance(r, Const):
            return [(ne, st)]
        if isinstance(r, (New, Fresh, ListV, DictV)) and isinstance(l, Const):
            return [(ne, st)]
        sym, other = (l, r) if not isinstance(l, Const) else (r, l)
        key = repr(sym)
        val = other.v if isinstance(other, Const) else repr(other)
        for k, o, v in st.eqs:
            if k == key and v == val:
                return [((o == '==') == eq, st)]
            if k == key and o == '==' and v != val and isinstance(other, Const):
                return [(ne, st)]
        t, f = st.copy(), st.copy()
        t.eqs.append((key, '==' if eq else '!=', val))
        f.eqs.append((key, '!=' if eq else '==', val))
        return [(True, t), (False, f)]

    def truthy(self, v, st, test):
        if isinstance(v, Const):
            return [(bool(v.v), st)]
        if isinstance(v, ListV):
            return [(bool(v.items), st)]
        if isinstance(v, DictV):
            return [(bool(v.pairs), st)]
        if isinstance(v, (New, Fresh, SelfV)):
            return [(True, st)]
        if isinstance(v, tuple) and v and v[0] in ('class', 'func', 'bound'):
            return [(True, st)]
        key = repr(v)
        for k, t in st.truth:
            if k == key:
                return [(t, st)]
        t, f = st.copy(), st.copy()
        t.truth.append((key, True))
        f.truth.append((key, False))
        return [(True, t), (False, f)]

    # -- expressions ----------------------------------------------------------------------
    def module_const(self, mod, name, node):
        key = (mod.name, name)
        if key in self._consts:
            return self._consts[key]
        self._consts[key] = Opaque(name)        # guard against recursive definitions
        try:
            res = self.ev(node, PathState(), mod)
            val = res[0][1] if len(res) == 1 else Opaque(name)
        except AnalysisError:
            val = Opaque(name)
        self._consts[key] = val
        return val

    def ev(self, e, st, func):
        """-> list of (state, value).  An exception raised while a part of the expression is evaluated is the value of the
        whole expression (the statement that contains it is then abandoned)."""
        if isinstance(e, (ast.Call, ast.ListComp, ast.GeneratorExp, ast.List, ast.Tuple, ast.BinOp, ast.JoinedStr, ast.BoolOp,
                          ast.IfExp, ast.Subscript, ast.Attribute, ast.Starred, ast.Dict, ast.SetComp, ast.DictComp)):
            outs = self._ev(e, st, func)
            for i, (s2, v) in enumerate(outs):
                r = _raised_inside(v)
                if r is not None and r is not v:
                    outs[i] = (s2, r)
            return outs
        return self._ev(e, st, func)

    def _ev(self, e, st, func):
        if e is None:
            return [(st, Const(None))]
        if isinstance(e, ast.Constant):
            return [(st, Const(e.value))]
        if isinstance(e, ast.Name):
            if e.id in st.env:
                return [(st, st.env[e.id])]
            if getattr(func, 'parent', None) is not None:
                # a free variable of a nested function: the frame of the enclosing function is further down the stack
                owner = func.parent
                while owner is not None and e.id not in local_names(owner):
                    owner = getattr(owner, 'parent', None)
                if owner is not None:
                    for fr in reversed(st.stack):
                        if e.id in fr:
                            return [(st, fr[e.id])]
            r = self.repo.resolve_name(func, e.id)
            if r and r[0] == 'class':
                return [(st, ('class', r[1]))]
            if r and r[0] in ('func', 'nested'):
                return [(st, ('func', r[1]))]
            if r and r[0] == 'var':
                if isinstance(r[2], ast.Constant):
                    return [(st, Const(r[2].value))]
                if isinstance(r[2], (ast.Tuple, ast.List, ast.Dict, ast.Set, ast.Name, ast.BinOp, ast.JoinedStr, ast.Call)):
                    return [(st, _deep(self.module_const(r[1], e.id, r[2]), {}))]
            if e.id in ('True', 'False', 'None'):
                return [(st, Const({'True': True, 'False': False, 'None': None}[e.id]))]
            return [(st, Opaque(e.id))]
        if isinstance(e, ast.Attribute):
            out = []
            for s2, b in self.ev(e.value, st, func):
                v = self.attr(b, e.attr, s2, func, e)
                if isinstance(v, tuple) and v and v[0] == 'bound' and v[1].is_property and self.depth < self.max_depth:
                    self.depth += 1
                    try:
                        out.extend(self.run(v[1], [v[2]], s2, with_self=True))
                    finally:
                        self.depth -= 1
                else:
                    out.append((s2, v))
            return out
        if isinstance(e, (ast.List, ast.Tuple, ast.Set)):
            states = [(st, [])]
            for x in e.elts:
                nxt = []
                for s2, items in states:
                    for s3, v in self.ev(x.value if isinstance(x, ast.Starred) else x, s2, func):
                        if isinstance(x, ast.Starred) and isinstance(v, ListV):
                            nxt.append((s3, items + v.items))
                        else:
                            nxt.append((s3, items + [v]))
                states = nxt
            return [(s2, ListV(items, isinstance(e, ast.Tuple))) for s2, items in states]
        if isinstance(e, ast.Dict):
            states = [(st, [])]
            for k, x in zip(e.keys, e.values):
                nxt = []
                for s2, pairs in states:
                    if k is None:
                        for s3, v in self.ev(x, s2, func):
                            nxt.append((s3, pairs + (v.pairs if isinstance(v, DictV) else [])))
                        continue
                    for s3, kv in self.ev(k, s2, func):
                        for s4, v in self.ev(x, s3, func):
                            nxt.append((s4, pairs + [[kv, v]]))
                states = nxt
            return [(s2, DictV(pairs)) for s2, pairs in states]
        if isinstance(e, ast.BinOp):
            out = []
            for s2, l in self.ev(e.left, st, func):
                for s3, r in self.ev(e.right, s2, func):
                    out.append((s3, self.binop(e, l, r)))
            return out
        if isinstance(e, ast.Call) and is_name(e.func, 'isinstance') and len(e.args) == 2:
            return [(s2, Const(br)) for br, s2 in self.cond(e, st, func)]
        if isinstance(e, ast.Call):
            return self.call(e, st, func)
        if isinstance(e, ast.JoinedStr):
            states = [(st, [])]
            for v in e.values:
                nxt = []
                for s2, parts in states:
                    if isinstance(v, ast.Constant):
                        nxt.append((s2, parts + [Const(v.value)]))
                    else:
                        for s3, x in self.ev(v.value, s2, func):
                            if isinstance(x, New) and v.conversion in (-1, 115):
                                # {obj} / {obj!s}: the text its __str__ gives
                                r = self.builtin('str', [x], {}, s3, v.value)
                                if r is not None and len(r) == 1 and isinstance(r[0][1], Const):
                                    s3, x = r[0]
                            nxt.append((s3, parts + [x]))
                states = nxt
            out = []
            for s2, parts in states:
                if all(isinstance(p, Const) and isinstance(p.v, (str, int)) and not isinstance(p.v, bool) for p in parts):
                    out.append((s2, Const(''.join(str(p.v) for p in parts))))
                elif all(isinstance(p, (Const, Fresh)) for p in parts) and len([p for p in parts if isinstance(p, Fresh)]) == 1:
                    out.append((s2, [p for p in parts if isinstance(p, Fresh)][0]))
                else:
                    out.append((s2, Opaque('fstring')))
            return out
        if isinstance(e, ast.Subscript):
            return self.subscript(e, st, func)
        if isinstance(e, ast.UnaryOp) and not isinstance(e.op, ast.Not):
            out = []
            for s2, v in self.ev(e.operand, st, func):
                if isinstance(v, Const) and isinstance(v.v, (int, float)) and isinstance(e.op, ast.USub):
                    out.append((s2, Const(-v.v)))
                else:
                    out.append((s2, CallV(type(e.op).__name__, [v])))
            return out
        if isinstance(e, ast.BoolOp):
            # value semantics of  a or b / a and b
            out = []
            first = self.ev(e.values[0], st, func)
            rest = e.values[1] if len(e.values) == 2 else ast.BoolOp(op=e.op, values=e.values[1:])
            for s2, a in first:
                if isinstance(a, CallV) and _raised(a):
                    out.append((s2, a))
                    continue
                for br, s3 in self.truthy(a, s2, e.values[0]):
                    if br == isinstance(e.op, ast.Or):
                        out.append((s3, a))
                    else:
                        out.extend(self.ev(rest, s3, func))
            return out
        if isinstance(e, (ast.Compare, ast.UnaryOp)):
            out = []
            for br, s2 in self.cond(e, st, func):
                out.append((s2, Const(br)))
            return out
        if isinstance(e, ast.IfExp):
            out = []
            for br, s2 in self.cond(e.test, st, func):
                out.extend(self.ev(e.body if br else e.orelse, s2, func))
            return out
        if isinstance(e, (ast.ListComp, ast.GeneratorExp, ast.SetComp)) and len(e.generators) == 1:
            return self.comprehension(e, st, func)
        if isinstance(e, (ast.ListComp, ast.GeneratorExp)) and len(e.generators) == 2:
            # [E for a in A for b in B]  is the concatenation of  [[E for b in B] for a in A]
            inner = ast.ListComp(elt=e.elt, generators=[e.generators[1]])
            outer = ast.ListComp(elt=inner, generators=[e.generators[0]])
            for x in (inner, outer):
                ast.copy_location(x, e)
            out = []
            for s2, v in self.comprehension(outer, st, func):
                seq = self.as_sequence(v)
                if seq is not None and all(self.as_sequence(x) is not None for x in seq):
                    flat = []
                    for x in seq:
                        flat.extend(self.as_sequence(x))
                    out.append((s2, ListV(flat)))
                else:
                    out.append((s2, CallV('flatten', [v])))
            return out
        if isinstance(e, ast.Lambda):
            return [(st, ('lambda', e, func, dict(st.env)))]          # a closure over the defining frame
        if isinstance(e, ast.Starred):
            return self.ev(e.value, st, func)
        if isinstance(e, ast.Slice):
            return [(st, Opaque('slice'))]
        if isinstance(e, ast.FormattedValue):
            return self.ev(e.value, st, func)
        raise AnalysisError('symex: unsupported expression %s at %s line %d' % (type(e).__name__, _where(func), getattr(e, 'lineno', 0)))

    def binop(self, e, l, r):
        op = e.op
        if isinstance(op, ast.Add):
            if isinstance(l, ListV) and isinstance(r, ListV):
                return ListV(l.items + r.items, l.tuple_)
            if isinstance(l, Const) and isinstance(r, Const):
                try:
                    return Const(l.v + r.v)
                except TypeError:
                    return Opaque(norm(e))
            if isinstance(l, Const) and isinstance(l.v, str) and isinstance(r, Fresh):
                return r
            return CatV([l, r])
        if isinstance(l, Const) and isinstance(r, Const) and not isinstance(l.v, bool):
            try:
                if isinstance(op, ast.Sub):
                    return Const(l.v - r.v)
                if isinstance(op, ast.Mult):
                    return Const(l.v * r.v)
                if isinstance(op, ast.FloorDiv):
                    return Const(l.v // r.v)
                if isinstance(op, ast.Mod) and isinstance(l.v, int):
                    return Const(l.v % r.v)
                if isinstance(op, ast.Mod) and isinstance(l.v, str):
                    return Const(l.v % r.v)
            except Exception:
                pass
        if isinstance(op, ast.Mod) and isinstance(l, Const) and isinstance(l.v, str) and isinstance(r, ListV) and \
                all(isinstance(x, Const) for x in r.items):
            try:
                return Const(l.v % tuple(x.v for x in r.items))
            except Exception:
                pass
        if isinstance(op, ast.Mult) and isinstance(l, ListV) and isinstance(r, Const) and isinstance(r.v, int):
            return ListV(l.items * r.v)
        if isinstance(op, (ast.BitOr, ast.BitAnd, ast.Sub, ast.BitXor)) and isinstance(l, ListV) and isinstance(r, ListV):
            # set algebra (sets are kept as lists without duplicates); only when every membership is decided
            def member(x, seq):
                res = [values_equal(x, y) for y in seq]
                if any(q is True for q in res):
                    return True
                return None if any(q is None for q in res) else False
            ml = [member(x, r.items) for x in l.items]
            mr = [member(y, l.items) for y in r.items]
            if all(m is not None for m in ml + mr):
                if isinstance(op, ast.BitOr):
                    return ListV(l.items + [y for y, m in zip(r.items, mr) if not m])
                if isinstance(op, ast.BitAnd):
                    return ListV([x for x, m in zip(l.items, ml) if m])
                if isinstance(op, ast.Sub):
                    return ListV([x for x, m in zip(l.items, ml) if not m])
                return ListV([x for x, m in zip(l.items, ml) if not m] + [y for y, m in zip(r.items, mr) if not m])
        return CallV(type(op).__name__, [l, r])

    def subscript(self, e, st, func):
        out = []
        for s2, b in self.ev(e.value, st, func):
            if isinstance(e.slice, ast.Slice):
                lo = self.ev(e.slice.lower, s2, func)[0][1] if e.slice.lower is not None else Const(None)
                hi = self.ev(e.slice.upper, s2, func)[0][1] if e.slice.upper is not None else Const(None)
                stp = self.ev(e.slice.step, s2, func)[0][1] if e.slice.step is not None else Const(None)
                if isinstance(b, ListV) and all(isinstance(x, Const) for x in (lo, hi, stp)):
                    out.append((s2, ListV(b.items[lo.v:hi.v:stp.v], b.tuple_)))
                elif isinstance(b, Const) and isinstance(b.v, str) and all(isinstance(x, Const) for x in (lo, hi, stp)):
                    out.append((s2, Const(b.v[lo.v:hi.v:stp.v])))
                else:
                    out.append((s2, CallV('slice', [b, lo, hi])))
                continue
            for s3, i in self.ev(e.slice, s2, func):
                if isinstance(b, tuple) and b and b[0] == 'globals' and isinstance(i, Const) and isinstance(i.v, str) and i.v.isidentifier():
                    # globals()['name'] is the module-level name
                    nm = ast.copy_location(ast.Name(id=i.v, ctx=ast.Load()), e)
                    saved = s3.env
                    s3.env = {}
                    res = self.ev(nm, s3, b[1])
                    for s4, _ in res:
                        s4.env = saved
                    out.extend(res)
                elif isinstance(b, ListV) and isinstance(i, Const) and isinstance(i.v, int) and -len(b.items) <= i.v < len(b.items):
                    out.append((s3, b.items[i.v]))
                elif isinstance(b, DictV):
                    hit = None
                    undecided = []
                    for k, v in b.pairs:
                        q = values_equal(k, i)
                        if q is True:
                            hit = v
                            break
                        if q is None:
                            undecided.append((k, v))
                    if hit is not None:
                        out.append((s3, hit))
                    elif not undecided and b.missing is not None:
                        if isinstance(b.missing, tuple):
                            new = {'list': ListV([]), 'set': ListV([]), 'dict': DictV(), 'int': Const(0)}[b.missing[1]]
                            b.pairs.append([i, new])
                            out.append((s3, new))
                        else:
                            out.append((s3, b.missing))
                    elif undecided and all(isinstance(k, Const) for k, _ in b.pairs):
                        # a constant table indexed by a symbolic key: one path per key
                        for k, v in b.pairs:
                            for br, s4 in self.compare(ast.Eq(), i, k, s3, e):
                                if br:
                                    out.append((s4, v))
                    else:
                        out.append((s3, CallV('raise', [Opaque('KeyError' if not undecided else 'KeyError?')])))
                elif isinstance(b, Const) and isinstance(b.v, str) and isinstance(i, Const) and isinstance(i.v, int):
                    try:
                        out.append((s3, Const(b.v[i.v])))
                    except IndexError:
                        out.append((s3, CallV('raise', [Opaque('IndexError')])))
                elif isinstance(b, Sym):
                    out.append((s3, Sym('%s[%s]' % (b.path, i.v if isinstance(i, Const) else repr(i)))))
                else:
                    out.append((s3, CallV('getitem', [b, i])))
        return out

    def comprehension(self, e, st, func):
        g = e.generators[0]
        out = []
        for s2, it in self.ev(g.iter, st, func):
            seq = self.as_sequence(it)
            if seq is not None:
                states = [(s2, [])]
                for item in seq:
                    nxt = []
                    for s3, items in states:
                        self.assign(g.target, item, s3, func)
                        conds = [(True, s3)]
                        for c in g.ifs:
                            n2 = []
                            for ok, s4 in conds:
                                if not ok:
                                    n2.append((False, s4))
                                    continue
                                n2.extend(self.cond(c, s4, func))
                            conds = n2
                        for ok, s4 in conds:
                            if not ok:
                                nxt.append((s4, items))
                                continue
                            for s5, v in self.ev(e.elt, s4, func):
                                nxt.append((s5, items + [v]))
                    states = nxt
                out.extend((s3, ListV(items)) for s3, items in states)
            else:
                s3 = s2.copy()
                var = Sym('elem(%r)' % (it,))
                self.assign(g.target, var, s3, func)
                res = self.ev(e.elt, s3, func)
                out.append((s2, CallV('map', [res[0][1] if res else Opaque('?'), it])))
        return out

    def attr(self, b, name, st, func, node):
        if isinstance(b, Sym):
            return Sym('%s.%s' % (b.path, name))
        if isinstance(b, New):
            if b.fields and name in b.fields:
                return b.fields[name]
            v = self.new_field(b, name)
            if v is not None:
                return v
            m = self.repo.lookup_method(b.cls, name)
            if m is not None:
                return ('bound', m, b)
            for c in self.repo.mro(b.cls):
                if name in c.class_attrs:
                    v = c.class_attrs[name]
                    if isinstance(v, ast.Constant):
                        return Const(v.value)
                    if isinstance(v, (ast.Tuple, ast.List, ast.Dict, ast.Set)):
                        return _deep(self.module_const(c.module, '%s.%s' % (c.name, name), v), {})
                    break
            return CallV('attr:' + name, [b])
        if isinstance(b, SelfV):
            if name in st.fields:
                return st.fields[name]
            m = self.repo.lookup_method(b.cls, name)
            if m is not None:
                return ('bound', m, b)
            for c in self.repo.mro(b.cls):
                if name in c.class_attrs and isinstance(c.class_attrs[name], ast.Constant):
                    return Const(c.class_attrs[name].value)
            return Sym('self.%s' % name)
        if isinstance(b, tuple) and b[0] == 'class':
            m = self.repo.lookup_method(b[1], name)
            if m is not None:
                if 'classmethod' in m.decorators:
                    return ('bound', m, b)          # the class itself is the first argument
                return ('func', m)
            if name == '__name__':
                return Const(b[1].name)
        if isinstance(b, (ListV, DictV, Const)):
            return ('method', b, name)
        if isinstance(b, tuple) and b and b[0] == 'regex' and name in ('fullmatch', 'match', 'search'):
            return ('regexmethod', b[1], name)
        if isinstance(b, Opaque) and b.text in ('itertools', 'functools', 'dict', 'collections', 're', 'operator'):
            return Opaque('%s.%s' % (b.text, name))
        if isinstance(b, Opaque) and b.text == 'itertools.chain' and name == 'from_iterable':
            return Opaque('itertools.chain.from_iterable')
        return CallV('attr:' + name, [b])

    def new_field(self, obj, attr):
        init = self.repo.lookup_method(obj.cls, '__init__')
        if init is None:
            return None
        params = init.params[1:]
        for n in own_nodes(init.node):
            if isinstance(n, ast.Assign) and any(is_self_attr(t, attr) for t in n.targets):
                if isinstance(n.value, ast.Name) and n.value.id in params and not any(
                        isinstance(x, ast.Name) and x.id == n.value.id and isinstance(x.ctx, ast.Store) for x in own_nodes(init.node)):
                    i = params.index(n.value.id)
                    if i < len(obj.args):
                        return obj.args[i]
                    if n.value.id in obj.kwargs:
                        return obj.kwargs[n.value.id]
                    a = init.node.args
                    k = i - (len(params) - len(a.defaults))
                    if k >= 0:
                        d = a.defaults[k]
                        if isinstance(d, ast.Constant):
                            return Const(d.value)
                        if isinstance(d, ast.List) and not d.elts:
                            return ListV([])
                    return None
                if isinstance(n.value, ast.Constant):
                    return Const(n.value.value)
                # a field computed in the constructor (e.g. a name built from a counter): evaluate the constructor
                return self._construct(obj, init).get(attr)
        return None

    def _construct(self, obj, init):
        if obj.fields is None:
            obj.fields = {}
            if self.depth < self.max_depth:
                self.depth += 1
                try:
                    self.run(init, [obj] + obj.args, PathState(), with_self=True, kwargs=obj.kwargs)
                except AnalysisError:
                    pass
                finally:
                    self.depth -= 1
        return obj.fields

    # -- calls ----------------------------------------------------------------------------
    def call(self, e, st, func):
        # functools.reduce(lambda acc, el: ..., <list of known length>, init): unrolled
        if norm(e.func) in ('functools.reduce', 'reduce') and len(e.args) >= 2 and isinstance(e.args[0], ast.Lambda):
            lam = e.args[0]
            ps = [a.arg for a in lam.args.args]
            outs = []
            for s2, seq in self.ev(e.args[1], st, func):
                inits = self.ev(e.args[2], s2, func) if len(e.args) > 2 else [(s2, None)]
                for s3, init in inits:
                    items = self.as_sequence(seq)
                    if items is None or len(ps) != 2:
                        outs.append((s3, CallV('reduce', [Opaque('lambda'), seq, init])))
                        continue
                    acc = init
                    if acc is None:
                        if not items:
                            outs.append((s3, CallV('raise', [Opaque('reduce of empty sequence')])))
                            continue
                        acc, items = items[0], items[1:]
                    cur = s3
                    for it in items:
                        saved = dict(cur.env)
                        cur.env[ps[0]] = acc
                        cur.env[ps[1]] = it
                        res = self.ev(lam.body, cur, func)
                        cur, acc = res[0]
                        cur.env = saved
                    outs.append((cur, acc))
            return outs
        if isinstance(e.func, ast.Call) and is_name(e.func.func, 'getattr') and len(e.func.args) == 2 and not e.func.keywords:
            # getattr(x, <name known here>)(..) is x.<name>(..)
            nm = self.ev(e.func.args[1], st, func)
            if len(nm) == 1 and isinstance(nm[0][1], Const) and isinstance(nm[0][1].v, str) and nm[0][1].v.isidentifier():
                e2 = ast.Call(func=ast.Attribute(value=e.func.args[0], attr=nm[0][1].v, ctx=ast.Load()), args=e.args, keywords=e.keywords)
                ast.copy_location(e2, e)
                ast.copy_location(e2.func, e)
                return self.call(e2, nm[0][0], func)
        outs = []
        for s2, f in self.ev(e.func, st, func):
            states = [(s2, [])]
            for a in e.args:
                nxt = []
                for s3, args in states:
                    for s4, v in self.ev(a.value if isinstance(a, ast.Starred) else a, s3, func):
                        if isinstance(a, ast.Starred) and self.as_sequence(v) is not None:
                            nxt.append((s4, args + self.as_sequence(v)))
                        else:
                            nxt.append((s4, args + [v]))
                states = nxt
            for s3, args in states:
                kw = {}
                for k in e.keywords:
                    res = self.ev(k.value, s3, func)
                    if k.arg is not None:
                        kw[k.arg] = res[0][1]
                    elif isinstance(res[0][1], DictV):
                        for kk, vv in res[0][1].pairs:
                            if isinstance(kk, Const):
                                kw[kk.v] = vv
                bad = [a for a in args + list(kw.values()) if isinstance(a, CallV) and _raised(a)]
                if bad:
                    outs.append((s3, bad[0]))       # an argument raised: the call does not happen
                    continue
                outs.extend(self.apply(e, f, args, kw, s3, func))
        return outs

    def _inline(self, m, args, kw, st, with_self):
        self.depth += 1
        try:
            return self.run(m, args, st, with_self=with_self, kwargs=kw)
        finally:
            self.depth -= 1

    def apply(self, e, f, args, kw, st, func):
        if isinstance(f, tuple) and f[0] == 'class':
            return [(st, New(f[1], args, kw))]
        if isinstance(f, tuple) and f[0] == 'bound':
            m, recv = f[1], f[2]
            if self.opaque(m.name):
                return [(st, CallV(m.name, args, recv=None if isinstance(recv, SelfV) else recv, node=e))]
            if self.inline(m) and self.depth < self.max_depth and not m.is_contextmanager:
                return self._inline(m, [recv] + args, kw, st, True)
            if m.is_generator:
                return [(st, CallV('gen:' + m.qname, args, recv=recv, node=e))]
            return [(st, CallV(m.name, args, recv=None if isinstance(recv, SelfV) else recv, node=e))]
        if isinstance(f, tuple) and f[0] == 'func':
            m = f[1]
            if self.opaque(m.name):
                return [(st, CallV(m.name, args, node=e))]
            if self.inline(m) and self.depth < self.max_depth and not m.is_contextmanager:
                return self._inline(m, args, kw, st, False)
            if m.is_generator:
                return [(st, CallV('gen:' + m.qname, args, node=e))]
            return [(st, CallV(m.name, args, node=e))]
        if isinstance(f, tuple) and f[0] == 'lambda':
            lam, lf = f[1], f[2]
            st.stack.append(st.env)
            st.env = dict(f[3]) if len(f) > 3 else dict(st.env)
            for p, a in zip([x.arg for x in lam.args.args], args):
                st.env[p] = a
            res = self.ev(lam.body, st, lf)
            for s2, _ in res:
                s2.env = s2.stack.pop()
            return res
        if isinstance(f, tuple) and f[0] == 'method':
            return self.method(e, f[1], f[2], args, kw, st, func)
        if isinstance(f, tuple) and f[0] == 'regexmethod':
            pass
        if isinstance(f, Opaque) and f.text in ('operator.attrgetter', 'attrgetter') and len(args) == 1 and not kw and \
                isinstance(args[0], Const) and isinstance(args[0].v, str) and '.' not in args[0].v:
            return [(st, ('attrgetter', args[0].v))]
        if isinstance(f, Opaque) and f.text in ('operator.itemgetter', 'itemgetter') and len(args) == 1 and not kw and isinstance(args[0], Const):
            return [(st, ('itemgetter', args[0]))]
        if isinstance(f, tuple) and f and f[0] == 'attrgetter' and len(args) == 1 and not kw:
            v = self.attr(args[0], f[1], st, func, e)
            if isinstance(v, tuple) and v and v[0] == 'bound' and v[1].is_property and self.depth < self.max_depth:
                return self._inline(v[1], [v[2]], {}, st, True)
            return [(st, v)]
        if isinstance(f, tuple) and f and f[0] == 'itemgetter' and len(args) == 1 and not kw:
            sub = ast.Subscript(value=ast.Name(id='_ig_seq', ctx=ast.Load()), slice=ast.Name(id='_ig_key', ctx=ast.Load()), ctx=ast.Load())
            ast.copy_location(sub, e)
            ast.fix_missing_locations(sub)
            st.stack.append(st.env)
            st.env = {'_ig_seq': args[0], '_ig_key': f[1]}
            res = self.ev(sub, st, func)
            for s2, _ in res:
                s2.env = s2.stack.pop()
            return res
        if isinstance(f, Opaque) and f.text in ('functools.partial', 'partial') and args:
            return [(st, ('partial', args[0], list(args[1:]), dict(kw)))]
        if isinstance(f, tuple) and f and f[0] == 'partial':
            return self.apply(e, f[1], list(f[2]) + list(args), dict(f[3], **kw), st, func)
        if isinstance(f, Opaque) and f.text in ('operator.add', 'operator.concat', 'operator.iadd') and len(args) == 2 and not kw:
            b = ast.BinOp(left=ast.Name(id='_op_l', ctx=ast.Load()), op=ast.Add(), right=ast.Name(id='_op_r', ctx=ast.Load()))
            ast.copy_location(b, e)
            ast.fix_missing_locations(b)
            st.stack.append(st.env)
            st.env = {'_op_l': args[0], '_op_r': args[1]}
            res = self.ev(b, st, func)
            for s2, _ in res:
                s2.env = s2.stack.pop()
            return res
        if isinstance(f, Opaque) and f.text in _BUILTIN_CALLABLES and not (isinstance(e.func, ast.Name) and e.func.id == f.text):
            r = self.builtin(f.text, args, kw, st, e)
            if r is not None:
                return r
        if isinstance(f, Opaque) and f.text in ('itertools.starmap', 'starmap') and len(args) == 2 and not kw:
            rows = self.as_sequence(args[1])
            if rows is None and isinstance(args[1], DictV):
                rows = None
            if rows is not None and all(self.as_sequence(r) is not None for r in rows):
                cur = st
                out = []
                for r in rows:
                    res = self.apply(e, args[0], list(self.as_sequence(r)), {}, cur, func)
                    if len(res) != 1:
                        return [(st, CallV('starmap', args, node=e))]
                    cur, v = res[0]
                    if isinstance(v, CallV) and _raised(v):
                        return [(cur, v)]
                    out.append(v)
                return [(cur, ListV(out))]
            return [(st, CallV('starmap', args, node=e))]
        if isinstance(f, Opaque) and f.text == 'itertools.chain.from_iterable' and args:
            seq = self.as_sequence(args[0])
            if seq is not None and all(self.as_sequence(x) is not None for x in seq):
                flat = []
                for x in seq:
                    flat.extend(self.as_sequence(x))
                return [(st, ListV(flat))]
            return [(st, CallV('chain.from_iterable', args, node=e))]
        if isinstance(f, Opaque) and f.text in ('re.fullmatch', 're.match', 're.search') and len(args) >= 2 and \
                isinstance(args[0], Const) and isinstance(args[1], Const) and isinstance(args[0].v, str) and isinstance(args[1].v, str):
            import re as _re
            try:
                m = getattr(_re, f.text[3:])(args[0].v, args[1].v)
            except _re.error:
                return [(st, CallV('raise', [Opaque('re.error')]))]
            return [(st, Const(True) if m else Const(None))]
        if isinstance(f, Opaque) and f.text == 'itertools.chain' and all(self.as_sequence(a) is not None for a in args):
            flat = []
            for a in args:
                flat.extend(self.as_sequence(a))
            return [(st, ListV(flat))]
        if isinstance(f, Opaque) and f.text == 're.compile' and args and isinstance(args[0], Const) and isinstance(args[0].v, str):
            return [(st, ('regex', args[0].v))]
        if isinstance(f, tuple) and f and f[0] == 'regexmethod' and args and isinstance(args[0], Const) and isinstance(args[0].v, str):
            import re as _re
            try:
                m = getattr(_re.compile(f[1]), f[2])(args[0].v)
            except _re.error:
                return [(st, CallV('raise', [Opaque('re.error')]))]
            return [(st, Const(True) if m else Const(None))]
        if isinstance(f, Opaque) and f.text == 'itertools.groupby' and args and self.as_sequence(args[0]) is not None:
            keyf = kw.get('key') or (args[1] if len(args) > 1 else None)
            groups = []
            cur = st
            for item in self.as_sequence(args[0]):
                if keyf is None:
                    k = item
                else:
                    res = self.apply(e, keyf, [item], {}, cur, func)
                    if len(res) != 1:
                        return [(st, CallV('groupby', args, node=e))]
                    cur, k = res[0]
                if groups and values_equal(groups[-1][0], k) is True:
                    groups[-1][1].items.append(item)
                elif groups and values_equal(groups[-1][0], k) is None:
                    return [(st, CallV('groupby', args, node=e))]
                else:
                    groups.append((k, ListV([item])))
            return [(cur, ListV([ListV([k, g], True) for k, g in groups]))]
        if isinstance(f, Opaque) and f.text == 'collections.Counter' and (not args or self.as_sequence(args[0]) is not None):
            d = DictV(missing=Const(0))
            for k in (self.as_sequence(args[0]) if args else []):
                for p in d.pairs:
                    if values_equal(p[0], k) is True:
                        p[1] = Const(p[1].v + 1)
                        break
                else:
                    d.pairs.append([k, Const(1)])
            return [(st, d)]
        if isinstance(f, Opaque) and f.text in ('collections.defaultdict', 'collections.OrderedDict') and len(args) <= 1:
            kind = None
            if f.text == 'collections.defaultdict' and args:
                kind = args[0].text if isinstance(args[0], Opaque) and args[0].text in ('list', 'dict', 'set', 'int') else None
                if kind is None:
                    return [(st, CallV('defaultdict', args, node=e))]
            return [(st, DictV(missing=('factory', kind) if kind else None))]
        if isinstance(f, Opaque) and f.text == 'dict.fromkeys' and args and self.as_sequence(args[0]) is not None:
            d = DictV()
            for k in self.as_sequence(args[0]):
                if not any(values_equal(k, q[0]) is True for q in d.pairs):
                    d.pairs.append([k, args[1] if len(args) > 1 else Const(None)])
            return [(st, d)]
        if isinstance(e.func, ast.Name) and e.func.id == 'globals' and not args:
            return [(st, ('globals', func.module if hasattr(func, 'module') else func))]
        if isinstance(e.func, ast.Name):
            r = self.builtin(e.func.id, args, kw, st, e)
            if r is not None:
                return r
            return [(st, CallV(e.func.id, args, node=e))]
        if isinstance(e.func, ast.Attribute):
            recv = self.ev(e.func.value, st, func)[0][1]
            name = e.func.attr
            if isinstance(recv, Sym):
                cls = self.classes_of(st, recv.path)
                return self.dispatch(e, recv, name, args, cls, st, func)
            return [(st, CallV(name, args, recv=recv, node=e))]
        return [(st, CallV(norm(e.func), args, node=e))]

    def builtin(self, n, args, kw, st, e):
        a0 = args[0] if args else None
        seq0 = self.as_sequence(a0) if a0 is not None else None
        if n == 'len' and a0 is not None:
            if isinstance(a0, DictV):
                return [(st, Const(len(a0.pairs)))]
            if seq0 is not None:
                return [(st, Const(len(seq0)))]
        if n == 'str' and isinstance(a0, Const):
            return [(st, Const(str(a0.v)))]
        if n == 'str' and isinstance(a0, Fresh):
            return [(st, a0)]
        if n == 'str' and isinstance(a0, New) and self.depth < self.max_depth:
            m = self.repo.lookup_method(a0.cls, '__str__')
            if m is not None and self.inline(m):
                return self._inline(m, [a0], {}, st, True)
        if n == 'int' and isinstance(a0, Const):
            try:
                return [(st, Const(int(a0.v)))]
            except (TypeError, ValueError):
                return None
        if n in ('list', 'tuple', 'set', 'frozenset') and (seq0 is not None or not args):
            items = seq0 or []
            if n in ('set', 'frozenset'):
                uniq = []
                for x in items:
                    if not any(values_equal(x, y) is True for y in uniq):
                        uniq.append(x)
                items = uniq
            return [(st, ListV(items, n == 'tuple'))]
        if n == 'dict' and not args:
            return [(st, DictV([[Const(k), v] for k, v in kw.items()]))]
        if n == 'dict' and isinstance(a0, DictV):
            return [(st, _deep(a0, {}))]
        if n == 'reversed' and seq0 is not None:
            return [(st, ListV(list(reversed(seq0))))]
        if n == 'sorted' and seq0 is not None and all(isinstance(x, Const) for x in seq0):
            try:
                return [(st, ListV([Const(v) for v in sorted(x.v for x in seq0)]))]
            except TypeError:
                return None
        if n == 'range' and args and all(isinstance(x, Const) and isinstance(x.v, int) for x in args):
            return [(st, ListV([Const(i) for i in range(*[x.v for x in args])]))]
        if n == 'enumerate' and seq0 is not None:
            start = args[1].v if len(args) > 1 and isinstance(args[1], Const) else 0
            return [(st, ListV([ListV([Const(i + start), x], True) for i, x in enumerate(seq0)]))]
        if n == 'zip' and args and all(self.as_sequence(x) is not None for x in args):
            seqs = [self.as_sequence(x) for x in args]
            return [(st, ListV([ListV(list(t), True) for t in zip(*seqs)]))]
        if n in ('any', 'all') and seq0 is not None and all(isinstance(x, Const) for x in seq0):
            return [(st, Const(any(x.v for x in seq0) if n == 'any' else all(x.v for x in seq0)))]
        if n == 'bool' and isinstance(a0, (Const, ListV, DictV, New)):
            return [(st, Const(bool(a0.v) if isinstance(a0, Const) else bool(a0.items) if isinstance(a0, ListV) else
                            bool(a0.pairs) if isinstance(a0, DictV) else True))]
        if n in ('min', 'max') and args and all(isinstance(x, Const) for x in args):
            return [(st, Const(min(x.v for x in args) if n == 'min' else max(x.v for x in args)))]
        if n in ('map', 'filter') and len(args) == 2 and self.as_sequence(args[1]) is not None:
            out, cur = [], st
            for item in self.as_sequence(args[1]):
                if n == 'filter' and isinstance(args[0], Const) and args[0].v is None:
                    res = [(cur, item)]
                else:
                    res = self.apply(e, args[0], [item], {}, cur, None)
                if len(res) != 1:
                    return None
                cur, v = res[0]
                if n == 'map':
                    out.append(v)
                else:
                    t = self.truthy(v, cur, e)
                    if len(t) != 1:
                        return None
                    if t[0][0]:
                        out.append(item)
            return [(cur, ListV(out))]
        if n == 'id' and len(args) == 1 and isinstance(args[0], (New, ListV, DictV, SelfV, Fresh)):
            # identity of an object of the evaluated heap: the checker's own object stands for it
            return [(st, Const(id(args[0])))]
        if n == 'object' and not args:
            st.fresh += 1
            return [(st, Fresh('object', 1000000 + id(e) % 1000000))]
        if n == 'getattr' and len(args) >= 2 and isinstance(args[1], Const):
            v = self.attr(args[0], args[1].v, st, None, e)
            if isinstance(v, CallV) and len(args) > 2:
                return [(st, args[2])]
            return [(st, v)]
        if n == 'repr' and isinstance(a0, Const):
            return [(st, Const(repr(a0.v)))]
        if n == 'isinstance':
            return None
        return None

    def method(self, e, recv, name, args, kw, st, func):
        if isinstance(recv, ListV):
            if name == 'append' and args:
                recv.items.append(args[0])
                return [(st, Const(None))]
            if name == 'extend' and args and self.as_sequence(args[0]) is not None:
                recv.items.extend(self.as_sequence(args[0]))
                return [(st, Const(None))]
            if name == 'insert' and len(args) == 2 and isinstance(args[0], Const):
                recv.items.insert(args[0].v, args[1])
                return [(st, Const(None))]
            if name == 'pop':
                if recv.items:
                    i = args[0].v if args and isinstance(args[0], Const) else -1
                    return [(st, recv.items.pop(i))]
                return [(st, CallV('raise', [Opaque('pop from empty list')]))]
            if name == 'copy':
                return [(st, ListV(recv.items, recv.tuple_))]
            if name in ('add', 'update') and args:       # a set, kept as a list without duplicates
                new = [args[0]] if name == 'add' else self.as_sequence(args[0])
                if new is not None:
                    for x in new:
                        if not any(values_equal(x, y) is True for y in recv.items):
                            recv.items.append(x)
                    return [(st, Const(None))]
            if name in ('union', 'intersection', 'difference', 'symmetric_difference') and all(self.as_sequence(a) is not None for a in args):
                def has(seq, x):
                    return any(values_equal(x, y) is True for y in seq)
                cur = list(recv.items)
                for a in args:
                    other = self.as_sequence(a)
                    if name == 'union':
                        cur = cur + [x for x in other if not has(cur, x)]
                    elif name == 'intersection':
                        cur = [x for x in cur if has(other, x)]
                    elif name == 'difference':
                        cur = [x for x in cur if not has(other, x)]
                    else:
                        cur = [x for x in cur if not has(other, x)] + [x for x in other if not has(cur, x)]
                return [(st, ListV(cur))]
            if name in ('issubset', 'issuperset', 'isdisjoint') and args and self.as_sequence(args[0]) is not None:
                other = self.as_sequence(args[0])
                def has(seq, x):
                    return any(values_equal(x, y) is True for y in seq)
                if name == 'issubset':
                    return [(st, Const(all(has(other, x) for x in recv.items)))]
                if name == 'issuperset':
                    return [(st, Const(all(has(recv.items, x) for x in other)))]
                return [(st, Const(not any(has(other, x) for x in recv.items)))]
            if name in ('discard', 'remove') and args:
                recv.items[:] = [y for y in recv.items if values_equal(args[0], y) is not True]
                return [(st, Const(None))]
            if name == 'clear':
                del recv.items[:]
                return [(st, Const(None))]
            if name == 'reverse':
                recv.items.reverse()
                return [(st, Const(None))]
            if name == 'index' and args:
                for i, x in enumerate(recv.items):
                    if values_equal(x, args[0]) is True:
                        return [(st, Const(i))]
            if name == 'count' and args:
                return [(st, Const(len([x for x in recv.items if values_equal(x, args[0]) is True])))]
        if isinstance(recv, DictV):
            def find(k):
                for p in recv.pairs:
                    if values_equal(p[0], k) is True:
                        return p
                return None
            if name == 'get' and args:
                p = find(args[0])
                if p is not None:
                    return [(st, p[1])]
                if all(values_equal(q[0], args[0]) is False for q in recv.pairs):
                    return [(st, args[1] if len(args) > 1 else Const(None))]
                if recv.pairs and all(isinstance(q[0], Const) for q in recv.pairs) and isinstance(args[0], (Sym, CallV)):
                    # a constant table consulted with a symbolic key: one path per key, one for "none of them"
                    outs = []
                    cur = st
                    for k, v in recv.pairs:
                        nxt = None
                        for br, s2 in self.compare(ast.Eq(), args[0], k, cur, e):
                            if br:
                                outs.append((s2, v))
                            else:
                                nxt = s2
                        if nxt is None:
                            break
                        cur = nxt
                    else:
                        outs.append((cur, args[1] if len(args) > 1 else Const(None)))
                    return outs
            if name == 'setdefault' and args:
                p = find(args[0])
                if p is not None:
                    return [(st, p[1])]
                if all(values_equal(q[0], args[0]) is False for q in recv.pairs):
                    v = args[1] if len(args) > 1 else Const(None)
                    recv.pairs.append([args[0], v])
                    return [(st, v)]
            if name == 'items':
                return [(st, ListV([ListV([k, v], True) for k, v in recv.pairs]))]
            if name == 'keys':
                return [(st, ListV([k for k, _ in recv.pairs]))]
            if name == 'values':
                return [(st, ListV([v for _, v in recv.pairs]))]
            if name == 'update' and args and isinstance(args[0], DictV):
                for k, v in args[0].pairs:
                    p = find(k)
                    if p is not None:
                        p[1] = v
                    else:
                        recv.pairs.append([k, v])
                return [(st, Const(None))]
            if name == 'copy':
                return [(st, _deep(recv, {}))]
            if name == 'clear' and not args:
                del recv.pairs[:]
                return [(st, Const(None))]
            if name == 'pop' and args:
                p = find(args[0])
                if p is not None:
                    recv.pairs.remove(p)
                    return [(st, p[1])]
        if isinstance(recv, Const) and isinstance(recv.v, str):
            if name == 'join' and args:
                seq = self.as_sequence(args[0])
                if seq is not None and all(isinstance(x, Const) and isinstance(x.v, str) for x in seq):
                    return [(st, Const(recv.v.join(x.v for x in seq)))]
            if name == 'format' and all(isinstance(x, Const) for x in args) and all(isinstance(v, Const) for v in kw.values()):
                try:
                    return [(st, Const(recv.v.format(*[x.v for x in args], **{k: v.v for k, v in kw.items()})))]
                except Exception:
                    pass
            if name == 'format' and len([x for x in args if isinstance(x, Fresh)]) == 1 and all(isinstance(x, (Const, Fresh)) for x in args):
                return [(st, [x for x in args if isinstance(x, Fresh)][0])]
            if name in ('startswith', 'endswith') and args and isinstance(args[0], Const):
                return [(st, Const(getattr(recv.v, name)(args[0].v)))]
            if name in _PURE_STR_METHODS and all(isinstance(x, Const) for x in args) and not kw:
                try:
                    r = getattr(recv.v, name)(*[x.v for x in args])
                except Exception:
                    return [(st, CallV('raise', [Opaque('%s.%s' % (type(recv.v).__name__, name))]))]
                if isinstance(r, list):
                    return [(st, ListV([Const(x) for x in r]))]
                if isinstance(r, tuple):
                    return [(st, ListV([Const(x) for x in r], True))]
                return [(st, Const(r))]
        return [(st, CallV(name, args, recv=recv, node=e))]

    def dispatch(self, e, recv, name, args, classes, st, func):
        if not classes:
            return [(st, CallV(name, args, recv=recv, node=e))]
        outs = []
        for cn in sorted(classes):
            ci = None
            for c in self.repo.all_classes():
                if c.name == cn:
                    ci = c
            s2 = st.copy()
            s2.classes[recv.path] = frozenset([cn])
            m = self.repo.lookup_method(ci, name) if ci else None
            if m is None or self.opaque(name):
                outs.append((s2, CallV(name, args, recv=recv, node=e)))
            elif m.is_generator:
                outs.append((s2, CallV('gen:' + m.qname, args, recv=recv, node=e)))
            elif self.inline(m) and self.depth < self.max_depth:
                self.depth += 1
                try:
                    outs.extend(self.run(m, [recv] + args, s2, with_self=True))
                finally:
                    self.depth -= 1
            else:
                outs.append((s2, CallV(name, args, recv=recv, node=e)))
        return outs


_BREAK = object()
_CONTINUE = object()
_BROKE = object()


def _load(t):
    import copy
    c = copy.copy(t)
    c.ctx = ast.Load()
    return c
