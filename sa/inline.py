"""Helper-inlined views of a function.

A refactoring that moves a stretch of a function into a module-level helper (or back) does not change
what the function does.  Rules that reason about the order of the steps in one function (the compile
pipeline: listeners before the parse, objects constructed per call, what is written) therefore look at a
*view* of the function in which calls of same-module helpers are replaced by the helper's body:

    helper(a, b)            ->  <body, parameters replaced by a, b, locals renamed>
    x = helper(a, b)        ->  <body>; x = <returned expression>
    return helper(a, b)     ->  <body>; return <returned expression>

Only helpers that can be pasted without changing the meaning are inlined: plain module-level functions
(no decorator, no generator, no *args/**kw), whose only ``return`` is their last statement.  Anything
else stays a call.  The view is a synthetic FunctionDef; line numbers are those of the original nodes.
"""
import ast

from .model import FuncInfo, set_parents, own_nodes, _clone, _simple_expr


def _returns_ok(g):
    body = g.node.body
    for n in own_nodes(g.node):
        if isinstance(n, ast.Return) and n is not body[-1]:
            return False
    return True


def inlinable(g, f):
    a = g.node.args
    return (g is not f and g.cls is None and g.parent is None and not g.decorators and not g.is_generator and
            not a.vararg and not a.kwarg and not a.kwonlyargs and _returns_ok(g) and
            not any(isinstance(n, (ast.Global, ast.Nonlocal)) for n in own_nodes(g.node)) and not g.nested)


class _Inliner:
    def __init__(self, repo, f, depth):
        self.repo = repo
        self.f = f
        self.mod = f.module
        self.depth = depth
        self.counter = 0
        self.inlined = []

    def callee(self, call, scope):
        if not (isinstance(call, ast.Call) and isinstance(call.func, ast.Name)):
            return None
        if any(isinstance(a, ast.Starred) for a in call.args) or any(k.arg is None for k in call.keywords):
            return None
        g = self.mod.functions.get(call.func.id)
        if g is None or not inlinable(g, self.f) or g in scope:
            return None
        ps = g.params
        if len(call.args) > len(ps) or any(k.arg not in ps for k in call.keywords):
            return None
        return g

    def paste(self, g, call, depth, scope):
        """-> (statements, returned expression or None)"""
        self.counter += 1
        k = self.counter
        if g not in self.inlined:
            self.inlined.append(g)
        ps = g.params
        a = g.node.args
        stored = {x.id for n in own_nodes(g.node) for x in ast.walk(n) if isinstance(x, ast.Name) and isinstance(x.ctx, (ast.Store, ast.Del))}
        stored |= {h.name for n in own_nodes(g.node) if isinstance(n, ast.ExceptHandler) and n.name for h in [n]}
        given = {}
        for i, x in enumerate(call.args):
            given[ps[i]] = x
        for kw in call.keywords:
            given[kw.arg] = kw.value
        nd = len(a.defaults)
        for i, p in enumerate(ps):
            if p not in given:
                j = i - (len(ps) - nd)
                given[p] = a.defaults[j] if j >= 0 else ast.Constant(value=None)
        pre = []
        subst = {}
        ren = {v: '_i%d_%s' % (k, v) for v in stored}
        for p in ps:
            arg = given[p]
            if _simple_expr(arg) and p not in stored:
                subst[p] = arg
            else:
                ren[p] = '_i%d_%s' % (k, p)
                st = ast.Assign(targets=[ast.Name(id=ren[p], ctx=ast.Store())], value=_clone(arg))
                ast.copy_location(st, call)
                ast.fix_missing_locations(st)
                pre.append(st)

        class Sub(ast.NodeTransformer):
            def visit_Name(self, node):
                if node.id in ren:
                    return ast.copy_location(ast.Name(id=ren[node.id], ctx=node.ctx), node)
                if node.id in subst and isinstance(node.ctx, ast.Load):
                    return ast.copy_location(_clone(subst[node.id]), node)
                return node

            def visit_ExceptHandler(self, node):
                self.generic_visit(node)
                if node.name in ren:
                    node.name = ren[node.name]
                return node
        body = [s for s in g.node.body if not (isinstance(s, ast.Expr) and isinstance(s.value, ast.Constant))]
        ret = None
        if body and isinstance(body[-1], ast.Return):
            ret = body[-1].value
            body = body[:-1]
        new = [Sub().visit(_clone(s)) for s in body]
        rexpr = Sub().visit(_clone(ret)) if ret is not None else None
        new = self.expand(new, depth - 1, scope + [g])
        if rexpr is not None:
            # the returned expression may itself be an inlinable call
            g2 = self.callee(rexpr, scope + [g]) if depth - 1 > 0 else None
            if g2 is not None:
                more, rexpr = self.paste(g2, rexpr, depth - 1, scope + [g])
                new = new + more
        return pre + new, rexpr

    def expand(self, stmts, depth, scope):
        out = []
        for s in stmts:
            call = kind = None
            if isinstance(s, ast.Expr) and isinstance(s.value, ast.Call):
                call, kind = s.value, 'expr'
            elif isinstance(s, ast.Assign) and isinstance(s.value, ast.Call):
                call, kind = s.value, 'assign'
            elif isinstance(s, ast.Return) and isinstance(s.value, ast.Call):
                call, kind = s.value, 'return'
            g = self.callee(call, scope) if (call is not None and depth > 0) else None
            if g is not None:
                body, rexpr = self.paste(g, call, depth, scope)
                out.extend(body)
                if kind == 'assign':
                    st = ast.Assign(targets=s.targets, value=rexpr if rexpr is not None else ast.Constant(value=None))
                elif kind == 'return':
                    st = ast.Return(value=rexpr if rexpr is not None else ast.Constant(value=None))
                elif rexpr is not None and any(isinstance(x, ast.Call) for x in ast.walk(rexpr)):
                    st = ast.Expr(value=rexpr)
                else:
                    st = None
                if st is not None:
                    ast.copy_location(st, s)
                    ast.fix_missing_locations(st)
                    out.append(st)
                continue
            for fld in ('body', 'orelse', 'finalbody'):
                sub = getattr(s, fld, None)
                if isinstance(sub, list) and sub and isinstance(sub[0], ast.stmt) and not isinstance(s, (ast.FunctionDef, ast.ClassDef, ast.AsyncFunctionDef)):
                    setattr(s, fld, self.expand(sub, depth, scope))
            for h in getattr(s, 'handlers', []) or []:
                h.body = self.expand(h.body, depth, scope)
            out.append(s)
        return out


def inline_view(repo, f, depth=4):
    """FuncInfo of a copy of f in which same-module helper calls are replaced by the helpers' bodies.
    ``view.origin`` is f, ``view.inlined`` the helpers pasted in (possibly empty)."""
    inl = _Inliner(repo, f, depth)
    node = _clone(f.node)
    node.body = inl.expand(node.body, depth, [f])
    set_parents(node)
    node._parent = getattr(f.node, '_parent', None)
    view = FuncInfo(f.module, node, cls=f.cls, parent=f.parent)
    view.origin = f
    view.inlined = list(inl.inlined)
    return view
