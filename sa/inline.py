"""Helper-inlined views of a function.

A refactoring that moves a stretch of a function into a module-level helper (or back) does not change
what the function does.  Rules that reason about the order of the steps in one function (the compile
pipeline: listeners before the parse, objects constructed per call, what is written) therefore look at a
*view* of the function in which calls of same-module helpers are replaced by the helper's body:

    helper(a, b)            ->  <body, parameters replaced by a, b, locals renamed>
    x = helper(a, b)        ->  <body>; x = <returned expression>
    return helper(a, b)     ->  <body>; return <returned expression>

Only helpers that can be pasted without changing the meaning are inlined: plain module-level functions
(no decorator, no generator, no *args/**kw), whose only ``return`` is their last statement.  Anything
else stays a call.  The view is a synthetic FunctionDef; line numbers are those of the original nodes.
"""
import ast

from .model import FuncInfo, set_parents, own_nodes, _clone, _simple_expr


def _has_return(node):
    stack = [node]
    while stack:
        n = stack.pop()
        if isinstance(n, ast.Return):
            return True
        if isinstance(n, (ast.FunctionDef, ast.AsyncFunctionDef, ast.Lambda, ast.ClassDef)) and n is not node:
            continue
        stack.extend(ast.iter_child_nodes(n))
    return False


def single_exit(stmts, ret, tail=None):
    """the statement list with every ``return v`` turned into ``<ret> = v`` at the end of its path (early returns
    become if/else nesting, the statements after them are copied into the branches that fall through);
    None when a return sits inside a loop, try or with"""
    if tail is None:
        tail = [ast.Assign(targets=[ast.Name(id=ret, ctx=ast.Store())], value=ast.Constant(value=None))]
    if not stmts:
        return [_clone(t) for t in tail]
    s, rest = stmts[0], stmts[1:]
    if isinstance(s, ast.Return):
        a = ast.Assign(targets=[ast.Name(id=ret, ctx=ast.Store())], value=_clone(s.value) if s.value is not None else ast.Constant(value=None))
        return [ast.copy_location(a, s)]
    if _has_return(s):
        if not isinstance(s, ast.If):
            return None
        after = single_exit(rest, ret, tail)
        if after is None:
            return None
        b = single_exit(s.body, ret, after)
        o = single_exit(s.orelse, ret, after)
        if b is None or o is None:
            return None
        n = ast.If(test=_clone(s.test), body=b, orelse=o)
        return [ast.copy_location(n, s)]
    after = single_exit(rest, ret, tail)
    if after is None:
        return None
    return [_clone(s)] + after


def _returns_ok(g):
    """returns only as the last statement, or early returns that single_exit can turn into nesting (small functions only)"""
    body = g.node.body
    if all(not isinstance(n, ast.Return) or n is body[-1] for n in own_nodes(g.node)):
        return True
    nret = len([n for n in own_nodes(g.node) if isinstance(n, ast.Return)])
    return nret <= 6 and single_exit(list(body), '_r') is not None


def inlinable(g, f):
    a = g.node.args
    return (g is not f and (g.cls is None or (f.cls is not None and g.cls in (f.cls,))) and g.parent is None and not g.decorators and not g.is_generator and
            not a.vararg and not a.kwarg and not a.kwonlyargs and _returns_ok(g) and
            not any(isinstance(n, (ast.Global, ast.Nonlocal)) for n in own_nodes(g.node)) and not g.nested)


def _fold(stmts):
    """drop the dead branch of an ``if`` whose test compares constants (after a constant argument was substituted)"""
    out = []
    for s in stmts:
        if isinstance(s, ast.If):
            val = _const_test(s.test)
            s.body = _fold(s.body)
            s.orelse = _fold(s.orelse)
            if val is True:
                out.extend(s.body)
                continue
            if val is False:
                out.extend(s.orelse)
                continue
        out.append(s)
    return out


def _const_test(e):
    # len(x) is never negative
    if isinstance(e, ast.Compare) and len(e.ops) == 1 and isinstance(e.left, ast.Call) and isinstance(e.left.func, ast.Name) and \
            e.left.func.id == 'len' and isinstance(e.comparators[0], ast.Constant) and e.comparators[0].value == 0:
        if isinstance(e.ops[0], ast.Lt):
            return False
        if isinstance(e.ops[0], ast.GtE):
            return True
    try:
        if isinstance(e, ast.Compare) and len(e.ops) == 1:
            a, b = ast.literal_eval(e.left), ast.literal_eval(e.comparators[0])
            op = e.ops[0]
            table = {ast.Lt: a < b, ast.LtE: a <= b, ast.Gt: a > b, ast.GtE: a >= b, ast.Eq: a == b, ast.NotEq: a != b} \
                if isinstance(a, (int, float)) and isinstance(b, (int, float)) else {ast.Eq: a == b, ast.NotEq: a != b}
            if isinstance(op, ast.Is):
                return a is b if (a is None or b is None) else None
            if isinstance(op, ast.IsNot):
                return a is not b if (a is None or b is None) else None
            return table.get(type(op))
        if isinstance(e, ast.Constant):
            return bool(e.value)
    except (ValueError, TypeError, SyntaxError):
        return None
    return None


class _Inliner:
    def __init__(self, repo, f, depth, keep=()):
        self.keep = set(keep)
        self.repo = repo
        self.f = f
        self.mod = f.module
        self.depth = depth
        self.counter = 0
        self.inlined = []
        self.objs = {}          # synthetic receiver name -> ClassInfo of a helper object whose fields became locals
        self.top = None
        self.temps = set()

    def callee(self, call, scope):
        if not isinstance(call, ast.Call):
            return None
        if any(isinstance(a, ast.Starred) for a in call.args) or any(k.arg is None for k in call.keywords):
            return None
        g = None
        if isinstance(call.func, ast.Name):
            g = self.mod.functions.get(call.func.id)
            if g is None and call.func.id in self.mod.classes and self._plain_class(self.mod.classes[call.func.id]):
                return None         # a constructor: handled where the object is used (object_call)
        elif isinstance(call.func, ast.Attribute) and isinstance(call.func.value, ast.Name) and call.func.value.id in self.objs:
            ci = self.objs[call.func.value.id]
            g = ci.methods.get(call.func.attr)
            if g is None or g in self.keep or g.is_generator or (g.decorators and g.decorators != ['property']) or not _returns_ok(g) or g in scope:
                return None
            ps = g.params[1:]
            if len(call.args) > len(ps) or any(k.arg not in ps for k in call.keywords):
                return None
            return g
        elif isinstance(call.func, ast.Attribute) and isinstance(call.func.value, ast.Name) and call.func.value.id != 'self' and \
                self._local_object_class(call.func.value.id) is not None:
            # x.m(..) where the local x is bound once, to K(..), K a class of this module without subclasses here: m is pasted
            # in with its ``self`` standing for x (the object itself stays what it is)
            ci = self._local_object_class(call.func.value.id)
            g = ci.methods.get(call.func.attr)
            if g is None or g in self.keep or g.is_generator or g.decorators or not _returns_ok(g) or g in scope or g.nested or \
                    g.node.args.vararg or g.node.args.kwarg or g.node.args.kwonlyargs or not g.params or g.name.startswith('__') or \
                    any(isinstance(n, (ast.Global, ast.Nonlocal)) for n in own_nodes(g.node)) or \
                    any(isinstance(n, ast.Name) and n.id == g.params[0] and isinstance(n.ctx, (ast.Store, ast.Del)) for n in own_nodes(g.node)) or \
                    any(isinstance(n, (ast.Lambda, ast.FunctionDef)) for n in own_nodes(g.node) if n is not g.node):
                return None
            ps = g.params[1:]
            if len(call.args) > len(ps) or any(k.arg not in ps for k in call.keywords):
                return None
            return g
        elif isinstance(call.func, ast.Attribute) and isinstance(call.func.value, ast.Attribute) and \
                isinstance(call.func.value.value, ast.Name) and call.func.value.value.id == 'self' and self.f.cls is not None and \
                self._field_class(call.func.value.attr) is not None:
            # self.F.m(..) where the field F always holds an object of one helper class of the module: m is pasted in with
            # its own ``self`` standing for ``self.F``
            ci = self._field_class(call.func.value.attr)
            g = self.repo.lookup_method(ci, call.func.attr)
            if g is None or g in self.keep or g.is_generator or g.decorators or not _returns_ok(g) or g in scope or g.nested or \
                    g.node.args.vararg or g.node.args.kwarg or g.node.args.kwonlyargs or not g.params or \
                    any(isinstance(n, (ast.Global, ast.Nonlocal)) for n in own_nodes(g.node)) or \
                    any(isinstance(n, ast.Name) and n.id == g.params[0] and isinstance(n.ctx, (ast.Store, ast.Del)) for n in own_nodes(g.node)) or \
                    any(isinstance(n, (ast.Lambda, ast.FunctionDef)) for n in own_nodes(g.node) if n is not g.node):
                return None
            ps = g.params[1:]
            if len(call.args) > len(ps) or any(k.arg not in ps for k in call.keywords):
                return None
            return g
        elif isinstance(call.func, ast.Attribute) and isinstance(call.func.value, ast.Name) and call.func.value.id == 'self' and self.f.cls is not None:
            g = self.f.cls.methods.get(call.func.attr)      # a helper method of the same class (not an inherited or overridden one)
            if g is not None and any(call.func.attr in c.methods for c in self.repo.subclasses(self.f.cls, strict=True)):
                g = None
        if g is None or g in self.keep or not inlinable(g, self.f) or g in scope:
            return None
        ps = g.params[1:] if g.cls is not None else g.params
        if len(call.args) > len(ps) or any(k.arg not in ps for k in call.keywords):
            return None
        return g

    def _local_object_class(self, name):
        """the class K of this module (without subclasses in it) when the local ``name`` of the function under view is bound
        exactly once, to ``K(..)``; else None"""
        cache = self.__dict__.setdefault('_local_classes', {})
        if name not in cache:
            cache[name] = None
            top = self.top if self.top is not None else self.f.node
            params = {a_.arg for a_ in top.args.args + top.args.kwonlyargs + top.args.posonlyargs}
            stores = [x for x in ast.walk(top) if isinstance(x, ast.Name) and x.id == name and isinstance(x.ctx, (ast.Store, ast.Del))]
            defs = [s_ for s_ in ast.walk(top) if isinstance(s_, ast.Assign) and len(s_.targets) == 1 and isinstance(s_.targets[0], ast.Name) and
                    s_.targets[0].id == name]
            if name not in params and len(stores) == 1 and len(defs) == 1 and isinstance(defs[0].value, ast.Call) and \
                    isinstance(defs[0].value.func, ast.Name) and defs[0].value.func.id in self.mod.classes:
                ci = self.mod.classes[defs[0].value.func.id]
                if not self.repo.subclasses(ci, strict=True) and not self._plain_class(ci):
                    cache[name] = ci
        return cache[name]

    def _field_class(self, field):
        """the helper class of this module whose instances are the only values ever stored in ``self.<field>`` (by any
        method of the class of the function under view or of its bases), else None"""
        cache = self.__dict__.setdefault('_field_classes', {})
        if field not in cache:
            found = set()
            for c in self.repo.mro(self.f.cls):
                for m in c.methods.values():
                    for n in own_nodes(m.node):
                        targets = n.targets if isinstance(n, ast.Assign) else [n.target] if isinstance(n, (ast.AnnAssign, ast.AugAssign)) else []
                        for t in targets:
                            for x in ast.walk(t):
                                if isinstance(x, ast.Attribute) and x.attr == field and isinstance(x.ctx, ast.Store):
                                    v = getattr(n, 'value', None)
                                    if isinstance(n, ast.Assign) and x is t and isinstance(v, ast.Call) and isinstance(v.func, ast.Name) and \
                                            v.func.id in self.mod.classes and isinstance(x.value, ast.Name) and x.value.id == m.params[0]:
                                        found.add(v.func.id)
                                    else:
                                        found.add(None)
                        if isinstance(n, ast.Call) and isinstance(n.func, ast.Name) and n.func.id == 'setattr':
                            found.add(None)
            cache[field] = self.mod.classes[next(iter(found))] if len(found) == 1 and None not in found else None
        return cache[field]

    def _plain_class(self, ci):
        """a helper class of the module whose objects can be dissolved: no bases from outside, plain methods, a constructor
        that only runs straight-line code"""
        if ci.base_exprs and any(b not in self.mod.classes for b in ci.base_exprs):
            return False
        init = ci.methods.get('__init__')
        if init is None or init.is_generator or init.decorators or any(isinstance(n, ast.Return) and n.value is not None for n in own_nodes(init.node)):
            return False
        return True

    def dissolve(self, stmts):
        """``x = C(a)`` / ``C(a).m(b)`` for a plain helper class C of the module: the constructor body is pasted with the
        fields of the object as locals, provided the object is only ever used as ``x.m(...)`` / ``x.field``"""
        out = []
        for s in stmts:
            # C(a).m(b)  ->  _tK = C(a); _tK.m(b)
            for holder in (s,):
                v = getattr(holder, 'value', None)
                if isinstance(v, ast.Call) and isinstance(v.func, ast.Attribute) and isinstance(v.func.value, ast.Call) and \
                        isinstance(v.func.value.func, ast.Name) and v.func.value.func.id in self.mod.classes and \
                        self._plain_class(self.mod.classes[v.func.value.func.id]):
                    self.counter += 1
                    tmp = '_t%d' % self.counter
                    self.temps.add(tmp)
                    a = ast.Assign(targets=[ast.Name(id=tmp, ctx=ast.Store())], value=v.func.value)
                    ast.fix_missing_locations(ast.copy_location(a, s))
                    v.func.value = ast.copy_location(ast.Name(id=tmp, ctx=ast.Load()), v.func)
                    out.append(a)
            out.append(s)
        res = []
        for i, s in enumerate(out):
            if isinstance(s, ast.Assign) and len(s.targets) == 1 and isinstance(s.targets[0], ast.Name) and isinstance(s.value, ast.Call) and \
                    isinstance(s.value.func, ast.Name) and s.value.func.id in self.mod.classes and not s.value.keywords and \
                    not any(isinstance(a_, ast.Starred) for a_ in s.value.args):
                ci = self.mod.classes[s.value.func.id]
                name = s.targets[0].id
                rest = out[i + 1:]
                uses = [x for r in rest for x in ast.walk(r) if isinstance(x, ast.Name) and x.id == name]
                ok = self._plain_class(ci) and all(isinstance(getattr(u, '_parent_inl', None), ast.Attribute) for u in self._mark_parents(rest, name))
                # the name must stand for this object and nothing else: not a parameter, and every mention of it in the whole
                # function is the assignment itself or lies in the statements that follow it in the same block
                if ok and self.top is not None and name not in self.temps:
                    params = {a_.arg for a_ in self.top.args.args + self.top.args.kwonlyargs + self.top.args.posonlyargs}
                    everywhere = [x for x in ast.walk(self.top) if isinstance(x, ast.Name) and x.id == name]
                    here = [x for r in rest for x in ast.walk(r) if isinstance(x, ast.Name) and x.id == name]
                    if name in params or len(everywhere) != len(here) + 1:
                        ok = False
                stores = [x for r in rest for x in ast.walk(r) if isinstance(x, ast.Name) and x.id == name and isinstance(x.ctx, ast.Store)]
                init = ci.methods['__init__'] if ok else None
                if ok and not stores and len(s.value.args) <= len(init.params) - 1:
                    self.counter += 1
                    k = self.counter
                    obj = '_o%d' % k
                    self.objs[obj] = ci
                    call = ast.Call(func=ast.Attribute(value=ast.Name(id=obj, ctx=ast.Load()), attr='__init__', ctx=ast.Load()), args=s.value.args, keywords=[])
                    st = ast.Expr(value=call)
                    ast.fix_missing_locations(ast.copy_location(st, s))
                    res.append(st)
                    # the object's name now stands for the dissolved object
                    for r in rest:
                        for x in ast.walk(r):
                            if isinstance(x, ast.Name) and x.id == name:
                                x.id = obj
                    # reading a property of the object is a call of its getter
                    props = {m_.name for m_ in ci.methods.values() if m_.decorators == ['property']}
                    if props:
                        class P(ast.NodeTransformer):
                            def visit_Attribute(self, node):
                                self.generic_visit(node)
                                if isinstance(node.value, ast.Name) and node.value.id == obj and node.attr in props and isinstance(node.ctx, ast.Load):
                                    call = ast.Call(func=node, args=[], keywords=[])
                                    return ast.fix_missing_locations(ast.copy_location(call, node))
                                return node
                        for i_, r in enumerate(rest):
                            rest[i_] = P().visit(r)
                        out[i + 1:] = rest
                    continue
            res.append(s)
        return res

    def _mark_parents(self, stmts, name):
        hits = []
        for r in stmts:
            for p in ast.walk(r):
                for c in ast.iter_child_nodes(p):
                    if isinstance(c, ast.Name) and c.id == name:
                        c._parent_inl = p
                        hits.append(c)
        return hits

    def paste(self, g, call, depth, scope):
        """-> (statements, returned expression or None)"""
        self.counter += 1
        k = self.counter
        if g not in self.inlined:
            self.inlined.append(g)
        ps = g.params[1:] if g.cls is not None else g.params
        a = g.node.args
        stored = {x.id for n in own_nodes(g.node) for x in ast.walk(n) if isinstance(x, ast.Name) and isinstance(x.ctx, (ast.Store, ast.Del))}
        stored |= {h.name for n in own_nodes(g.node) if isinstance(n, ast.ExceptHandler) and n.name for h in [n]}
        given = {}
        for i, x in enumerate(call.args):
            given[ps[i]] = x
        for kw in call.keywords:
            given[kw.arg] = kw.value
        nd = len(a.defaults)
        for i, p in enumerate(ps):
            if p not in given:
                j = i - (len(ps) - nd)
                given[p] = a.defaults[j] if j >= 0 else ast.Constant(value=None)
        pre = []
        subst = {}
        ren = {v: '_i%d_%s' % (k, v) for v in stored}
        for p in ps:
            arg = given[p]
            if _simple_expr(arg) and p not in stored:
                subst[p] = arg
            else:
                ren[p] = '_i%d_%s' % (k, p)
                st = ast.Assign(targets=[ast.Name(id=ren[p], ctx=ast.Store())], value=_clone(arg))
                ast.copy_location(st, call)
                ast.fix_missing_locations(st)
                pre.append(st)

        objname = call.func.value.id if (isinstance(call.func, ast.Attribute) and isinstance(call.func.value, ast.Name) and
                                         call.func.value.id in self.objs) else None
        me = g.params[0] if g.cls is not None and g.params else None
        if isinstance(call.func, ast.Attribute) and isinstance(call.func.value, ast.Attribute) and me is not None and g.cls is not self.f.cls:
            subst[me] = call.func.value         # the helper object lives in a field: its ``self`` is ``self.<field>``
        if isinstance(call.func, ast.Attribute) and isinstance(call.func.value, ast.Name) and me is not None and g.cls is not self.f.cls and \
                objname is None and call.func.value.id != 'self':
            subst[me] = call.func.value         # a local object: its ``self`` is that local
        obj_methods = set(self.objs[objname].methods) if objname else set()

        class Sub(ast.NodeTransformer):
            def visit_Attribute(self, node):
                if objname and isinstance(node.value, ast.Name) and node.value.id == me:
                    if node.attr in obj_methods:
                        return ast.copy_location(ast.Attribute(value=ast.Name(id=objname, ctx=ast.Load()), attr=node.attr, ctx=node.ctx), node)
                    return ast.copy_location(ast.Name(id='%s_%s' % (objname, node.attr), ctx=node.ctx), node)
                self.generic_visit(node)
                return node

            def visit_Name(self, node):
                if node.id in ren:
                    return ast.copy_location(ast.Name(id=ren[node.id], ctx=node.ctx), node)
                if node.id in subst and isinstance(node.ctx, ast.Load):
                    return ast.copy_location(_clone(subst[node.id]), node)
                return node

            def visit_ExceptHandler(self, node):
                self.generic_visit(node)
                if node.name in ren:
                    node.name = ren[node.name]
                return node
        body = [s for s in g.node.body if not (isinstance(s, ast.Expr) and isinstance(s.value, ast.Constant))]
        ret = None
        early = any(isinstance(n, ast.Return) and n is not g.node.body[-1] for n in own_nodes(g.node))
        if early:
            rv = '_i%d_result' % k
            body = single_exit(body, rv)
            ret = ast.Name(id=rv, ctx=ast.Load())
            for st_ in body:
                ast.fix_missing_locations(ast.copy_location(st_, call))
        elif body and isinstance(body[-1], ast.Return):
            ret = body[-1].value
            body = body[:-1]
        new = [Sub().visit(_clone(s)) for s in body]
        rexpr = Sub().visit(_clone(ret)) if ret is not None else None
        for st_ in new + ([rexpr] if rexpr is not None else []):
            for x in ast.walk(st_):
                if not hasattr(x, '_from'):
                    x._from = g             # provenance: which helper this node was pasted from (innermost)
        new = _fold(new)
        new = self.expand(new, depth - 1, scope + [g])
        if rexpr is not None and depth - 1 > 0:
            # helper calls nested in the returned expression
            tmp = ast.Return(value=rexpr)
            ast.fix_missing_locations(ast.copy_location(tmp, call))
            pre2, tmp = self.hoist(tmp, depth - 1, scope + [g])
            if pre2:
                new = new + self.expand(pre2, depth - 1, scope + [g])
            rexpr = tmp.value
        if rexpr is not None:
            # the returned expression may itself be an inlinable call
            g2 = self.callee(rexpr, scope + [g]) if depth - 1 > 0 else None
            if g2 is not None:
                more, rexpr = self.paste(g2, rexpr, depth - 1, scope + [g])
                new = new + more
        return pre + new, rexpr

    def hoist(self, s, depth, scope):
        """helper calls nested in the expressions of a simple statement are taken out into ``_hN = helper(...)``
        statements in front of it (not out of short-circuit operands, conditional expressions, lambdas, comprehensions)"""
        if depth <= 0 or not isinstance(s, (ast.Expr, ast.Assign, ast.AugAssign, ast.Return, ast.If, ast.For)):
            return [], s
        roots = [s.test] if isinstance(s, ast.If) else [s.iter] if isinstance(s, ast.For) else \
            [s.value] if getattr(s, 'value', None) is not None else []
        if isinstance(s, ast.Assign):
            roots = [s.value] + [t for t in s.targets if not isinstance(t, ast.Name)]
        pre = []

        def visit(e, top):
            # children first (evaluation order), then the node itself
            if isinstance(e, (ast.BoolOp, ast.IfExp, ast.Lambda, ast.ListComp, ast.SetComp, ast.DictComp, ast.GeneratorExp)):
                return e
            for fld, val in ast.iter_fields(e):
                if isinstance(val, ast.AST):
                    setattr(e, fld, visit(val, False))
                elif isinstance(val, list):
                    setattr(e, fld, [visit(v, False) if isinstance(v, ast.AST) else v for v in val])
            if isinstance(e, ast.Call) and not top and self.callee(e, scope) is not None:
                self.counter += 1
                name = '_h%d' % self.counter
                st = ast.Assign(targets=[ast.Name(id=name, ctx=ast.Store())], value=e)
                ast.fix_missing_locations(ast.copy_location(st, s))
                pre.append(st)
                return ast.copy_location(ast.Name(id=name, ctx=ast.Load()), e)
            return e
        for r in roots:
            is_stmt_call = isinstance(r, ast.Call) and (r is getattr(s, 'value', None)) and not isinstance(s, (ast.If, ast.For))
            new = visit(r, is_stmt_call)
            if isinstance(s, ast.If):
                s.test = new
            elif isinstance(s, ast.For):
                s.iter = new
            elif r is getattr(s, 'value', None):
                s.value = new
            else:
                s.targets = [new if t is r else t for t in s.targets]
        return pre, s

    def expand(self, stmts, depth, scope):
        out = []
        work = []
        stmts = self.dissolve(list(stmts)) if depth > 0 else stmts
        for s in stmts:
            pre, s2 = self.hoist(s, depth, scope)
            work.extend(pre)
            work.append(s2)
        for s in work:
            call = kind = None
            if isinstance(s, ast.Expr) and isinstance(s.value, ast.Call):
                call, kind = s.value, 'expr'
            elif isinstance(s, ast.Assign) and isinstance(s.value, ast.Call):
                call, kind = s.value, 'assign'
            elif isinstance(s, ast.Return) and isinstance(s.value, ast.Call):
                call, kind = s.value, 'return'
            g = self.callee(call, scope) if (call is not None and depth > 0) else None
            if g is not None:
                body, rexpr = self.paste(g, call, depth, scope)
                out.extend(body)
                if kind == 'assign':
                    st = ast.Assign(targets=s.targets, value=rexpr if rexpr is not None else ast.Constant(value=None))
                elif kind == 'return':
                    st = ast.Return(value=rexpr if rexpr is not None else ast.Constant(value=None))
                elif rexpr is not None and any(isinstance(x, ast.Call) for x in ast.walk(rexpr)):
                    st = ast.Expr(value=rexpr)
                else:
                    st = None
                if st is not None:
                    ast.copy_location(st, s)
                    ast.fix_missing_locations(st)
                    out.append(st)
                continue
            for fld in ('body', 'orelse', 'finalbody'):
                sub = getattr(s, fld, None)
                if isinstance(sub, list) and sub and isinstance(sub[0], ast.stmt) and not isinstance(s, (ast.FunctionDef, ast.ClassDef, ast.AsyncFunctionDef)):
                    setattr(s, fld, self.expand(sub, depth, scope))
            for h in getattr(s, 'handlers', []) or []:
                h.body = self.expand(h.body, depth, scope)
            out.append(s)
        return out


def inline_view(repo, f, depth=4, keep=()):
    """FuncInfo of a copy of f in which same-module helper calls are replaced by the helpers' bodies.
    ``view.origin`` is f, ``view.inlined`` the helpers pasted in (possibly empty)."""
    inl = _Inliner(repo, f, depth, keep)
    node = _clone(f.node)
    inl.top = node
    node.body = inl.expand(node.body, depth, [f])
    set_parents(node)
    node._parent = getattr(f.node, '_parent', None)
    view = FuncInfo(f.module, node, cls=f.cls, parent=f.parent)
    view.origin = f
    view.inlined = list(inl.inlined)
    return view
