"""Command line: ``./check <id> [--tier quick|thorough] [--repo PATH] [--replay FILE]``.

exit 0  every rule instance discharged (or a listed known finding)
exit 1  VIOLATION property=<id> replay=<path>
exit 2  ANALYSIS-ERROR (the analysis itself could not be carried out)
"""
import argparse
import importlib
import json
import os
import sys
import traceback

from .model import AnalysisError, Repo
from .report import Report, analysis_error

PROPS = ['C%02d' % i for i in range(1, 21)]


def run_property(prop, tier, repo_root, seed=0, replay=None, write=True):
    try:
        mod = importlib.import_module('sa.props.%s' % prop)
    except ImportError as e:
        return analysis_error(prop, tier, seed, 'no driver for %s (%s)' % (prop, e), write)
    rep = None
    err = None
    try:
        repo = Repo(repo_root)
        rep = Report(prop, tier, seed, repo_root, replay, write)
        mod.check(repo, rep, tier)
    except AnalysisError as e:
        err = str(e)
    except RecursionError:
        tb = traceback.format_exc().strip().splitlines()
        sys.stderr.write('\n'.join(tb[:12] + ['...'] + tb[-12:]) + '\n')
        err = 'internal recursion limit'
    except Exception as e:        # noqa - every traceback becomes exit 2
        tb = traceback.format_exc()
        sys.stderr.write(tb)
        err = 'internal error: %s' % tb.strip().splitlines()[-1]
    if rep is not None and err is None and rep.deferred:
        err = '; '.join(rep.deferred)
    if err is not None:
        # a positive violation found before the analysis broke down is still a violation
        if rep is not None and rep.new_violations():
            rep.note('analysis', 'analysis incomplete: %s' % err)
            return rep.finish()
        return analysis_error(prop, tier, seed, err, write)
    return rep.finish()


def main(argv=None):
    ap = argparse.ArgumentParser(prog='check')
    ap.add_argument('prop', help='C01..C20 | all | selftest')
    ap.add_argument('--tier', default=os.environ.get('VERIF_TIER') or 'quick', choices=['quick', 'thorough'])
    ap.add_argument('--repo', default=os.environ.get('VERIF_REPO') or '/repo')
    ap.add_argument('--replay', default=None)
    ap.add_argument('--no-evidence', action='store_true', help='do not write evidence/replay files')
    ap.add_argument('-j', type=int, default=16)
    ap.add_argument('rest', nargs='*')
    a = ap.parse_args(argv)
    try:
        seed = int(os.environ.get('VERIF_SEED') or 0)
    except ValueError:
        seed = 0
    if a.prop in ('selftest', 'corpus'):
        from . import selftest
        return selftest.main(a)
    if a.prop == 'all':
        import subprocess
        procs = [(p, subprocess.Popen([sys.executable, '-m', 'sa.cli', p, '--tier', a.tier, '--repo', a.repo]
                                      + (['--no-evidence'] if a.no_evidence else []),
                                      stdout=subprocess.PIPE, stderr=subprocess.STDOUT, text=True)) for p in PROPS]
        worst = 0
        for p, pr in procs:
            out, _ = pr.communicate()
            sys.stdout.write(out)
            worst = max(worst, pr.returncode)
        return worst
    replay = None
    if a.replay:
        with open(a.replay) as f:
            replay = json.load(f)
    if a.prop not in PROPS:
        print('unknown property %s' % a.prop)
        return 2
    status = run_property(a.prop, a.tier, a.repo, seed, replay, not a.no_evidence)
    if a.tier == 'thorough' and status == 0:
        from . import selftest
        st = selftest.run_for_property(a.prop, a.repo, a.j)
        if st != 0:
            return 2
    return status


if __name__ == '__main__':
    sys.exit(main())
